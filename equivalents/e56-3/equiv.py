"""Equivalence check for refactoring 3 (sar_image/enums.py, datetime adapters of datatypes.py).

Run as ``python equiv.py`` (or through pytest).  ``python equiv.py --record``
prints the observations as a dict literal; EXPECTED below was recorded that
way from the UNCHANGED code.
"""

import datetime
import pprint
import sys

import construct
from construct import Bytes, Computed, Float32b, Int8ub, Int16ub, Int24ub, Int32ub, Int64ub, Struct, this

from ceos_alos2 import datatypes
from ceos_alos2.sar_image import enums
from ceos_alos2.sar_image.signal_data import signal_data_record


def observe(func, *args, **kwargs):
    try:
        result = func(*args, **kwargs)
    except Exception as e:  # noqa: BLE001
        chained = e.__context__ is not None or e.__cause__ is not None
        return f"raised {type(e).__module__}.{type(e).__qualname__}: {e} (chained: {chained})"
    return f"{type(result).__module__}.{type(result).__qualname__}: {result!r}"


def pack(*values):
    return b"".join(int(v).to_bytes(4, "big") for v in values)


class Unhashable:
    __hash__ = None

    def __repr__(self):
        return "Unhashable()"


class CallableReference:
    def __init__(self, value):
        self.value = value
        self.calls = []

    def __call__(self, context):
        self.calls.append(sorted(k for k in context.keys() if not k.startswith("_")))
        if isinstance(self.value, Exception):
            raise self.value
        return self.value


def collect():
    obs = {}

    def add(key, func, *args, **kwargs):
        assert key not in obs, key
        obs[key] = observe(func, *args, **kwargs)

    # --- Flag: construction
    sizes = [1, 2, 4, 8, 0, 3, 5, 16, -1, None, "2", 1.0, 2.5, True, False, (1,), [1], Unhashable()]
    for size in sizes:
        key = f"flag/init/{size!r}"
        add(key, lambda size=size: enums.Flag(size).subcon)
        add(f"{key}/sizeof", lambda size=size: enums.Flag(size).sizeof())
    add("flag/init/missing", lambda: enums.Flag())
    add("flag/init/keyword", lambda: enums.Flag(size=2).subcon)
    add("flag/bases", lambda: sorted(enums.Flag.bases.items()))
    add("flag/bases/type", lambda: type(enums.Flag.bases))
    add(
        "flag/bases/identity",
        lambda: [
            enums.Flag.bases[1] is construct.Int8ub,
            enums.Flag.bases[2] is construct.Int16ub,
            enums.Flag.bases[4] is construct.Int32ub,
            enums.Flag.bases[8] is construct.Int64ub,
        ],
    )
    add("flag/instance-bases", lambda: enums.Flag(1).bases is enums.Flag.bases)
    add("flag/class", lambda: (enums.Flag.__module__, enums.Flag.__qualname__, enums.Flag.__mro__[1].__name__))
    add("flag/repr", lambda: repr(enums.Flag(2)))
    add("flag/module-names", lambda: [hasattr(enums, n) for n in ("Adapter", "Enum", "Int8ub", "Int16ub", "Int32ub", "Int64ub")])

    class Custom(enums.Flag):
        bases = {3: Int24ub, 1: None, "x": Int8ub}

    for size in (3, 1, 2, "x"):
        add(f"flag/subclass/{size!r}", lambda size=size: Custom(size).subcon)
    add("flag/subclass/parse", lambda: Custom(3).parse(b"\x00\x00\x01"))
    add("flag/subclass/base-untouched", lambda: sorted(enums.Flag.bases))

    # --- Flag: parsing and building
    parse_cases = [
        (1, b"\x00"),
        (1, b"\x01"),
        (1, b"\x0f"),
        (1, b"\xff"),
        (1, b""),
        (1, b"\x00\x01"),
        (2, b"\x00\x00"),
        (2, b"\x00\x01"),
        (2, b"\x01\x00"),
        (2, b"\x01"),
        (4, b"\x00\x00\x00\x00"),
        (4, b"\x80\x00\x00\x00"),
        (4, b"\x00\x00\x00"),
        (8, bytes(8)),
        (8, bytes(7) + b"\x02"),
        (8, b"\xff" * 8),
    ]
    for size, data in parse_cases:
        add(f"flag/parse/{size}/{data!r}", enums.Flag(size).parse, data)
    build_cases = [False, True, 0, 1, 2, 255, 256, 65536, -1, 2**64, 1.9, "1", "a", None, b"\x01", [], 1j]
    for size in (1, 2, 4, 8):
        for value in build_cases:
            add(f"flag/build/{size}/{value!r}", enums.Flag(size).build, value)
    record = Struct("a" / enums.Flag(1), "b" / enums.Flag(2)[2], "c" / enums.Flag(4))
    add("flag/struct/parse", record.parse, b"\x01\x00\x00\x00\x02\x00\x00\x00\x00")
    add("flag/struct/build", record.build, dict(a=True, b=[False, True], c=1))
    add("flag/struct/sizeof", record.sizeof)
    add("flag/struct/short", record.parse, b"\x01\x00\x00\x00")

    # --- enums
    names = [
        "sar_channel_id",
        "sar_channel_code",
        "pulse_polarization",
        "chirp_type_designator",
        "platform_position_parameters_update",
    ]
    for name in names:
        enum = getattr(enums, name)
        width = enum.sizeof()
        add(f"enum/{name}/type", lambda enum=enum: type(enum).__qualname__)
        add(f"enum/{name}/repr", lambda enum=enum: repr(enum))
        add(f"enum/{name}/sizeof", enum.sizeof)
        add(f"enum/{name}/subcon", lambda enum=enum: (enum.subcon is Int16ub, enum.subcon is Int32ub))
        add(f"enum/{name}/encmapping", lambda enum=enum: list(enum.encmapping.items()))
        add(f"enum/{name}/decmapping", lambda enum=enum: [(k, str(v), type(v).__name__) for k, v in enum.decmapping.items()])
        add(f"enum/{name}/ksymapping", lambda enum=enum: list(enum.ksymapping.items()))
        for value in list(range(8)) + [255, 256, 2 ** (8 * width) - 1]:
            data = value.to_bytes(width, "big")
            add(
                f"enum/{name}/parse/{value}",
                lambda enum=enum, data=data: (lambda r: (r, type(r).__name__, int(r), str(r)))(enum.parse(data)),
            )
        add(f"enum/{name}/parse/short", enum.parse, b"\x00")
        add(f"enum/{name}/parse/empty", enum.parse, b"")
        for member in list(enum.encmapping) + ["unknown", "", 0, 1, 7, -1, 2 ** (8 * width), None, 1.5]:
            add(f"enum/{name}/build/{member!r}", enum.build, member)
        for member in list(enum.encmapping) + ["unknown", "_missing"]:
            add(f"enum/{name}/attr/{member}", lambda enum=enum, member=member: (lambda r: (r, type(r).__name__))(getattr(enum, member)))
    add("enum/shared-in-records", lambda: [
        sc.name for sc in signal_data_record.subcons if any(sc.subcon is getattr(enums, n) for n in names)
    ])
    add("enum/distinct", lambda: len({id(getattr(enums, n)) for n in names}))

    # --- DatetimeYdms
    ydms_base = Struct("year" / Int32ub, "day_of_year" / Int32ub, "milliseconds" / Int32ub)
    ydms_cases = [
        (2020, 1, 0),
        (2020, 60, 1),
        (2020, 366, 86399999),
        (2019, 365, 86399999),
        (2019, 366, 0),
        (2014, 200, 12345678),
        (1, 1, 0),
        (1, 0, 0),
        (0, 1, 0),
        (0, 0, 0),
        (9999, 365, 86399999),
        (9999, 366, 0),
        (10000, 1, 0),
        (2**32 - 1, 1, 0),
        (2020, 0, 0),
        (2020, 1, 2**32 - 1),
        (2020, 2**32 - 1, 0),
        (2020, 2**31, 2**31),
    ]
    for values in ydms_cases:
        add(f"ydms/{values}", datatypes.DatetimeYdms(ydms_base).parse, pack(*values))
    parser = datatypes.DatetimeYdms(ydms_base)
    add("ydms/sizeof", parser.sizeof)
    add("ydms/build", parser.build, datetime.datetime(2020, 1, 1))
    add("ydms/short", parser.parse, pack(2020, 1))
    add("ydms/subcon", lambda: parser.subcon is ydms_base)
    for i, fields in enumerate(
        [
            ["year", "day_of_year"],
            ["year", "milliseconds"],
            ["day_of_year", "milliseconds"],
            ["year"],
            [],
        ]
    ):
        base = Struct(*[name / Int32ub for name in fields])
        for year in (2020, 0):
            add(f"ydms/missing/{i}/{year}", datatypes.DatetimeYdms(base).parse, pack(*[year, 0, 5][: len(fields)]))
    float_base = Struct("year" / Float32b, "day_of_year" / Int32ub, "milliseconds" / Int32ub)
    add("ydms/float-year", datatypes.DatetimeYdms(float_base).parse, b"\x44\xfc\x80\x00" + pack(1, 0))
    float_base = Struct("year" / Int32ub, "day_of_year" / Float32b, "milliseconds" / Float32b)
    add("ydms/float-rest", datatypes.DatetimeYdms(float_base).parse, pack(2020) + b"\x40\x20\x00\x00" + b"\x3f\xc0\x00\x00")
    bytes_base = Struct("year" / Int32ub, "day_of_year" / Bytes(1), "milliseconds" / Bytes(1))
    add("ydms/bytes-day", datatypes.DatetimeYdms(bytes_base).parse, pack(2020) + b"ab")
    bytes_base = Struct("year" / Int32ub, "day_of_year" / Int8ub, "milliseconds" / Bytes(1))
    add("ydms/bytes-ms", datatypes.DatetimeYdms(bytes_base).parse, pack(2020) + b"\x01b")
    add("ydms/not-a-mapping", datatypes.DatetimeYdms(Int32ub).parse, pack(2020))
    add("ydms/computed", datatypes.DatetimeYdms(Computed(lambda ctx: dict(year=2001, day_of_year=2, milliseconds=3))).parse, b"")
    add("ydms/names", lambda: [hasattr(datatypes, n) for n in ("datetime", "Adapter", "Struct", "PaddedString_")])

    # --- DatetimeYdus
    references = [
        datetime.datetime(2020, 10, 1, 12, 30, 15, 250),
        datetime.datetime(2020, 10, 1),
        datetime.datetime(2020, 2, 29, 23, 59, 59, 999999),
        datetime.datetime(1, 1, 1, 23, 59, 59),
        datetime.datetime(9999, 12, 31, 1),
        datetime.datetime(2020, 10, 1, 12, tzinfo=datetime.timezone.utc),
        datetime.datetime(2020, 10, 1, 1, tzinfo=datetime.timezone(datetime.timedelta(hours=5))),
        datetime.date(2020, 10, 1),
        None,
        "2020-10-01",
        0,
    ]
    offsets = [0, 1, 999999, 86399999999, 86400000000, 45015000250, 2**63, 2**64 - 1]
    for i, reference in enumerate(references):
        for offset in offsets:
            data = offset.to_bytes(8, "big")
            add(f"ydus/const/{i}/{offset}", datatypes.DatetimeYdus(Int64ub, reference).parse, data)
            add(
                f"ydus/lambda/{i}/{offset}",
                datatypes.DatetimeYdus(Int64ub, lambda ctx, reference=reference: reference).parse,
                data,
            )
        # a base that does not produce integers: which of the two errors wins
        add(f"ydus/bytes-base/{i}", datatypes.DatetimeYdus(Bytes(2), reference).parse, b"ab")
        add(f"ydus/float-base/{i}", datatypes.DatetimeYdus(Float32b, reference).parse, b"\x3f\xc0\x00\x00")
    parser = datatypes.DatetimeYdus(Int64ub, datetime.datetime(2020, 1, 1))
    add("ydus/attr", lambda: parser.reference_date)
    add("ydus/subcon", lambda: parser.subcon is Int64ub)
    add("ydus/sizeof", parser.sizeof)
    add("ydus/build", parser.build, datetime.datetime(2020, 1, 1))
    add("ydus/short", parser.parse, b"\x00")
    add("ydus/missing", lambda: datatypes.DatetimeYdus(Int64ub))
    add("ydus/keywords", lambda: datatypes.DatetimeYdus(base=Int64ub, reference_date=datetime.datetime(2020, 5, 5, 5)).parse(bytes(7) + b"\x09"))

    for label, value in (
        ("value", datetime.datetime(2011, 11, 11, 11)),
        ("error", RuntimeError("boom")),
        ("key-error", KeyError("date")),
        ("none", None),
    ):
        reference = CallableReference(value)
        record = Struct("a" / Int8ub, "micro" / datatypes.DatetimeYdus(Int64ub, reference), "b" / Int8ub)
        add(f"ydus/callable/{label}", record.parse, b"\x01" + (5).to_bytes(8, "big") + b"\x02")
        add(f"ydus/callable/{label}/again", record.parse, b"\x03" + (6).to_bytes(8, "big") + b"\x04")
        add(f"ydus/callable/{label}/short", record.parse, b"\x03" + b"\x00")
        add(f"ydus/callable/{label}/calls", lambda reference=reference: reference.calls)

    # a class is callable too: it gets called with the context
    add("ydus/callable-class", datatypes.DatetimeYdus(Int64ub, datetime.datetime).parse, bytes(8))
    add("ydus/callable-builtin", datatypes.DatetimeYdus(Int64ub, len).parse, bytes(8))

    record = Struct(
        "date" / datatypes.DatetimeYdms(ydms_base),
        "micro" / datatypes.DatetimeYdus(Int64ub, this.date),
    )
    for values, micro in (
        ((2020, 32, 3600000), 3600000123),
        ((2020, 366, 86399999), 86399999999),
        ((9999, 365, 0), 86400000000),
        ((0, 1, 0), 1),
        ((2020, 1, 0), 2**64 - 1),
    ):
        add(f"ydus/this/{values}/{micro}", record.parse, pack(*values) + micro.to_bytes(8, "big"))
    add("ydus/this/sizeof", record.sizeof)
    record = Struct("micro" / datatypes.DatetimeYdus(Int64ub, this.date))
    add("ydus/this/missing", record.parse, bytes(8))
    add("ydus/this/missing/short", record.parse, bytes(4))
    nested = Struct(
        "date" / datatypes.DatetimeYdms(ydms_base),
        "inner" / Struct("micro" / datatypes.DatetimeYdus(Int32ub, this._.date)),
    )
    add("ydus/this/nested", nested.parse, pack(2015, 100, 0, 1500000))

    return obs


EXPECTED = {'flag/init/1': 'construct.core.FormatField: <FormatField>',
 'flag/init/1/sizeof': 'builtins.int: 1',
 'flag/init/2': 'construct.core.FormatField: <FormatField>',
 'flag/init/2/sizeof': 'builtins.int: 2',
 'flag/init/4': 'construct.core.FormatField: <FormatField>',
 'flag/init/4/sizeof': 'builtins.int: 4',
 'flag/init/8': 'construct.core.FormatField: <FormatField>',
 'flag/init/8/sizeof': 'builtins.int: 8',
 'flag/init/0': 'raised builtins.ValueError: unsupported size: 0 (chained: False)',
 'flag/init/0/sizeof': 'raised builtins.ValueError: unsupported size: 0 (chained: False)',
 'flag/init/3': 'raised builtins.ValueError: unsupported size: 3 (chained: False)',
 'flag/init/3/sizeof': 'raised builtins.ValueError: unsupported size: 3 (chained: False)',
 'flag/init/5': 'raised builtins.ValueError: unsupported size: 5 (chained: False)',
 'flag/init/5/sizeof': 'raised builtins.ValueError: unsupported size: 5 (chained: False)',
 'flag/init/16': 'raised builtins.ValueError: unsupported size: 16 (chained: False)',
 'flag/init/16/sizeof': 'raised builtins.ValueError: unsupported size: 16 (chained: False)',
 'flag/init/-1': 'raised builtins.ValueError: unsupported size: -1 (chained: False)',
 'flag/init/-1/sizeof': 'raised builtins.ValueError: unsupported size: -1 (chained: False)',
 'flag/init/None': 'raised builtins.ValueError: unsupported size: None (chained: False)',
 'flag/init/None/sizeof': 'raised builtins.ValueError: unsupported size: None (chained: False)',
 "flag/init/'2'": 'raised builtins.ValueError: unsupported size: 2 (chained: False)',
 "flag/init/'2'/sizeof": 'raised builtins.ValueError: unsupported size: 2 (chained: False)',
 'flag/init/1.0': 'construct.core.FormatField: <FormatField>',
 'flag/init/1.0/sizeof': 'builtins.int: 1',
 'flag/init/2.5': 'raised builtins.ValueError: unsupported size: 2.5 (chained: False)',
 'flag/init/2.5/sizeof': 'raised builtins.ValueError: unsupported size: 2.5 (chained: False)',
 'flag/init/True': 'construct.core.FormatField: <FormatField>',
 'flag/init/True/sizeof': 'builtins.int: 1',
 'flag/init/False': 'raised builtins.ValueError: unsupported size: False (chained: False)',
 'flag/init/False/sizeof': 'raised builtins.ValueError: unsupported size: False (chained: False)',
 'flag/init/(1,)': 'raised builtins.ValueError: unsupported size: (1,) (chained: False)',
 'flag/init/(1,)/sizeof': 'raised builtins.ValueError: unsupported size: (1,) (chained: False)',
 'flag/init/[1]': "raised builtins.TypeError: unhashable type: 'list' (chained: False)",
 'flag/init/[1]/sizeof': "raised builtins.TypeError: unhashable type: 'list' (chained: False)",
 'flag/init/Unhashable()': "raised builtins.TypeError: unhashable type: 'Unhashable' (chained: False)",
 'flag/init/Unhashable()/sizeof': "raised builtins.TypeError: unhashable type: 'Unhashable' (chained: False)",
 'flag/init/missing': "raised builtins.TypeError: Flag.__init__() missing 1 required positional argument: 'size' "
                      '(chained: False)',
 'flag/init/keyword': 'construct.core.FormatField: <FormatField>',
 'flag/bases': 'builtins.list: [(1, <FormatField>), (2, <FormatField>), (4, <FormatField>), (8, <FormatField>)]',
 'flag/bases/type': "builtins.type: <class 'dict'>",
 'flag/bases/identity': 'builtins.list: [True, True, True, True]',
 'flag/instance-bases': 'builtins.bool: True',
 'flag/class': "builtins.tuple: ('ceos_alos2.sar_image.enums', 'Flag', 'Adapter')",
 'flag/repr': "builtins.str: '<Flag <FormatField>>'",
 'flag/module-names': 'builtins.list: [True, True, True, True, True, True]',
 'flag/subclass/3': 'construct.core.BytesInteger: <BytesInteger>',
 'flag/subclass/1': 'raised builtins.ValueError: unsupported size: 1 (chained: False)',
 'flag/subclass/2': 'raised builtins.ValueError: unsupported size: 2 (chained: False)',
 "flag/subclass/'x'": 'construct.core.FormatField: <FormatField>',
 'flag/subclass/parse': 'builtins.bool: True',
 'flag/subclass/base-untouched': 'builtins.list: [1, 2, 4, 8]',
 "flag/parse/1/b'\\x00'": 'builtins.bool: False',
 "flag/parse/1/b'\\x01'": 'builtins.bool: True',
 "flag/parse/1/b'\\x0f'": 'builtins.bool: True',
 "flag/parse/1/b'\\xff'": 'builtins.bool: True',
 "flag/parse/1/b''": 'raised construct.core.StreamError: Error in path (parsing)\n'
                     'stream read less than specified amount, expected 1, found 0 (chained: False)',
 "flag/parse/1/b'\\x00\\x01'": 'builtins.bool: False',
 "flag/parse/2/b'\\x00\\x00'": 'builtins.bool: False',
 "flag/parse/2/b'\\x00\\x01'": 'builtins.bool: True',
 "flag/parse/2/b'\\x01\\x00'": 'builtins.bool: True',
 "flag/parse/2/b'\\x01'": 'raised construct.core.StreamError: Error in path (parsing)\n'
                          'stream read less than specified amount, expected 2, found 1 (chained: False)',
 "flag/parse/4/b'\\x00\\x00\\x00\\x00'": 'builtins.bool: False',
 "flag/parse/4/b'\\x80\\x00\\x00\\x00'": 'builtins.bool: True',
 "flag/parse/4/b'\\x00\\x00\\x00'": 'raised construct.core.StreamError: Error in path (parsing)\n'
                                    'stream read less than specified amount, expected 4, found 3 (chained: False)',
 "flag/parse/8/b'\\x00\\x00\\x00\\x00\\x00\\x00\\x00\\x00'": 'builtins.bool: False',
 "flag/parse/8/b'\\x00\\x00\\x00\\x00\\x00\\x00\\x00\\x02'": 'builtins.bool: True',
 "flag/parse/8/b'\\xff\\xff\\xff\\xff\\xff\\xff\\xff\\xff'": 'builtins.bool: True',
 'flag/build/1/False': "builtins.bytes: b'\\x00'",
 'flag/build/1/True': "builtins.bytes: b'\\x01'",
 'flag/build/1/0': "builtins.bytes: b'\\x00'",
 'flag/build/1/1': "builtins.bytes: b'\\x01'",
 'flag/build/1/2': "builtins.bytes: b'\\x02'",
 'flag/build/1/255': "builtins.bytes: b'\\xff'",
 'flag/build/1/256': 'raised construct.core.FormatFieldError: Error in path (building)\n'
                     "struct '>B' error during building, given value 256 (chained: True)",
 'flag/build/1/65536': 'raised construct.core.FormatFieldError: Error in path (building)\n'
                       "struct '>B' error during building, given value 65536 (chained: True)",
 'flag/build/1/-1': 'raised construct.core.FormatFieldError: Error in path (building)\n'
                    "struct '>B' error during building, given value -1 (chained: True)",
 'flag/build/1/18446744073709551616': 'raised construct.core.FormatFieldError: Error in path (building)\n'
                                      "struct '>B' error during building, given value 18446744073709551616 (chained: "
                                      'True)',
 'flag/build/1/1.9': "builtins.bytes: b'\\x01'",
 "flag/build/1/'1'": "builtins.bytes: b'\\x01'",
 "flag/build/1/'a'": "raised builtins.ValueError: invalid literal for int() with base 10: 'a' (chained: False)",
 'flag/build/1/None': 'raised builtins.TypeError: int() argument must be a string, a bytes-like object or a real '
                      "number, not 'NoneType' (chained: False)",
 "flag/build/1/b'\\x01'": "raised builtins.ValueError: invalid literal for int() with base 10: b'\\x01' (chained: "
                          'False)',
 'flag/build/1/[]': 'raised builtins.TypeError: int() argument must be a string, a bytes-like object or a real number, '
                    "not 'list' (chained: False)",
 'flag/build/1/1j': 'raised builtins.TypeError: int() argument must be a string, a bytes-like object or a real number, '
                    "not 'complex' (chained: False)",
 'flag/build/2/False': "builtins.bytes: b'\\x00\\x00'",
 'flag/build/2/True': "builtins.bytes: b'\\x00\\x01'",
 'flag/build/2/0': "builtins.bytes: b'\\x00\\x00'",
 'flag/build/2/1': "builtins.bytes: b'\\x00\\x01'",
 'flag/build/2/2': "builtins.bytes: b'\\x00\\x02'",
 'flag/build/2/255': "builtins.bytes: b'\\x00\\xff'",
 'flag/build/2/256': "builtins.bytes: b'\\x01\\x00'",
 'flag/build/2/65536': 'raised construct.core.FormatFieldError: Error in path (building)\n'
                       "struct '>H' error during building, given value 65536 (chained: True)",
 'flag/build/2/-1': 'raised construct.core.FormatFieldError: Error in path (building)\n'
                    "struct '>H' error during building, given value -1 (chained: True)",
 'flag/build/2/18446744073709551616': 'raised construct.core.FormatFieldError: Error in path (building)\n'
                                      "struct '>H' error during building, given value 18446744073709551616 (chained: "
                                      'True)',
 'flag/build/2/1.9': "builtins.bytes: b'\\x00\\x01'",
 "flag/build/2/'1'": "builtins.bytes: b'\\x00\\x01'",
 "flag/build/2/'a'": "raised builtins.ValueError: invalid literal for int() with base 10: 'a' (chained: False)",
 'flag/build/2/None': 'raised builtins.TypeError: int() argument must be a string, a bytes-like object or a real '
                      "number, not 'NoneType' (chained: False)",
 "flag/build/2/b'\\x01'": "raised builtins.ValueError: invalid literal for int() with base 10: b'\\x01' (chained: "
                          'False)',
 'flag/build/2/[]': 'raised builtins.TypeError: int() argument must be a string, a bytes-like object or a real number, '
                    "not 'list' (chained: False)",
 'flag/build/2/1j': 'raised builtins.TypeError: int() argument must be a string, a bytes-like object or a real number, '
                    "not 'complex' (chained: False)",
 'flag/build/4/False': "builtins.bytes: b'\\x00\\x00\\x00\\x00'",
 'flag/build/4/True': "builtins.bytes: b'\\x00\\x00\\x00\\x01'",
 'flag/build/4/0': "builtins.bytes: b'\\x00\\x00\\x00\\x00'",
 'flag/build/4/1': "builtins.bytes: b'\\x00\\x00\\x00\\x01'",
 'flag/build/4/2': "builtins.bytes: b'\\x00\\x00\\x00\\x02'",
 'flag/build/4/255': "builtins.bytes: b'\\x00\\x00\\x00\\xff'",
 'flag/build/4/256': "builtins.bytes: b'\\x00\\x00\\x01\\x00'",
 'flag/build/4/65536': "builtins.bytes: b'\\x00\\x01\\x00\\x00'",
 'flag/build/4/-1': 'raised construct.core.FormatFieldError: Error in path (building)\n'
                    "struct '>L' error during building, given value -1 (chained: True)",
 'flag/build/4/18446744073709551616': 'raised construct.core.FormatFieldError: Error in path (building)\n'
                                      "struct '>L' error during building, given value 18446744073709551616 (chained: "
                                      'True)',
 'flag/build/4/1.9': "builtins.bytes: b'\\x00\\x00\\x00\\x01'",
 "flag/build/4/'1'": "builtins.bytes: b'\\x00\\x00\\x00\\x01'",
 "flag/build/4/'a'": "raised builtins.ValueError: invalid literal for int() with base 10: 'a' (chained: False)",
 'flag/build/4/None': 'raised builtins.TypeError: int() argument must be a string, a bytes-like object or a real '
                      "number, not 'NoneType' (chained: False)",
 "flag/build/4/b'\\x01'": "raised builtins.ValueError: invalid literal for int() with base 10: b'\\x01' (chained: "
                          'False)',
 'flag/build/4/[]': 'raised builtins.TypeError: int() argument must be a string, a bytes-like object or a real number, '
                    "not 'list' (chained: False)",
 'flag/build/4/1j': 'raised builtins.TypeError: int() argument must be a string, a bytes-like object or a real number, '
                    "not 'complex' (chained: False)",
 'flag/build/8/False': "builtins.bytes: b'\\x00\\x00\\x00\\x00\\x00\\x00\\x00\\x00'",
 'flag/build/8/True': "builtins.bytes: b'\\x00\\x00\\x00\\x00\\x00\\x00\\x00\\x01'",
 'flag/build/8/0': "builtins.bytes: b'\\x00\\x00\\x00\\x00\\x00\\x00\\x00\\x00'",
 'flag/build/8/1': "builtins.bytes: b'\\x00\\x00\\x00\\x00\\x00\\x00\\x00\\x01'",
 'flag/build/8/2': "builtins.bytes: b'\\x00\\x00\\x00\\x00\\x00\\x00\\x00\\x02'",
 'flag/build/8/255': "builtins.bytes: b'\\x00\\x00\\x00\\x00\\x00\\x00\\x00\\xff'",
 'flag/build/8/256': "builtins.bytes: b'\\x00\\x00\\x00\\x00\\x00\\x00\\x01\\x00'",
 'flag/build/8/65536': "builtins.bytes: b'\\x00\\x00\\x00\\x00\\x00\\x01\\x00\\x00'",
 'flag/build/8/-1': 'raised construct.core.FormatFieldError: Error in path (building)\n'
                    "struct '>Q' error during building, given value -1 (chained: True)",
 'flag/build/8/18446744073709551616': 'raised construct.core.FormatFieldError: Error in path (building)\n'
                                      "struct '>Q' error during building, given value 18446744073709551616 (chained: "
                                      'True)',
 'flag/build/8/1.9': "builtins.bytes: b'\\x00\\x00\\x00\\x00\\x00\\x00\\x00\\x01'",
 "flag/build/8/'1'": "builtins.bytes: b'\\x00\\x00\\x00\\x00\\x00\\x00\\x00\\x01'",
 "flag/build/8/'a'": "raised builtins.ValueError: invalid literal for int() with base 10: 'a' (chained: False)",
 'flag/build/8/None': 'raised builtins.TypeError: int() argument must be a string, a bytes-like object or a real '
                      "number, not 'NoneType' (chained: False)",
 "flag/build/8/b'\\x01'": "raised builtins.ValueError: invalid literal for int() with base 10: b'\\x01' (chained: "
                          'False)',
 'flag/build/8/[]': 'raised builtins.TypeError: int() argument must be a string, a bytes-like object or a real number, '
                    "not 'list' (chained: False)",
 'flag/build/8/1j': 'raised builtins.TypeError: int() argument must be a string, a bytes-like object or a real number, '
                    "not 'complex' (chained: False)",
 'flag/struct/parse': 'construct.lib.containers.Container: Container(a=True, b=ListContainer([False, True]), c=False)',
 'flag/struct/build': "builtins.bytes: b'\\x01\\x00\\x00\\x00\\x01\\x00\\x00\\x00\\x01'",
 'flag/struct/sizeof': 'builtins.int: 9',
 'flag/struct/short': 'raised construct.core.StreamError: Error in path (parsing) -> b\n'
                      'stream read less than specified amount, expected 2, found 1 (chained: False)',
 'enum/sar_channel_id/type': "builtins.str: 'Enum'",
 'enum/sar_channel_id/repr': "builtins.str: '<Enum <FormatField>>'",
 'enum/sar_channel_id/sizeof': 'builtins.int: 2',
 'enum/sar_channel_id/subcon': 'builtins.tuple: (True, False)',
 'enum/sar_channel_id/encmapping': "builtins.list: [(EnumIntegerString.new(1, 'single_polarization'), 1), "
                                   "(EnumIntegerString.new(2, 'dual_polarization'), 2), (EnumIntegerString.new(4, "
                                   "'full_polarization'), 4)]",
 'enum/sar_channel_id/decmapping': "builtins.list: [(1, 'single_polarization', 'EnumIntegerString'), (2, "
                                   "'dual_polarization', 'EnumIntegerString'), (4, 'full_polarization', "
                                   "'EnumIntegerString')]",
 'enum/sar_channel_id/ksymapping': "builtins.list: [(1, 'single_polarization'), (2, 'dual_polarization'), (4, "
                                   "'full_polarization')]",
 'enum/sar_channel_id/parse/0': "builtins.tuple: (0, 'EnumInteger', 0, '0')",
 'enum/sar_channel_id/parse/1': "builtins.tuple: (EnumIntegerString.new(1, 'single_polarization'), "
                                "'EnumIntegerString', 1, 'single_polarization')",
 'enum/sar_channel_id/parse/2': "builtins.tuple: (EnumIntegerString.new(2, 'dual_polarization'), 'EnumIntegerString', "
                                "2, 'dual_polarization')",
 'enum/sar_channel_id/parse/3': "builtins.tuple: (3, 'EnumInteger', 3, '3')",
 'enum/sar_channel_id/parse/4': "builtins.tuple: (EnumIntegerString.new(4, 'full_polarization'), 'EnumIntegerString', "
                                "4, 'full_polarization')",
 'enum/sar_channel_id/parse/5': "builtins.tuple: (5, 'EnumInteger', 5, '5')",
 'enum/sar_channel_id/parse/6': "builtins.tuple: (6, 'EnumInteger', 6, '6')",
 'enum/sar_channel_id/parse/7': "builtins.tuple: (7, 'EnumInteger', 7, '7')",
 'enum/sar_channel_id/parse/255': "builtins.tuple: (255, 'EnumInteger', 255, '255')",
 'enum/sar_channel_id/parse/256': "builtins.tuple: (256, 'EnumInteger', 256, '256')",
 'enum/sar_channel_id/parse/65535': "builtins.tuple: (65535, 'EnumInteger', 65535, '65535')",
 'enum/sar_channel_id/parse/short': 'raised construct.core.StreamError: Error in path (parsing)\n'
                                    'stream read less than specified amount, expected 2, found 1 (chained: False)',
 'enum/sar_channel_id/parse/empty': 'raised construct.core.StreamError: Error in path (parsing)\n'
                                    'stream read less than specified amount, expected 2, found 0 (chained: False)',
 "enum/sar_channel_id/build/EnumIntegerString.new(1, 'single_polarization')": "builtins.bytes: b'\\x00\\x01'",
 "enum/sar_channel_id/build/EnumIntegerString.new(2, 'dual_polarization')": "builtins.bytes: b'\\x00\\x02'",
 "enum/sar_channel_id/build/EnumIntegerString.new(4, 'full_polarization')": "builtins.bytes: b'\\x00\\x04'",
 "enum/sar_channel_id/build/'unknown'": 'raised construct.core.MappingError: Error in path (building)\n'
                                        "building failed, no mapping for 'unknown' (chained: True)",
 "enum/sar_channel_id/build/''": 'raised construct.core.MappingError: Error in path (building)\n'
                                 "building failed, no mapping for '' (chained: True)",
 'enum/sar_channel_id/build/0': "builtins.bytes: b'\\x00\\x00'",
 'enum/sar_channel_id/build/1': "builtins.bytes: b'\\x00\\x01'",
 'enum/sar_channel_id/build/7': "builtins.bytes: b'\\x00\\x07'",
 'enum/sar_channel_id/build/-1': 'raised construct.core.FormatFieldError: Error in path (building)\n'
                                 "struct '>H' error during building, given value -1 (chained: True)",
 'enum/sar_channel_id/build/65536': 'raised construct.core.FormatFieldError: Error in path (building)\n'
                                    "struct '>H' error during building, given value 65536 (chained: True)",
 'enum/sar_channel_id/build/None': 'raised construct.core.MappingError: Error in path (building)\n'
                                   'building failed, no mapping for None (chained: True)',
 'enum/sar_channel_id/build/1.5': 'raised construct.core.MappingError: Error in path (building)\n'
                                  'building failed, no mapping for 1.5 (chained: True)',
 'enum/sar_channel_id/attr/single_polarization': "builtins.tuple: (EnumIntegerString.new(1, 'single_polarization'), "
                                                 "'EnumIntegerString')",
 'enum/sar_channel_id/attr/dual_polarization': "builtins.tuple: (EnumIntegerString.new(2, 'dual_polarization'), "
                                               "'EnumIntegerString')",
 'enum/sar_channel_id/attr/full_polarization': "builtins.tuple: (EnumIntegerString.new(4, 'full_polarization'), "
                                               "'EnumIntegerString')",
 'enum/sar_channel_id/attr/unknown': 'raised builtins.AttributeError:  (chained: False)',
 'enum/sar_channel_id/attr/_missing': 'raised builtins.AttributeError:  (chained: False)',
 'enum/sar_channel_code/type': "builtins.str: 'Enum'",
 'enum/sar_channel_code/repr': "builtins.str: '<Enum <FormatField>>'",
 'enum/sar_channel_code/sizeof': 'builtins.int: 2',
 'enum/sar_channel_code/subcon': 'builtins.tuple: (True, False)',
 'enum/sar_channel_code/encmapping': "builtins.list: [(EnumIntegerString.new(0, 'L'), 0), (EnumIntegerString.new(1, "
                                     "'S'), 1), (EnumIntegerString.new(2, 'C'), 2), (EnumIntegerString.new(3, 'X'), "
                                     "3), (EnumIntegerString.new(4, 'KU'), 4), (EnumIntegerString.new(5, 'KA'), 5)]",
 'enum/sar_channel_code/decmapping': "builtins.list: [(0, 'L', 'EnumIntegerString'), (1, 'S', 'EnumIntegerString'), "
                                     "(2, 'C', 'EnumIntegerString'), (3, 'X', 'EnumIntegerString'), (4, 'KU', "
                                     "'EnumIntegerString'), (5, 'KA', 'EnumIntegerString')]",
 'enum/sar_channel_code/ksymapping': "builtins.list: [(0, 'L'), (1, 'S'), (2, 'C'), (3, 'X'), (4, 'KU'), (5, 'KA')]",
 'enum/sar_channel_code/parse/0': "builtins.tuple: (EnumIntegerString.new(0, 'L'), 'EnumIntegerString', 0, 'L')",
 'enum/sar_channel_code/parse/1': "builtins.tuple: (EnumIntegerString.new(1, 'S'), 'EnumIntegerString', 1, 'S')",
 'enum/sar_channel_code/parse/2': "builtins.tuple: (EnumIntegerString.new(2, 'C'), 'EnumIntegerString', 2, 'C')",
 'enum/sar_channel_code/parse/3': "builtins.tuple: (EnumIntegerString.new(3, 'X'), 'EnumIntegerString', 3, 'X')",
 'enum/sar_channel_code/parse/4': "builtins.tuple: (EnumIntegerString.new(4, 'KU'), 'EnumIntegerString', 4, 'KU')",
 'enum/sar_channel_code/parse/5': "builtins.tuple: (EnumIntegerString.new(5, 'KA'), 'EnumIntegerString', 5, 'KA')",
 'enum/sar_channel_code/parse/6': "builtins.tuple: (6, 'EnumInteger', 6, '6')",
 'enum/sar_channel_code/parse/7': "builtins.tuple: (7, 'EnumInteger', 7, '7')",
 'enum/sar_channel_code/parse/255': "builtins.tuple: (255, 'EnumInteger', 255, '255')",
 'enum/sar_channel_code/parse/256': "builtins.tuple: (256, 'EnumInteger', 256, '256')",
 'enum/sar_channel_code/parse/65535': "builtins.tuple: (65535, 'EnumInteger', 65535, '65535')",
 'enum/sar_channel_code/parse/short': 'raised construct.core.StreamError: Error in path (parsing)\n'
                                      'stream read less than specified amount, expected 2, found 1 (chained: False)',
 'enum/sar_channel_code/parse/empty': 'raised construct.core.StreamError: Error in path (parsing)\n'
                                      'stream read less than specified amount, expected 2, found 0 (chained: False)',
 "enum/sar_channel_code/build/EnumIntegerString.new(0, 'L')": "builtins.bytes: b'\\x00\\x00'",
 "enum/sar_channel_code/build/EnumIntegerString.new(1, 'S')": "builtins.bytes: b'\\x00\\x01'",
 "enum/sar_channel_code/build/EnumIntegerString.new(2, 'C')": "builtins.bytes: b'\\x00\\x02'",
 "enum/sar_channel_code/build/EnumIntegerString.new(3, 'X')": "builtins.bytes: b'\\x00\\x03'",
 "enum/sar_channel_code/build/EnumIntegerString.new(4, 'KU')": "builtins.bytes: b'\\x00\\x04'",
 "enum/sar_channel_code/build/EnumIntegerString.new(5, 'KA')": "builtins.bytes: b'\\x00\\x05'",
 "enum/sar_channel_code/build/'unknown'": 'raised construct.core.MappingError: Error in path (building)\n'
                                          "building failed, no mapping for 'unknown' (chained: True)",
 "enum/sar_channel_code/build/''": 'raised construct.core.MappingError: Error in path (building)\n'
                                   "building failed, no mapping for '' (chained: True)",
 'enum/sar_channel_code/build/0': "builtins.bytes: b'\\x00\\x00'",
 'enum/sar_channel_code/build/1': "builtins.bytes: b'\\x00\\x01'",
 'enum/sar_channel_code/build/7': "builtins.bytes: b'\\x00\\x07'",
 'enum/sar_channel_code/build/-1': 'raised construct.core.FormatFieldError: Error in path (building)\n'
                                   "struct '>H' error during building, given value -1 (chained: True)",
 'enum/sar_channel_code/build/65536': 'raised construct.core.FormatFieldError: Error in path (building)\n'
                                      "struct '>H' error during building, given value 65536 (chained: True)",
 'enum/sar_channel_code/build/None': 'raised construct.core.MappingError: Error in path (building)\n'
                                     'building failed, no mapping for None (chained: True)',
 'enum/sar_channel_code/build/1.5': 'raised construct.core.MappingError: Error in path (building)\n'
                                    'building failed, no mapping for 1.5 (chained: True)',
 'enum/sar_channel_code/attr/L': "builtins.tuple: (EnumIntegerString.new(0, 'L'), 'EnumIntegerString')",
 'enum/sar_channel_code/attr/S': "builtins.tuple: (EnumIntegerString.new(1, 'S'), 'EnumIntegerString')",
 'enum/sar_channel_code/attr/C': "builtins.tuple: (EnumIntegerString.new(2, 'C'), 'EnumIntegerString')",
 'enum/sar_channel_code/attr/X': "builtins.tuple: (EnumIntegerString.new(3, 'X'), 'EnumIntegerString')",
 'enum/sar_channel_code/attr/KU': "builtins.tuple: (EnumIntegerString.new(4, 'KU'), 'EnumIntegerString')",
 'enum/sar_channel_code/attr/KA': "builtins.tuple: (EnumIntegerString.new(5, 'KA'), 'EnumIntegerString')",
 'enum/sar_channel_code/attr/unknown': 'raised builtins.AttributeError:  (chained: False)',
 'enum/sar_channel_code/attr/_missing': 'raised builtins.AttributeError:  (chained: False)',
 'enum/pulse_polarization/type': "builtins.str: 'Enum'",
 'enum/pulse_polarization/repr': "builtins.str: '<Enum <FormatField>>'",
 'enum/pulse_polarization/sizeof': 'builtins.int: 2',
 'enum/pulse_polarization/subcon': 'builtins.tuple: (True, False)',
 'enum/pulse_polarization/encmapping': "builtins.list: [(EnumIntegerString.new(0, 'horizontal'), 0), "
                                       "(EnumIntegerString.new(1, 'vertical'), 1)]",
 'enum/pulse_polarization/decmapping': "builtins.list: [(0, 'horizontal', 'EnumIntegerString'), (1, 'vertical', "
                                       "'EnumIntegerString')]",
 'enum/pulse_polarization/ksymapping': "builtins.list: [(0, 'horizontal'), (1, 'vertical')]",
 'enum/pulse_polarization/parse/0': "builtins.tuple: (EnumIntegerString.new(0, 'horizontal'), 'EnumIntegerString', 0, "
                                    "'horizontal')",
 'enum/pulse_polarization/parse/1': "builtins.tuple: (EnumIntegerString.new(1, 'vertical'), 'EnumIntegerString', 1, "
                                    "'vertical')",
 'enum/pulse_polarization/parse/2': "builtins.tuple: (2, 'EnumInteger', 2, '2')",
 'enum/pulse_polarization/parse/3': "builtins.tuple: (3, 'EnumInteger', 3, '3')",
 'enum/pulse_polarization/parse/4': "builtins.tuple: (4, 'EnumInteger', 4, '4')",
 'enum/pulse_polarization/parse/5': "builtins.tuple: (5, 'EnumInteger', 5, '5')",
 'enum/pulse_polarization/parse/6': "builtins.tuple: (6, 'EnumInteger', 6, '6')",
 'enum/pulse_polarization/parse/7': "builtins.tuple: (7, 'EnumInteger', 7, '7')",
 'enum/pulse_polarization/parse/255': "builtins.tuple: (255, 'EnumInteger', 255, '255')",
 'enum/pulse_polarization/parse/256': "builtins.tuple: (256, 'EnumInteger', 256, '256')",
 'enum/pulse_polarization/parse/65535': "builtins.tuple: (65535, 'EnumInteger', 65535, '65535')",
 'enum/pulse_polarization/parse/short': 'raised construct.core.StreamError: Error in path (parsing)\n'
                                        'stream read less than specified amount, expected 2, found 1 (chained: False)',
 'enum/pulse_polarization/parse/empty': 'raised construct.core.StreamError: Error in path (parsing)\n'
                                        'stream read less than specified amount, expected 2, found 0 (chained: False)',
 "enum/pulse_polarization/build/EnumIntegerString.new(0, 'horizontal')": "builtins.bytes: b'\\x00\\x00'",
 "enum/pulse_polarization/build/EnumIntegerString.new(1, 'vertical')": "builtins.bytes: b'\\x00\\x01'",
 "enum/pulse_polarization/build/'unknown'": 'raised construct.core.MappingError: Error in path (building)\n'
                                            "building failed, no mapping for 'unknown' (chained: True)",
 "enum/pulse_polarization/build/''": 'raised construct.core.MappingError: Error in path (building)\n'
                                     "building failed, no mapping for '' (chained: True)",
 'enum/pulse_polarization/build/0': "builtins.bytes: b'\\x00\\x00'",
 'enum/pulse_polarization/build/1': "builtins.bytes: b'\\x00\\x01'",
 'enum/pulse_polarization/build/7': "builtins.bytes: b'\\x00\\x07'",
 'enum/pulse_polarization/build/-1': 'raised construct.core.FormatFieldError: Error in path (building)\n'
                                     "struct '>H' error during building, given value -1 (chained: True)",
 'enum/pulse_polarization/build/65536': 'raised construct.core.FormatFieldError: Error in path (building)\n'
                                        "struct '>H' error during building, given value 65536 (chained: True)",
 'enum/pulse_polarization/build/None': 'raised construct.core.MappingError: Error in path (building)\n'
                                       'building failed, no mapping for None (chained: True)',
 'enum/pulse_polarization/build/1.5': 'raised construct.core.MappingError: Error in path (building)\n'
                                      'building failed, no mapping for 1.5 (chained: True)',
 'enum/pulse_polarization/attr/horizontal': "builtins.tuple: (EnumIntegerString.new(0, 'horizontal'), "
                                            "'EnumIntegerString')",
 'enum/pulse_polarization/attr/vertical': "builtins.tuple: (EnumIntegerString.new(1, 'vertical'), 'EnumIntegerString')",
 'enum/pulse_polarization/attr/unknown': 'raised builtins.AttributeError:  (chained: False)',
 'enum/pulse_polarization/attr/_missing': 'raised builtins.AttributeError:  (chained: False)',
 'enum/chirp_type_designator/type': "builtins.str: 'Enum'",
 'enum/chirp_type_designator/repr': "builtins.str: '<Enum <FormatField>>'",
 'enum/chirp_type_designator/sizeof': 'builtins.int: 2',
 'enum/chirp_type_designator/subcon': 'builtins.tuple: (True, False)',
 'enum/chirp_type_designator/encmapping': "builtins.list: [(EnumIntegerString.new(0, 'linear_fm_chirp'), 0), "
                                          "(EnumIntegerString.new(1, 'phase_modulators'), 1)]",
 'enum/chirp_type_designator/decmapping': "builtins.list: [(0, 'linear_fm_chirp', 'EnumIntegerString'), (1, "
                                          "'phase_modulators', 'EnumIntegerString')]",
 'enum/chirp_type_designator/ksymapping': "builtins.list: [(0, 'linear_fm_chirp'), (1, 'phase_modulators')]",
 'enum/chirp_type_designator/parse/0': "builtins.tuple: (EnumIntegerString.new(0, 'linear_fm_chirp'), "
                                       "'EnumIntegerString', 0, 'linear_fm_chirp')",
 'enum/chirp_type_designator/parse/1': "builtins.tuple: (EnumIntegerString.new(1, 'phase_modulators'), "
                                       "'EnumIntegerString', 1, 'phase_modulators')",
 'enum/chirp_type_designator/parse/2': "builtins.tuple: (2, 'EnumInteger', 2, '2')",
 'enum/chirp_type_designator/parse/3': "builtins.tuple: (3, 'EnumInteger', 3, '3')",
 'enum/chirp_type_designator/parse/4': "builtins.tuple: (4, 'EnumInteger', 4, '4')",
 'enum/chirp_type_designator/parse/5': "builtins.tuple: (5, 'EnumInteger', 5, '5')",
 'enum/chirp_type_designator/parse/6': "builtins.tuple: (6, 'EnumInteger', 6, '6')",
 'enum/chirp_type_designator/parse/7': "builtins.tuple: (7, 'EnumInteger', 7, '7')",
 'enum/chirp_type_designator/parse/255': "builtins.tuple: (255, 'EnumInteger', 255, '255')",
 'enum/chirp_type_designator/parse/256': "builtins.tuple: (256, 'EnumInteger', 256, '256')",
 'enum/chirp_type_designator/parse/65535': "builtins.tuple: (65535, 'EnumInteger', 65535, '65535')",
 'enum/chirp_type_designator/parse/short': 'raised construct.core.StreamError: Error in path (parsing)\n'
                                           'stream read less than specified amount, expected 2, found 1 (chained: '
                                           'False)',
 'enum/chirp_type_designator/parse/empty': 'raised construct.core.StreamError: Error in path (parsing)\n'
                                           'stream read less than specified amount, expected 2, found 0 (chained: '
                                           'False)',
 "enum/chirp_type_designator/build/EnumIntegerString.new(0, 'linear_fm_chirp')": "builtins.bytes: b'\\x00\\x00'",
 "enum/chirp_type_designator/build/EnumIntegerString.new(1, 'phase_modulators')": "builtins.bytes: b'\\x00\\x01'",
 "enum/chirp_type_designator/build/'unknown'": 'raised construct.core.MappingError: Error in path (building)\n'
                                               "building failed, no mapping for 'unknown' (chained: True)",
 "enum/chirp_type_designator/build/''": 'raised construct.core.MappingError: Error in path (building)\n'
                                        "building failed, no mapping for '' (chained: True)",
 'enum/chirp_type_designator/build/0': "builtins.bytes: b'\\x00\\x00'",
 'enum/chirp_type_designator/build/1': "builtins.bytes: b'\\x00\\x01'",
 'enum/chirp_type_designator/build/7': "builtins.bytes: b'\\x00\\x07'",
 'enum/chirp_type_designator/build/-1': 'raised construct.core.FormatFieldError: Error in path (building)\n'
                                        "struct '>H' error during building, given value -1 (chained: True)",
 'enum/chirp_type_designator/build/65536': 'raised construct.core.FormatFieldError: Error in path (building)\n'
                                           "struct '>H' error during building, given value 65536 (chained: True)",
 'enum/chirp_type_designator/build/None': 'raised construct.core.MappingError: Error in path (building)\n'
                                          'building failed, no mapping for None (chained: True)',
 'enum/chirp_type_designator/build/1.5': 'raised construct.core.MappingError: Error in path (building)\n'
                                         'building failed, no mapping for 1.5 (chained: True)',
 'enum/chirp_type_designator/attr/linear_fm_chirp': "builtins.tuple: (EnumIntegerString.new(0, 'linear_fm_chirp'), "
                                                    "'EnumIntegerString')",
 'enum/chirp_type_designator/attr/phase_modulators': "builtins.tuple: (EnumIntegerString.new(1, 'phase_modulators'), "
                                                     "'EnumIntegerString')",
 'enum/chirp_type_designator/attr/unknown': 'raised builtins.AttributeError:  (chained: False)',
 'enum/chirp_type_designator/attr/_missing': 'raised builtins.AttributeError:  (chained: False)',
 'enum/platform_position_parameters_update/type': "builtins.str: 'Enum'",
 'enum/platform_position_parameters_update/repr': "builtins.str: '<Enum <FormatField>>'",
 'enum/platform_position_parameters_update/sizeof': 'builtins.int: 4',
 'enum/platform_position_parameters_update/subcon': 'builtins.tuple: (False, True)',
 'enum/platform_position_parameters_update/encmapping': "builtins.list: [(EnumIntegerString.new(0, 'repeat'), 0), "
                                                        "(EnumIntegerString.new(1, 'update'), 1)]",
 'enum/platform_position_parameters_update/decmapping': "builtins.list: [(0, 'repeat', 'EnumIntegerString'), (1, "
                                                        "'update', 'EnumIntegerString')]",
 'enum/platform_position_parameters_update/ksymapping': "builtins.list: [(0, 'repeat'), (1, 'update')]",
 'enum/platform_position_parameters_update/parse/0': "builtins.tuple: (EnumIntegerString.new(0, 'repeat'), "
                                                     "'EnumIntegerString', 0, 'repeat')",
 'enum/platform_position_parameters_update/parse/1': "builtins.tuple: (EnumIntegerString.new(1, 'update'), "
                                                     "'EnumIntegerString', 1, 'update')",
 'enum/platform_position_parameters_update/parse/2': "builtins.tuple: (2, 'EnumInteger', 2, '2')",
 'enum/platform_position_parameters_update/parse/3': "builtins.tuple: (3, 'EnumInteger', 3, '3')",
 'enum/platform_position_parameters_update/parse/4': "builtins.tuple: (4, 'EnumInteger', 4, '4')",
 'enum/platform_position_parameters_update/parse/5': "builtins.tuple: (5, 'EnumInteger', 5, '5')",
 'enum/platform_position_parameters_update/parse/6': "builtins.tuple: (6, 'EnumInteger', 6, '6')",
 'enum/platform_position_parameters_update/parse/7': "builtins.tuple: (7, 'EnumInteger', 7, '7')",
 'enum/platform_position_parameters_update/parse/255': "builtins.tuple: (255, 'EnumInteger', 255, '255')",
 'enum/platform_position_parameters_update/parse/256': "builtins.tuple: (256, 'EnumInteger', 256, '256')",
 'enum/platform_position_parameters_update/parse/4294967295': "builtins.tuple: (4294967295, 'EnumInteger', 4294967295, "
                                                              "'4294967295')",
 'enum/platform_position_parameters_update/parse/short': 'raised construct.core.StreamError: Error in path (parsing)\n'
                                                         'stream read less than specified amount, expected 4, found 1 '
                                                         '(chained: False)',
 'enum/platform_position_parameters_update/parse/empty': 'raised construct.core.StreamError: Error in path (parsing)\n'
                                                         'stream read less than specified amount, expected 4, found 0 '
                                                         '(chained: False)',
 "enum/platform_position_parameters_update/build/EnumIntegerString.new(0, 'repeat')": 'builtins.bytes: '
                                                                                      "b'\\x00\\x00\\x00\\x00'",
 "enum/platform_position_parameters_update/build/EnumIntegerString.new(1, 'update')": 'builtins.bytes: '
                                                                                      "b'\\x00\\x00\\x00\\x01'",
 "enum/platform_position_parameters_update/build/'unknown'": 'raised construct.core.MappingError: Error in path '
                                                             '(building)\n'
                                                             "building failed, no mapping for 'unknown' (chained: "
                                                             'True)',
 "enum/platform_position_parameters_update/build/''": 'raised construct.core.MappingError: Error in path (building)\n'
                                                      "building failed, no mapping for '' (chained: True)",
 'enum/platform_position_parameters_update/build/0': "builtins.bytes: b'\\x00\\x00\\x00\\x00'",
 'enum/platform_position_parameters_update/build/1': "builtins.bytes: b'\\x00\\x00\\x00\\x01'",
 'enum/platform_position_parameters_update/build/7': "builtins.bytes: b'\\x00\\x00\\x00\\x07'",
 'enum/platform_position_parameters_update/build/-1': 'raised construct.core.FormatFieldError: Error in path '
                                                      '(building)\n'
                                                      "struct '>L' error during building, given value -1 (chained: "
                                                      'True)',
 'enum/platform_position_parameters_update/build/4294967296': 'raised construct.core.FormatFieldError: Error in path '
                                                              '(building)\n'
                                                              "struct '>L' error during building, given value "
                                                              '4294967296 (chained: True)',
 'enum/platform_position_parameters_update/build/None': 'raised construct.core.MappingError: Error in path (building)\n'
                                                        'building failed, no mapping for None (chained: True)',
 'enum/platform_position_parameters_update/build/1.5': 'raised construct.core.MappingError: Error in path (building)\n'
                                                       'building failed, no mapping for 1.5 (chained: True)',
 'enum/platform_position_parameters_update/attr/repeat': "builtins.tuple: (EnumIntegerString.new(0, 'repeat'), "
                                                         "'EnumIntegerString')",
 'enum/platform_position_parameters_update/attr/update': "builtins.tuple: (EnumIntegerString.new(1, 'update'), "
                                                         "'EnumIntegerString')",
 'enum/platform_position_parameters_update/attr/unknown': 'raised builtins.AttributeError:  (chained: False)',
 'enum/platform_position_parameters_update/attr/_missing': 'raised builtins.AttributeError:  (chained: False)',
 'enum/shared-in-records': "builtins.list: ['sar_channel_id', 'sar_channel_code', 'transmitted_pulse_polarization', "
                           "'received_pulse_polarization', 'chirp_type_designator', "
                           "'platform_position_parameters_update_flag']",
 'enum/distinct': 'builtins.int: 5',
 'ydms/(2020, 1, 0)': 'datetime.datetime: datetime.datetime(2020, 1, 1, 0, 0)',
 'ydms/(2020, 60, 1)': 'datetime.datetime: datetime.datetime(2020, 2, 29, 0, 0, 0, 1000)',
 'ydms/(2020, 366, 86399999)': 'datetime.datetime: datetime.datetime(2020, 12, 31, 23, 59, 59, 999000)',
 'ydms/(2019, 365, 86399999)': 'datetime.datetime: datetime.datetime(2019, 12, 31, 23, 59, 59, 999000)',
 'ydms/(2019, 366, 0)': 'datetime.datetime: datetime.datetime(2020, 1, 1, 0, 0)',
 'ydms/(2014, 200, 12345678)': 'datetime.datetime: datetime.datetime(2014, 7, 19, 3, 25, 45, 678000)',
 'ydms/(1, 1, 0)': 'datetime.datetime: datetime.datetime(1, 1, 1, 0, 0)',
 'ydms/(1, 0, 0)': 'raised builtins.OverflowError: date value out of range (chained: False)',
 'ydms/(0, 1, 0)': 'raised builtins.ValueError: year 0 is out of range (chained: False)',
 'ydms/(0, 0, 0)': 'raised builtins.ValueError: year 0 is out of range (chained: False)',
 'ydms/(9999, 365, 86399999)': 'datetime.datetime: datetime.datetime(9999, 12, 31, 23, 59, 59, 999000)',
 'ydms/(9999, 366, 0)': 'raised builtins.OverflowError: date value out of range (chained: False)',
 'ydms/(10000, 1, 0)': 'raised builtins.ValueError: year 10000 is out of range (chained: False)',
 'ydms/(4294967295, 1, 0)': 'raised builtins.OverflowError: signed integer is greater than maximum (chained: False)',
 'ydms/(2020, 0, 0)': 'datetime.datetime: datetime.datetime(2019, 12, 31, 0, 0)',
 'ydms/(2020, 1, 4294967295)': 'datetime.datetime: datetime.datetime(2020, 2, 19, 17, 2, 47, 295000)',
 'ydms/(2020, 4294967295, 0)': 'raised builtins.OverflowError: Python int too large to convert to C int (chained: '
                               'False)',
 'ydms/(2020, 2147483648, 2147483648)': 'raised builtins.OverflowError: Python int too large to convert to C int '
                                        '(chained: False)',
 'ydms/sizeof': 'builtins.int: 12',
 'ydms/build': 'raised builtins.NotImplementedError:  (chained: False)',
 'ydms/short': 'raised construct.core.StreamError: Error in path (parsing) -> milliseconds\n'
               'stream read less than specified amount, expected 4, found 0 (chained: False)',
 'ydms/subcon': 'builtins.bool: True',
 'ydms/missing/0/2020': "raised builtins.KeyError: 'milliseconds' (chained: False)",
 'ydms/missing/0/0': 'raised builtins.ValueError: year 0 is out of range (chained: False)',
 'ydms/missing/1/2020': "raised builtins.KeyError: 'day_of_year' (chained: False)",
 'ydms/missing/1/0': 'raised builtins.ValueError: year 0 is out of range (chained: False)',
 'ydms/missing/2/2020': "raised builtins.KeyError: 'year' (chained: False)",
 'ydms/missing/2/0': "raised builtins.KeyError: 'year' (chained: False)",
 'ydms/missing/3/2020': "raised builtins.KeyError: 'day_of_year' (chained: False)",
 'ydms/missing/3/0': 'raised builtins.ValueError: year 0 is out of range (chained: False)',
 'ydms/missing/4/2020': "raised builtins.KeyError: 'year' (chained: False)",
 'ydms/missing/4/0': "raised builtins.KeyError: 'year' (chained: False)",
 'ydms/float-year': "raised builtins.TypeError: 'float' object cannot be interpreted as an integer (chained: False)",
 'ydms/float-rest': 'datetime.datetime: datetime.datetime(2020, 1, 2, 12, 0, 0, 1500)',
 'ydms/bytes-day': "raised builtins.TypeError: unsupported operand type(s) for -: 'bytes' and 'int' (chained: False)",
 'ydms/bytes-ms': 'raised builtins.TypeError: unsupported type for timedelta milliseconds component: bytes (chained: '
                  'False)',
 'ydms/not-a-mapping': "raised builtins.TypeError: 'int' object is not subscriptable (chained: False)",
 'ydms/computed': 'datetime.datetime: datetime.datetime(2001, 1, 2, 0, 0, 0, 3000)',
 'ydms/names': 'builtins.list: [True, True, True, True]',
 'ydus/const/0/0': 'datetime.datetime: datetime.datetime(2020, 10, 1, 0, 0)',
 'ydus/lambda/0/0': 'datetime.datetime: datetime.datetime(2020, 10, 1, 0, 0)',
 'ydus/const/0/1': 'datetime.datetime: datetime.datetime(2020, 10, 1, 0, 0, 0, 1)',
 'ydus/lambda/0/1': 'datetime.datetime: datetime.datetime(2020, 10, 1, 0, 0, 0, 1)',
 'ydus/const/0/999999': 'datetime.datetime: datetime.datetime(2020, 10, 1, 0, 0, 0, 999999)',
 'ydus/lambda/0/999999': 'datetime.datetime: datetime.datetime(2020, 10, 1, 0, 0, 0, 999999)',
 'ydus/const/0/86399999999': 'datetime.datetime: datetime.datetime(2020, 10, 1, 23, 59, 59, 999999)',
 'ydus/lambda/0/86399999999': 'datetime.datetime: datetime.datetime(2020, 10, 1, 23, 59, 59, 999999)',
 'ydus/const/0/86400000000': 'datetime.datetime: datetime.datetime(2020, 10, 2, 0, 0)',
 'ydus/lambda/0/86400000000': 'datetime.datetime: datetime.datetime(2020, 10, 2, 0, 0)',
 'ydus/const/0/45015000250': 'datetime.datetime: datetime.datetime(2020, 10, 1, 12, 30, 15, 250)',
 'ydus/lambda/0/45015000250': 'datetime.datetime: datetime.datetime(2020, 10, 1, 12, 30, 15, 250)',
 'ydus/const/0/9223372036854775808': 'raised builtins.OverflowError: date value out of range (chained: False)',
 'ydus/lambda/0/9223372036854775808': 'raised builtins.OverflowError: date value out of range (chained: False)',
 'ydus/const/0/18446744073709551615': 'raised builtins.OverflowError: date value out of range (chained: False)',
 'ydus/lambda/0/18446744073709551615': 'raised builtins.OverflowError: date value out of range (chained: False)',
 'ydus/bytes-base/0': 'raised builtins.TypeError: unsupported type for timedelta microseconds component: bytes '
                      '(chained: False)',
 'ydus/float-base/0': 'datetime.datetime: datetime.datetime(2020, 10, 1, 0, 0, 0, 2)',
 'ydus/const/1/0': 'datetime.datetime: datetime.datetime(2020, 10, 1, 0, 0)',
 'ydus/lambda/1/0': 'datetime.datetime: datetime.datetime(2020, 10, 1, 0, 0)',
 'ydus/const/1/1': 'datetime.datetime: datetime.datetime(2020, 10, 1, 0, 0, 0, 1)',
 'ydus/lambda/1/1': 'datetime.datetime: datetime.datetime(2020, 10, 1, 0, 0, 0, 1)',
 'ydus/const/1/999999': 'datetime.datetime: datetime.datetime(2020, 10, 1, 0, 0, 0, 999999)',
 'ydus/lambda/1/999999': 'datetime.datetime: datetime.datetime(2020, 10, 1, 0, 0, 0, 999999)',
 'ydus/const/1/86399999999': 'datetime.datetime: datetime.datetime(2020, 10, 1, 23, 59, 59, 999999)',
 'ydus/lambda/1/86399999999': 'datetime.datetime: datetime.datetime(2020, 10, 1, 23, 59, 59, 999999)',
 'ydus/const/1/86400000000': 'datetime.datetime: datetime.datetime(2020, 10, 2, 0, 0)',
 'ydus/lambda/1/86400000000': 'datetime.datetime: datetime.datetime(2020, 10, 2, 0, 0)',
 'ydus/const/1/45015000250': 'datetime.datetime: datetime.datetime(2020, 10, 1, 12, 30, 15, 250)',
 'ydus/lambda/1/45015000250': 'datetime.datetime: datetime.datetime(2020, 10, 1, 12, 30, 15, 250)',
 'ydus/const/1/9223372036854775808': 'raised builtins.OverflowError: date value out of range (chained: False)',
 'ydus/lambda/1/9223372036854775808': 'raised builtins.OverflowError: date value out of range (chained: False)',
 'ydus/const/1/18446744073709551615': 'raised builtins.OverflowError: date value out of range (chained: False)',
 'ydus/lambda/1/18446744073709551615': 'raised builtins.OverflowError: date value out of range (chained: False)',
 'ydus/bytes-base/1': 'raised builtins.TypeError: unsupported type for timedelta microseconds component: bytes '
                      '(chained: False)',
 'ydus/float-base/1': 'datetime.datetime: datetime.datetime(2020, 10, 1, 0, 0, 0, 2)',
 'ydus/const/2/0': 'datetime.datetime: datetime.datetime(2020, 2, 29, 0, 0)',
 'ydus/lambda/2/0': 'datetime.datetime: datetime.datetime(2020, 2, 29, 0, 0)',
 'ydus/const/2/1': 'datetime.datetime: datetime.datetime(2020, 2, 29, 0, 0, 0, 1)',
 'ydus/lambda/2/1': 'datetime.datetime: datetime.datetime(2020, 2, 29, 0, 0, 0, 1)',
 'ydus/const/2/999999': 'datetime.datetime: datetime.datetime(2020, 2, 29, 0, 0, 0, 999999)',
 'ydus/lambda/2/999999': 'datetime.datetime: datetime.datetime(2020, 2, 29, 0, 0, 0, 999999)',
 'ydus/const/2/86399999999': 'datetime.datetime: datetime.datetime(2020, 2, 29, 23, 59, 59, 999999)',
 'ydus/lambda/2/86399999999': 'datetime.datetime: datetime.datetime(2020, 2, 29, 23, 59, 59, 999999)',
 'ydus/const/2/86400000000': 'datetime.datetime: datetime.datetime(2020, 3, 1, 0, 0)',
 'ydus/lambda/2/86400000000': 'datetime.datetime: datetime.datetime(2020, 3, 1, 0, 0)',
 'ydus/const/2/45015000250': 'datetime.datetime: datetime.datetime(2020, 2, 29, 12, 30, 15, 250)',
 'ydus/lambda/2/45015000250': 'datetime.datetime: datetime.datetime(2020, 2, 29, 12, 30, 15, 250)',
 'ydus/const/2/9223372036854775808': 'raised builtins.OverflowError: date value out of range (chained: False)',
 'ydus/lambda/2/9223372036854775808': 'raised builtins.OverflowError: date value out of range (chained: False)',
 'ydus/const/2/18446744073709551615': 'raised builtins.OverflowError: date value out of range (chained: False)',
 'ydus/lambda/2/18446744073709551615': 'raised builtins.OverflowError: date value out of range (chained: False)',
 'ydus/bytes-base/2': 'raised builtins.TypeError: unsupported type for timedelta microseconds component: bytes '
                      '(chained: False)',
 'ydus/float-base/2': 'datetime.datetime: datetime.datetime(2020, 2, 29, 0, 0, 0, 2)',
 'ydus/const/3/0': 'datetime.datetime: datetime.datetime(1, 1, 1, 0, 0)',
 'ydus/lambda/3/0': 'datetime.datetime: datetime.datetime(1, 1, 1, 0, 0)',
 'ydus/const/3/1': 'datetime.datetime: datetime.datetime(1, 1, 1, 0, 0, 0, 1)',
 'ydus/lambda/3/1': 'datetime.datetime: datetime.datetime(1, 1, 1, 0, 0, 0, 1)',
 'ydus/const/3/999999': 'datetime.datetime: datetime.datetime(1, 1, 1, 0, 0, 0, 999999)',
 'ydus/lambda/3/999999': 'datetime.datetime: datetime.datetime(1, 1, 1, 0, 0, 0, 999999)',
 'ydus/const/3/86399999999': 'datetime.datetime: datetime.datetime(1, 1, 1, 23, 59, 59, 999999)',
 'ydus/lambda/3/86399999999': 'datetime.datetime: datetime.datetime(1, 1, 1, 23, 59, 59, 999999)',
 'ydus/const/3/86400000000': 'datetime.datetime: datetime.datetime(1, 1, 2, 0, 0)',
 'ydus/lambda/3/86400000000': 'datetime.datetime: datetime.datetime(1, 1, 2, 0, 0)',
 'ydus/const/3/45015000250': 'datetime.datetime: datetime.datetime(1, 1, 1, 12, 30, 15, 250)',
 'ydus/lambda/3/45015000250': 'datetime.datetime: datetime.datetime(1, 1, 1, 12, 30, 15, 250)',
 'ydus/const/3/9223372036854775808': 'raised builtins.OverflowError: date value out of range (chained: False)',
 'ydus/lambda/3/9223372036854775808': 'raised builtins.OverflowError: date value out of range (chained: False)',
 'ydus/const/3/18446744073709551615': 'raised builtins.OverflowError: date value out of range (chained: False)',
 'ydus/lambda/3/18446744073709551615': 'raised builtins.OverflowError: date value out of range (chained: False)',
 'ydus/bytes-base/3': 'raised builtins.TypeError: unsupported type for timedelta microseconds component: bytes '
                      '(chained: False)',
 'ydus/float-base/3': 'datetime.datetime: datetime.datetime(1, 1, 1, 0, 0, 0, 2)',
 'ydus/const/4/0': 'datetime.datetime: datetime.datetime(9999, 12, 31, 0, 0)',
 'ydus/lambda/4/0': 'datetime.datetime: datetime.datetime(9999, 12, 31, 0, 0)',
 'ydus/const/4/1': 'datetime.datetime: datetime.datetime(9999, 12, 31, 0, 0, 0, 1)',
 'ydus/lambda/4/1': 'datetime.datetime: datetime.datetime(9999, 12, 31, 0, 0, 0, 1)',
 'ydus/const/4/999999': 'datetime.datetime: datetime.datetime(9999, 12, 31, 0, 0, 0, 999999)',
 'ydus/lambda/4/999999': 'datetime.datetime: datetime.datetime(9999, 12, 31, 0, 0, 0, 999999)',
 'ydus/const/4/86399999999': 'datetime.datetime: datetime.datetime(9999, 12, 31, 23, 59, 59, 999999)',
 'ydus/lambda/4/86399999999': 'datetime.datetime: datetime.datetime(9999, 12, 31, 23, 59, 59, 999999)',
 'ydus/const/4/86400000000': 'raised builtins.OverflowError: date value out of range (chained: False)',
 'ydus/lambda/4/86400000000': 'raised builtins.OverflowError: date value out of range (chained: False)',
 'ydus/const/4/45015000250': 'datetime.datetime: datetime.datetime(9999, 12, 31, 12, 30, 15, 250)',
 'ydus/lambda/4/45015000250': 'datetime.datetime: datetime.datetime(9999, 12, 31, 12, 30, 15, 250)',
 'ydus/const/4/9223372036854775808': 'raised builtins.OverflowError: date value out of range (chained: False)',
 'ydus/lambda/4/9223372036854775808': 'raised builtins.OverflowError: date value out of range (chained: False)',
 'ydus/const/4/18446744073709551615': 'raised builtins.OverflowError: date value out of range (chained: False)',
 'ydus/lambda/4/18446744073709551615': 'raised builtins.OverflowError: date value out of range (chained: False)',
 'ydus/bytes-base/4': 'raised builtins.TypeError: unsupported type for timedelta microseconds component: bytes '
                      '(chained: False)',
 'ydus/float-base/4': 'datetime.datetime: datetime.datetime(9999, 12, 31, 0, 0, 0, 2)',
 'ydus/const/5/0': 'datetime.datetime: datetime.datetime(2020, 10, 1, 0, 0)',
 'ydus/lambda/5/0': 'datetime.datetime: datetime.datetime(2020, 10, 1, 0, 0)',
 'ydus/const/5/1': 'datetime.datetime: datetime.datetime(2020, 10, 1, 0, 0, 0, 1)',
 'ydus/lambda/5/1': 'datetime.datetime: datetime.datetime(2020, 10, 1, 0, 0, 0, 1)',
 'ydus/const/5/999999': 'datetime.datetime: datetime.datetime(2020, 10, 1, 0, 0, 0, 999999)',
 'ydus/lambda/5/999999': 'datetime.datetime: datetime.datetime(2020, 10, 1, 0, 0, 0, 999999)',
 'ydus/const/5/86399999999': 'datetime.datetime: datetime.datetime(2020, 10, 1, 23, 59, 59, 999999)',
 'ydus/lambda/5/86399999999': 'datetime.datetime: datetime.datetime(2020, 10, 1, 23, 59, 59, 999999)',
 'ydus/const/5/86400000000': 'datetime.datetime: datetime.datetime(2020, 10, 2, 0, 0)',
 'ydus/lambda/5/86400000000': 'datetime.datetime: datetime.datetime(2020, 10, 2, 0, 0)',
 'ydus/const/5/45015000250': 'datetime.datetime: datetime.datetime(2020, 10, 1, 12, 30, 15, 250)',
 'ydus/lambda/5/45015000250': 'datetime.datetime: datetime.datetime(2020, 10, 1, 12, 30, 15, 250)',
 'ydus/const/5/9223372036854775808': 'raised builtins.OverflowError: date value out of range (chained: False)',
 'ydus/lambda/5/9223372036854775808': 'raised builtins.OverflowError: date value out of range (chained: False)',
 'ydus/const/5/18446744073709551615': 'raised builtins.OverflowError: date value out of range (chained: False)',
 'ydus/lambda/5/18446744073709551615': 'raised builtins.OverflowError: date value out of range (chained: False)',
 'ydus/bytes-base/5': 'raised builtins.TypeError: unsupported type for timedelta microseconds component: bytes '
                      '(chained: False)',
 'ydus/float-base/5': 'datetime.datetime: datetime.datetime(2020, 10, 1, 0, 0, 0, 2)',
 'ydus/const/6/0': 'datetime.datetime: datetime.datetime(2020, 10, 1, 0, 0)',
 'ydus/lambda/6/0': 'datetime.datetime: datetime.datetime(2020, 10, 1, 0, 0)',
 'ydus/const/6/1': 'datetime.datetime: datetime.datetime(2020, 10, 1, 0, 0, 0, 1)',
 'ydus/lambda/6/1': 'datetime.datetime: datetime.datetime(2020, 10, 1, 0, 0, 0, 1)',
 'ydus/const/6/999999': 'datetime.datetime: datetime.datetime(2020, 10, 1, 0, 0, 0, 999999)',
 'ydus/lambda/6/999999': 'datetime.datetime: datetime.datetime(2020, 10, 1, 0, 0, 0, 999999)',
 'ydus/const/6/86399999999': 'datetime.datetime: datetime.datetime(2020, 10, 1, 23, 59, 59, 999999)',
 'ydus/lambda/6/86399999999': 'datetime.datetime: datetime.datetime(2020, 10, 1, 23, 59, 59, 999999)',
 'ydus/const/6/86400000000': 'datetime.datetime: datetime.datetime(2020, 10, 2, 0, 0)',
 'ydus/lambda/6/86400000000': 'datetime.datetime: datetime.datetime(2020, 10, 2, 0, 0)',
 'ydus/const/6/45015000250': 'datetime.datetime: datetime.datetime(2020, 10, 1, 12, 30, 15, 250)',
 'ydus/lambda/6/45015000250': 'datetime.datetime: datetime.datetime(2020, 10, 1, 12, 30, 15, 250)',
 'ydus/const/6/9223372036854775808': 'raised builtins.OverflowError: date value out of range (chained: False)',
 'ydus/lambda/6/9223372036854775808': 'raised builtins.OverflowError: date value out of range (chained: False)',
 'ydus/const/6/18446744073709551615': 'raised builtins.OverflowError: date value out of range (chained: False)',
 'ydus/lambda/6/18446744073709551615': 'raised builtins.OverflowError: date value out of range (chained: False)',
 'ydus/bytes-base/6': 'raised builtins.TypeError: unsupported type for timedelta microseconds component: bytes '
                      '(chained: False)',
 'ydus/float-base/6': 'datetime.datetime: datetime.datetime(2020, 10, 1, 0, 0, 0, 2)',
 'ydus/const/7/0': "raised builtins.AttributeError: 'datetime.date' object has no attribute 'date' (chained: False)",
 'ydus/lambda/7/0': "raised builtins.AttributeError: 'datetime.date' object has no attribute 'date' (chained: False)",
 'ydus/const/7/1': "raised builtins.AttributeError: 'datetime.date' object has no attribute 'date' (chained: False)",
 'ydus/lambda/7/1': "raised builtins.AttributeError: 'datetime.date' object has no attribute 'date' (chained: False)",
 'ydus/const/7/999999': "raised builtins.AttributeError: 'datetime.date' object has no attribute 'date' (chained: "
                        'False)',
 'ydus/lambda/7/999999': "raised builtins.AttributeError: 'datetime.date' object has no attribute 'date' (chained: "
                         'False)',
 'ydus/const/7/86399999999': "raised builtins.AttributeError: 'datetime.date' object has no attribute 'date' (chained: "
                             'False)',
 'ydus/lambda/7/86399999999': "raised builtins.AttributeError: 'datetime.date' object has no attribute 'date' "
                              '(chained: False)',
 'ydus/const/7/86400000000': "raised builtins.AttributeError: 'datetime.date' object has no attribute 'date' (chained: "
                             'False)',
 'ydus/lambda/7/86400000000': "raised builtins.AttributeError: 'datetime.date' object has no attribute 'date' "
                              '(chained: False)',
 'ydus/const/7/45015000250': "raised builtins.AttributeError: 'datetime.date' object has no attribute 'date' (chained: "
                             'False)',
 'ydus/lambda/7/45015000250': "raised builtins.AttributeError: 'datetime.date' object has no attribute 'date' "
                              '(chained: False)',
 'ydus/const/7/9223372036854775808': "raised builtins.AttributeError: 'datetime.date' object has no attribute 'date' "
                                     '(chained: False)',
 'ydus/lambda/7/9223372036854775808': "raised builtins.AttributeError: 'datetime.date' object has no attribute 'date' "
                                      '(chained: False)',
 'ydus/const/7/18446744073709551615': "raised builtins.AttributeError: 'datetime.date' object has no attribute 'date' "
                                      '(chained: False)',
 'ydus/lambda/7/18446744073709551615': "raised builtins.AttributeError: 'datetime.date' object has no attribute 'date' "
                                       '(chained: False)',
 'ydus/bytes-base/7': "raised builtins.AttributeError: 'datetime.date' object has no attribute 'date' (chained: False)",
 'ydus/float-base/7': "raised builtins.AttributeError: 'datetime.date' object has no attribute 'date' (chained: False)",
 'ydus/const/8/0': "raised builtins.AttributeError: 'NoneType' object has no attribute 'date' (chained: False)",
 'ydus/lambda/8/0': "raised builtins.AttributeError: 'NoneType' object has no attribute 'date' (chained: False)",
 'ydus/const/8/1': "raised builtins.AttributeError: 'NoneType' object has no attribute 'date' (chained: False)",
 'ydus/lambda/8/1': "raised builtins.AttributeError: 'NoneType' object has no attribute 'date' (chained: False)",
 'ydus/const/8/999999': "raised builtins.AttributeError: 'NoneType' object has no attribute 'date' (chained: False)",
 'ydus/lambda/8/999999': "raised builtins.AttributeError: 'NoneType' object has no attribute 'date' (chained: False)",
 'ydus/const/8/86399999999': "raised builtins.AttributeError: 'NoneType' object has no attribute 'date' (chained: "
                             'False)',
 'ydus/lambda/8/86399999999': "raised builtins.AttributeError: 'NoneType' object has no attribute 'date' (chained: "
                              'False)',
 'ydus/const/8/86400000000': "raised builtins.AttributeError: 'NoneType' object has no attribute 'date' (chained: "
                             'False)',
 'ydus/lambda/8/86400000000': "raised builtins.AttributeError: 'NoneType' object has no attribute 'date' (chained: "
                              'False)',
 'ydus/const/8/45015000250': "raised builtins.AttributeError: 'NoneType' object has no attribute 'date' (chained: "
                             'False)',
 'ydus/lambda/8/45015000250': "raised builtins.AttributeError: 'NoneType' object has no attribute 'date' (chained: "
                              'False)',
 'ydus/const/8/9223372036854775808': "raised builtins.AttributeError: 'NoneType' object has no attribute 'date' "
                                     '(chained: False)',
 'ydus/lambda/8/9223372036854775808': "raised builtins.AttributeError: 'NoneType' object has no attribute 'date' "
                                      '(chained: False)',
 'ydus/const/8/18446744073709551615': "raised builtins.AttributeError: 'NoneType' object has no attribute 'date' "
                                      '(chained: False)',
 'ydus/lambda/8/18446744073709551615': "raised builtins.AttributeError: 'NoneType' object has no attribute 'date' "
                                       '(chained: False)',
 'ydus/bytes-base/8': "raised builtins.AttributeError: 'NoneType' object has no attribute 'date' (chained: False)",
 'ydus/float-base/8': "raised builtins.AttributeError: 'NoneType' object has no attribute 'date' (chained: False)",
 'ydus/const/9/0': "raised builtins.AttributeError: 'str' object has no attribute 'date' (chained: False)",
 'ydus/lambda/9/0': "raised builtins.AttributeError: 'str' object has no attribute 'date' (chained: False)",
 'ydus/const/9/1': "raised builtins.AttributeError: 'str' object has no attribute 'date' (chained: False)",
 'ydus/lambda/9/1': "raised builtins.AttributeError: 'str' object has no attribute 'date' (chained: False)",
 'ydus/const/9/999999': "raised builtins.AttributeError: 'str' object has no attribute 'date' (chained: False)",
 'ydus/lambda/9/999999': "raised builtins.AttributeError: 'str' object has no attribute 'date' (chained: False)",
 'ydus/const/9/86399999999': "raised builtins.AttributeError: 'str' object has no attribute 'date' (chained: False)",
 'ydus/lambda/9/86399999999': "raised builtins.AttributeError: 'str' object has no attribute 'date' (chained: False)",
 'ydus/const/9/86400000000': "raised builtins.AttributeError: 'str' object has no attribute 'date' (chained: False)",
 'ydus/lambda/9/86400000000': "raised builtins.AttributeError: 'str' object has no attribute 'date' (chained: False)",
 'ydus/const/9/45015000250': "raised builtins.AttributeError: 'str' object has no attribute 'date' (chained: False)",
 'ydus/lambda/9/45015000250': "raised builtins.AttributeError: 'str' object has no attribute 'date' (chained: False)",
 'ydus/const/9/9223372036854775808': "raised builtins.AttributeError: 'str' object has no attribute 'date' (chained: "
                                     'False)',
 'ydus/lambda/9/9223372036854775808': "raised builtins.AttributeError: 'str' object has no attribute 'date' (chained: "
                                      'False)',
 'ydus/const/9/18446744073709551615': "raised builtins.AttributeError: 'str' object has no attribute 'date' (chained: "
                                      'False)',
 'ydus/lambda/9/18446744073709551615': "raised builtins.AttributeError: 'str' object has no attribute 'date' (chained: "
                                       'False)',
 'ydus/bytes-base/9': "raised builtins.AttributeError: 'str' object has no attribute 'date' (chained: False)",
 'ydus/float-base/9': "raised builtins.AttributeError: 'str' object has no attribute 'date' (chained: False)",
 'ydus/const/10/0': "raised builtins.AttributeError: 'int' object has no attribute 'date' (chained: False)",
 'ydus/lambda/10/0': "raised builtins.AttributeError: 'int' object has no attribute 'date' (chained: False)",
 'ydus/const/10/1': "raised builtins.AttributeError: 'int' object has no attribute 'date' (chained: False)",
 'ydus/lambda/10/1': "raised builtins.AttributeError: 'int' object has no attribute 'date' (chained: False)",
 'ydus/const/10/999999': "raised builtins.AttributeError: 'int' object has no attribute 'date' (chained: False)",
 'ydus/lambda/10/999999': "raised builtins.AttributeError: 'int' object has no attribute 'date' (chained: False)",
 'ydus/const/10/86399999999': "raised builtins.AttributeError: 'int' object has no attribute 'date' (chained: False)",
 'ydus/lambda/10/86399999999': "raised builtins.AttributeError: 'int' object has no attribute 'date' (chained: False)",
 'ydus/const/10/86400000000': "raised builtins.AttributeError: 'int' object has no attribute 'date' (chained: False)",
 'ydus/lambda/10/86400000000': "raised builtins.AttributeError: 'int' object has no attribute 'date' (chained: False)",
 'ydus/const/10/45015000250': "raised builtins.AttributeError: 'int' object has no attribute 'date' (chained: False)",
 'ydus/lambda/10/45015000250': "raised builtins.AttributeError: 'int' object has no attribute 'date' (chained: False)",
 'ydus/const/10/9223372036854775808': "raised builtins.AttributeError: 'int' object has no attribute 'date' (chained: "
                                      'False)',
 'ydus/lambda/10/9223372036854775808': "raised builtins.AttributeError: 'int' object has no attribute 'date' (chained: "
                                       'False)',
 'ydus/const/10/18446744073709551615': "raised builtins.AttributeError: 'int' object has no attribute 'date' (chained: "
                                       'False)',
 'ydus/lambda/10/18446744073709551615': "raised builtins.AttributeError: 'int' object has no attribute 'date' "
                                        '(chained: False)',
 'ydus/bytes-base/10': "raised builtins.AttributeError: 'int' object has no attribute 'date' (chained: False)",
 'ydus/float-base/10': "raised builtins.AttributeError: 'int' object has no attribute 'date' (chained: False)",
 'ydus/attr': 'datetime.datetime: datetime.datetime(2020, 1, 1, 0, 0)',
 'ydus/subcon': 'builtins.bool: True',
 'ydus/sizeof': 'builtins.int: 8',
 'ydus/build': 'raised builtins.NotImplementedError:  (chained: False)',
 'ydus/short': 'raised construct.core.StreamError: Error in path (parsing)\n'
               'stream read less than specified amount, expected 8, found 1 (chained: False)',
 'ydus/missing': 'raised builtins.TypeError: DatetimeYdus.__init__() missing 1 required positional argument: '
                 "'reference_date' (chained: False)",
 'ydus/keywords': 'datetime.datetime: datetime.datetime(2020, 5, 5, 0, 0, 0, 9)',
 'ydus/callable/value': 'construct.lib.containers.Container: Container(a=1, micro=datetime.datetime(2011, 11, 11, 0, '
                        '0, 0, 5), b=2)',
 'ydus/callable/value/again': 'construct.lib.containers.Container: Container(a=3, micro=datetime.datetime(2011, 11, '
                              '11, 0, 0, 0, 6), b=4)',
 'ydus/callable/value/short': 'raised construct.core.StreamError: Error in path (parsing) -> micro\n'
                              'stream read less than specified amount, expected 8, found 1 (chained: False)',
 'ydus/callable/value/calls': "builtins.list: [['a'], ['a']]",
 'ydus/callable/error': 'raised builtins.RuntimeError: boom (chained: False)',
 'ydus/callable/error/again': 'raised builtins.RuntimeError: boom (chained: False)',
 'ydus/callable/error/short': 'raised construct.core.StreamError: Error in path (parsing) -> micro\n'
                              'stream read less than specified amount, expected 8, found 1 (chained: False)',
 'ydus/callable/error/calls': "builtins.list: [['a'], ['a']]",
 'ydus/callable/key-error': "raised builtins.KeyError: 'date' (chained: False)",
 'ydus/callable/key-error/again': "raised builtins.KeyError: 'date' (chained: False)",
 'ydus/callable/key-error/short': 'raised construct.core.StreamError: Error in path (parsing) -> micro\n'
                                  'stream read less than specified amount, expected 8, found 1 (chained: False)',
 'ydus/callable/key-error/calls': "builtins.list: [['a'], ['a']]",
 'ydus/callable/none': "raised builtins.AttributeError: 'NoneType' object has no attribute 'date' (chained: False)",
 'ydus/callable/none/again': "raised builtins.AttributeError: 'NoneType' object has no attribute 'date' (chained: "
                             'False)',
 'ydus/callable/none/short': 'raised construct.core.StreamError: Error in path (parsing) -> micro\n'
                             'stream read less than specified amount, expected 8, found 1 (chained: False)',
 'ydus/callable/none/calls': "builtins.list: [['a'], ['a']]",
 'ydus/callable-class': "raised builtins.TypeError: 'Container' object cannot be interpreted as an integer (chained: "
                        'False)',
 'ydus/callable-builtin': "raised builtins.AttributeError: 'int' object has no attribute 'date' (chained: False)",
 'ydus/this/(2020, 32, 3600000)/3600000123': 'construct.lib.containers.Container: '
                                             'Container(date=datetime.datetime(2020, 2, 1, 1, 0), '
                                             'micro=datetime.datetime(2020, 2, 1, 1, 0, 0, 123))',
 'ydus/this/(2020, 366, 86399999)/86399999999': 'construct.lib.containers.Container: '
                                                'Container(date=datetime.datetime(2020, 12, 31, 23, 59, 59, 999000), '
                                                'micro=datetime.datetime(2020, 12, 31, 23, 59, 59, 999999))',
 'ydus/this/(9999, 365, 0)/86400000000': 'raised builtins.OverflowError: date value out of range (chained: False)',
 'ydus/this/(0, 1, 0)/1': 'raised builtins.ValueError: year 0 is out of range (chained: False)',
 'ydus/this/(2020, 1, 0)/18446744073709551615': 'raised builtins.OverflowError: date value out of range (chained: '
                                                'False)',
 'ydus/this/sizeof': 'builtins.int: 20',
 'ydus/this/missing': "raised builtins.KeyError: 'date' (chained: False)",
 'ydus/this/missing/short': 'raised construct.core.StreamError: Error in path (parsing) -> micro\n'
                            'stream read less than specified amount, expected 8, found 4 (chained: False)',
 'ydus/this/nested': 'construct.lib.containers.Container: Container(date=datetime.datetime(2015, 4, 10, 0, 0), '
                     'inner=Container(micro=datetime.datetime(2015, 4, 10, 0, 0, 1, 500000)))'}  # @@EXPECTED@@


def test_equivalence():
    actual = collect()
    assert sorted(actual) == sorted(EXPECTED)
    mismatches = {k: (actual[k], EXPECTED[k]) for k in EXPECTED if actual[k] != EXPECTED[k]}
    assert not mismatches, pprint.pformat(mismatches, width=160)


if __name__ == "__main__":
    if "--record" in sys.argv:
        pprint.pprint(collect(), width=120, sort_dicts=False)
    else:
        test_equivalence()
        print(f"ok: {len(EXPECTED)} observations identical")
