"""Equivalence checks for refactoring 2 (ceos_alos2/testing.py).

EXPECTED was recorded from the unchanged code with `equiv.py --record`.
Run: PYTHONPATH=/tmp/wt13/e108 /venv/bin/python _eq/2/equiv.py
"""
import sys

import fsspec
import numpy as np

from ceos_alos2 import testing
from ceos_alos2.array import Array
from ceos_alos2.hierarchy import Group, Variable


def arr(*, protocol="memory", byte_ranges=None, path="/path/to", url="file", shape=(4, 3),
        dtype="int16", records_per_chunk=2, type_code="IU2"):
    if byte_ranges is None:
        byte_ranges = [(x * 10 + 5, (x + 1) * 10) for x in range(shape[0])]
    fs = fsspec.filesystem(protocol)
    dirfs = fsspec.filesystem("dir", path=path, fs=fs)
    return Array(fs=dirfs, url=url, byte_ranges=byte_ranges, shape=shape, dtype=dtype,
                 type_code=type_code, records_per_chunk=records_per_chunk)


def outcome(f, *args, **kwargs):
    try:
        r = f(*args, **kwargs)
    except BaseException as e:  # noqa: BLE001
        cause = e.__cause__
        return ("err", type(e).__name__, str(e), type(cause).__name__ if cause is not None else None)
    if isinstance(r, (np.bool_, np.ndarray)):
        return ("ok", type(r).__name__, repr(r))
    return ("ok", type(r).__name__, r)


class Decoupling:
    """group-like object recording decouple calls (order of evaluation in diff_tree)"""

    log = []

    def __init__(self, path, children=(), fail=False):
        self.path = path
        self.children = children
        self.fail = fail
        self.url = None
        self.variables = {}
        self.attrs = {}

    def decouple(self):
        Decoupling.log.append(self.path)
        if self.fail:
            raise RuntimeError(f"cannot decouple {self.path}")
        return self

    @property
    def subtree(self):
        yield self.path, self
        for c in self.children:
            yield from c.subtree

    def __eq__(self, other):
        return self.path == other.path


v_i8 = Variable("x", np.array([0, 1], dtype="int8"), {})
v_i8_attrs = Variable("x", np.array([0, 1], dtype="int8"), {"a": 1, "b": "b"})
v_i8_other = Variable("x", np.array([0, 2], dtype="int8"), {"a": 2, "c": 1})
v_2d = Variable(["x", "y"], np.arange(6, dtype="int32").reshape(2, 3), {"u": "m"})
v_2d_t = Variable(["y", "x"], np.arange(6, dtype="int32").reshape(3, 2), {"u": "m"})
v_long = Variable("t", np.arange(20, dtype="float64"), {})
v_arr = Variable(["rows", "cols"], arr(), {"n": 1})
v_arr2 = Variable(["rows", "cols"], arr(url="file2", records_per_chunk=3), {"n": 1})
v_time = Variable("t", np.array(["2020-01-01", "2020-01-02"], dtype="datetime64[s]"), {})


def make_cases():
    cases = {}

    # dict_overlap
    dicts = [{}, {"a": 1}, {"b": 1}, {"a": 1, "b": 2}, {"c": 3, "a": 0}, {"a": 1, "b": 1, "c": 1, "d": 1}]
    for i, a in enumerate(dicts):
        for j, b in enumerate(dicts):
            r = outcome(testing.dict_overlap, a, b)
            if r[0] == "ok":
                r = ("ok", r[1], tuple((type(x).__name__, list(x)) for x in r[2]))
            cases[f"dict_overlap-{i}-{j}"] = r
    cases["dict_overlap-err"] = outcome(testing.dict_overlap, {"a": 1}, [("a", 1)])

    # format_array
    arrays = {
        "empty": np.array([], dtype="float32"),
        "scalar": np.array(5, dtype="int64"),
        "short": np.array([0, 1], dtype="int8"),
        "seven": np.arange(7, dtype="uint16"),
        "eight": np.arange(8, dtype="uint16"),
        "long": np.arange(10, dtype="int32"),
        "2d": np.arange(12, dtype="float64").reshape(3, 4),
        "2d-small": np.arange(6, dtype="complex64").reshape(3, 2),
        "str": np.array(["a", "bc"]),
        "time": np.array(["2020-01-01", "NaT"], dtype="datetime64[ms]"),
        "timedelta-long": np.arange(9).astype("timedelta64[s]"),
        "bool": np.array([True, False]),
        "list": [1, 2, 3],
        "nested-list": [[1.5, 2], [3, 4], [5, 6], [7, 8]],
        "pyscalar": 3,
        "Array": arr(),
        "Array-file": arr(protocol="file", path="/data", url="IMG-HH", shape=(10, 2), dtype="complex64",
                          records_per_chunk=None, type_code="C*8"),
    }
    for name, a in arrays.items():
        cases[f"format_array-{name}"] = outcome(testing.format_array, a)
    cases["format_array-none"] = outcome(testing.format_array, None)
    cases["format_array-object"] = outcome(testing.format_array, np.array([{}, 1], dtype=object))

    # format_inline
    for name, v in {"int": 1, "str": "abc", "none": None, "list": [1, "a"], "var": v_i8_attrs,
                    "var2d": v_2d, "varlong": v_long, "vararr": v_arr, "vartime": v_time,
                    "array": arr(), "ndarray": np.arange(3), "group": Group("/", "u", {}, {})}.items():
        cases[f"format_inline-{name}"] = outcome(testing.format_inline, v)

    # compare_data
    data = {
        "i8": np.array([0, 1], dtype="int8"),
        "i8b": np.array([0, 1], dtype="int8"),
        "i8c": np.array([0, 2], dtype="int8"),
        "i16": np.array([0, 1], dtype="int16"),
        "2d": np.zeros((2, 1), dtype="int8"),
        "bcast": np.zeros((1, 2), dtype="int8"),
        "empty": np.array([], dtype="int8"),
        "nan": np.array([np.nan]),
        "list": [0, 1],
        "arr": arr(),
        "arr-same": arr(),
        "arr-url": arr(url="other"),
        "scalar": np.int8(1),
        "int": 1,
    }
    for ka, a in data.items():
        for kb, b in data.items():
            cases[f"compare_data-{ka}-{kb}"] = outcome(testing.compare_data, a, b)

    # diff_tree (through plain calls, Group trees)
    def tree(variant):
        sub = Group(None, None, {"v": v_i8}, {"s": 1})
        if variant == "base":
            return Group("/", "mem://a", {"v": v_i8, "w": v_2d, "sub": sub}, {"a": 1})
        if variant == "attrs":
            return Group("/", "mem://a", {"v": v_i8, "w": v_2d, "sub": sub}, {"a": 2, "b": 1})
        if variant == "url":
            return Group("/", "mem://b", {"v": v_i8, "w": v_2d, "sub": sub}, {"a": 1})
        if variant == "vars":
            return Group("/", "mem://a", {"v": v_i8_other, "w": v_2d_t, "sub": sub, "z": v_arr}, {"a": 1})
        if variant == "missing-right":
            return Group("/", "mem://a", {"v": v_i8, "w": v_2d}, {"a": 1})
        if variant == "extra":
            deep = Group(None, None, {"sub2": Group(None, None, {}, {}), "v": v_long}, {})
            return Group("/", "mem://a", {"v": v_i8, "w": v_2d, "sub": sub, "other": deep}, {"a": 1})
        if variant == "subdiff":
            sub2 = Group(None, None, {"v": v_i8_attrs, "q": v_arr}, {"s": 2})
            return Group("/", "mem://a", {"v": v_i8, "w": v_2d, "sub": sub2}, {"a": 1})
        if variant == "both":
            l = Group(None, None, {}, {})
            return Group("/", "mem://a", {"v": v_i8, "left_only": l, "sub": Group(None, None, {"v": v_arr}, {})}, {})
        if variant == "empty":
            return Group(None, "mem://e", {}, {})
        if variant == "path":
            return Group("/root", "mem://a", {"v": v_i8, "w": v_2d, "sub": sub}, {"a": 1})
        raise ValueError(variant)

    variants = ["base", "attrs", "url", "vars", "missing-right", "extra", "subdiff", "both", "empty", "path"]
    for va in variants:
        for vb in variants:
            cases[f"diff_tree-{va}-{vb}"] = outcome(testing.diff_tree, tree(va), tree(vb))
            cases[f"assert_identical-{va}-{vb}"] = outcome(testing.assert_identical, tree(va), tree(vb))

    # order of decouple calls and exception propagation in diff_tree
    def dtree(fail=None, extra=None):
        names = ["/", "/a", "/b"] + ([extra] if extra else [])
        children = [Decoupling(n, fail=(n == fail)) for n in names[1:]]
        return Decoupling("/", children)

    for key, (a, b) in {
        "same": (dtree(), dtree()),
        "extra-right": (dtree(), dtree(extra="/c")),
        "extra-left": (dtree(extra="/0"), dtree()),
        "fail-left": (dtree(fail="/a"), dtree()),
        "fail-right": (dtree(), dtree(fail="/b")),
        "fail-both": (dtree(fail="/b"), dtree(fail="/a")),
    }.items():
        Decoupling.log = []
        r = outcome(testing.diff_tree, a, b)
        cases[f"diff_tree-order-{key}"] = (r, list(Decoupling.log))

    # remaining users of the touched helpers
    pairs = {
        "i8-other": (v_i8, v_i8_other), "i8-attrs": (v_i8, v_i8_attrs), "2d-t": (v_2d, v_2d_t),
        "arr-arr2": (v_arr, v_arr2), "arr-i8": (v_arr, v_i8), "long-i8": (v_long, v_i8), "same": (v_i8, v_i8),
    }
    for key, (a, b) in pairs.items():
        cases[f"diff_variable-{key}"] = outcome(testing.diff_variable, a, b)
        cases[f"assert_identical-var-{key}"] = outcome(testing.assert_identical, a, b)
    cases["diff_mapping-vars"] = outcome(
        testing.diff_mapping, {"a": v_i8, "b": v_long, "n": 1}, {"a": v_i8_other, "b": v_long, "n": 2, "m": 0},
        name="Variables")
    cases["diff_mapping_not_equal"] = outcome(
        testing.diff_mapping_not_equal, {"a": v_arr, "n": None}, {"a": v_arr2, "n": 0}, "things")
    cases["diff_mapping_not_equal-none"] = outcome(testing.diff_mapping_not_equal, {"a": 1}, {"a": 1}, "x")
    cases["diff_data-types"] = outcome(testing.diff_data, arr(), np.arange(3), name="Data")
    cases["assert_identical-types"] = outcome(testing.assert_identical, v_i8, arr())
    cases["assert_identical-bad"] = outcome(testing.assert_identical, 1, 1)
    cases["assert_identical-arr"] = outcome(testing.assert_identical, arr(), arr(shape=(4, 2), dtype="uint16"))
    return cases


EXPECTED = {'dict_overlap-0-0': ('ok', 'tuple', (('list', []), ('list', []), ('list', []))),
 'dict_overlap-0-1': ('ok', 'tuple', (('list', ['a']), ('list', []), ('list', []))),
 'dict_overlap-0-2': ('ok', 'tuple', (('list', ['b']), ('list', []), ('list', []))),
 'dict_overlap-0-3': ('ok', 'tuple', (('list', ['a', 'b']), ('list', []), ('list', []))),
 'dict_overlap-0-4': ('ok', 'tuple', (('list', ['c', 'a']), ('list', []), ('list', []))),
 'dict_overlap-0-5': ('ok', 'tuple', (('list', ['a', 'b', 'c', 'd']), ('list', []), ('list', []))),
 'dict_overlap-1-0': ('ok', 'tuple', (('list', []), ('list', []), ('list', ['a']))),
 'dict_overlap-1-1': ('ok', 'tuple', (('list', []), ('list', ['a']), ('list', []))),
 'dict_overlap-1-2': ('ok', 'tuple', (('list', ['b']), ('list', []), ('list', ['a']))),
 'dict_overlap-1-3': ('ok', 'tuple', (('list', ['b']), ('list', ['a']), ('list', []))),
 'dict_overlap-1-4': ('ok', 'tuple', (('list', ['c']), ('list', ['a']), ('list', []))),
 'dict_overlap-1-5': ('ok', 'tuple', (('list', ['b', 'c', 'd']), ('list', ['a']), ('list', []))),
 'dict_overlap-2-0': ('ok', 'tuple', (('list', []), ('list', []), ('list', ['b']))),
 'dict_overlap-2-1': ('ok', 'tuple', (('list', ['a']), ('list', []), ('list', ['b']))),
 'dict_overlap-2-2': ('ok', 'tuple', (('list', []), ('list', ['b']), ('list', []))),
 'dict_overlap-2-3': ('ok', 'tuple', (('list', ['a']), ('list', ['b']), ('list', []))),
 'dict_overlap-2-4': ('ok', 'tuple', (('list', ['c', 'a']), ('list', []), ('list', ['b']))),
 'dict_overlap-2-5': ('ok', 'tuple', (('list', ['a', 'c', 'd']), ('list', ['b']), ('list', []))),
 'dict_overlap-3-0': ('ok', 'tuple', (('list', []), ('list', []), ('list', ['a', 'b']))),
 'dict_overlap-3-1': ('ok', 'tuple', (('list', []), ('list', ['a']), ('list', ['b']))),
 'dict_overlap-3-2': ('ok', 'tuple', (('list', []), ('list', ['b']), ('list', ['a']))),
 'dict_overlap-3-3': ('ok', 'tuple', (('list', []), ('list', ['a', 'b']), ('list', []))),
 'dict_overlap-3-4': ('ok', 'tuple', (('list', ['c']), ('list', ['a']), ('list', ['b']))),
 'dict_overlap-3-5': ('ok', 'tuple', (('list', ['c', 'd']), ('list', ['a', 'b']), ('list', []))),
 'dict_overlap-4-0': ('ok', 'tuple', (('list', []), ('list', []), ('list', ['c', 'a']))),
 'dict_overlap-4-1': ('ok', 'tuple', (('list', []), ('list', ['a']), ('list', ['c']))),
 'dict_overlap-4-2': ('ok', 'tuple', (('list', ['b']), ('list', []), ('list', ['c', 'a']))),
 'dict_overlap-4-3': ('ok', 'tuple', (('list', ['b']), ('list', ['a']), ('list', ['c']))),
 'dict_overlap-4-4': ('ok', 'tuple', (('list', []), ('list', ['c', 'a']), ('list', []))),
 'dict_overlap-4-5': ('ok', 'tuple', (('list', ['b', 'd']), ('list', ['c', 'a']), ('list', []))),
 'dict_overlap-5-0': ('ok', 'tuple', (('list', []), ('list', []), ('list', ['a', 'b', 'c', 'd']))),
 'dict_overlap-5-1': ('ok', 'tuple', (('list', []), ('list', ['a']), ('list', ['b', 'c', 'd']))),
 'dict_overlap-5-2': ('ok', 'tuple', (('list', []), ('list', ['b']), ('list', ['a', 'c', 'd']))),
 'dict_overlap-5-3': ('ok', 'tuple', (('list', []), ('list', ['a', 'b']), ('list', ['c', 'd']))),
 'dict_overlap-5-4': ('ok', 'tuple', (('list', []), ('list', ['a', 'c']), ('list', ['b', 'd']))),
 'dict_overlap-5-5': ('ok', 'tuple', (('list', []), ('list', ['a', 'b', 'c', 'd']), ('list', []))),
 'dict_overlap-err': ('err', 'TypeError', "unsupported operand type(s) for |: 'dict' and 'list'", None),
 'format_array-empty': ('ok', 'str', 'float32  '),
 'format_array-scalar': ('ok', 'str', 'int64  5'),
 'format_array-short': ('ok', 'str', 'int8  0 1'),
 'format_array-seven': ('ok', 'str', 'uint16  0 1 2 3 4 5 6'),
 'format_array-eight': ('ok', 'str', 'uint16  0 1 2 ... 6 7'),
 'format_array-long': ('ok', 'str', 'int32  0 1 2 ... 8 9'),
 'format_array-2d': ('ok', 'str', 'float64  0.0 1.0 2.0 ... 10.0 11.0'),
 'format_array-2d-small': ('ok', 'str', 'complex64  0j (1+0j) (2+0j) (3+0j) (4+0j) (5+0j)'),
 'format_array-str': ('ok', 'str', "<U2  'a' 'bc'"),
 'format_array-time': ('ok', 'str', 'datetime64[ms]  2020-01-01T00:00:00.000 NaT'),
 'format_array-timedelta-long': ('ok', 'str', 'timedelta64[s]  0 seconds 1 seconds 2 seconds ... 7 seconds 8 seconds'),
 'format_array-bool': ('ok', 'str', 'bool  True False'),
 'format_array-list': ('ok', 'str', 'int64  1 2 3'),
 'format_array-nested-list': ('ok', 'str', 'float64  1.5 2.0 3.0 ... 7.0 8.0'),
 'format_array-pyscalar': ('ok', 'str', 'int64  3'),
 'format_array-Array': ('ok', 'str', 'Array(shape=(4, 3), dtype=int16, rpc=2)\n    url: memory:///path/to/file'),
 'format_array-Array-file': ('ok',
                             'str',
                             'Array(shape=(10, 2), dtype=complex64, rpc=1024)\n'
                             "    url: ('file', 'local'):///data/IMG-HH"),
 'format_array-none': ('err', 'AttributeError', "'NoneType' object has no attribute 'dtype'", None),
 'format_array-object': ('err', 'AttributeError', "'dict' object has no attribute 'dtype'", None),
 'format_inline-int': ('ok', 'str', '1'),
 'format_inline-str': ('ok', 'str', 'abc'),
 'format_inline-none': ('ok', 'str', 'None'),
 'format_inline-list': ('ok', 'str', "[1, 'a']"),
 'format_inline-var': ('ok', 'str', '(x)    int8  0 1\n    a: 1\n    b: b'),
 'format_inline-var2d': ('ok', 'str', '(x, y)    int32  0 1 2 3 4 5\n    u: m'),
 'format_inline-varlong': ('ok', 'str', '(t)    float64  0.0 1.0 2.0 ... 18.0 19.0'),
 'format_inline-vararr': ('ok',
                          'str',
                          '(rows, cols)    Array(shape=(4, 3), dtype=int16, rpc=2)\n'
                          '    url: memory:///path/to/file\n'
                          '    n: 1'),
 'format_inline-vartime': ('ok', 'str', '(t)    datetime64[s]  2020-01-01T00:00:00 2020-01-02T00:00:00'),
 'format_inline-array': ('ok', 'str', "Array(url='file', shape=(4, 3), dtype='int16', records_per_chunk=2)"),
 'format_inline-ndarray': ('ok', 'str', '[0 1 2]'),
 'format_inline-group': ('ok', 'str', "Group(path='/', url='u', data={}, attrs={})"),
 'compare_data-i8-i8': ('ok', 'bool', 'np.True_'),
 'compare_data-i8-i8b': ('ok', 'bool', 'np.True_'),
 'compare_data-i8-i8c': ('ok', 'bool', 'np.False_'),
 'compare_data-i8-i16': ('ok', 'bool', 'np.True_'),
 'compare_data-i8-2d': ('ok', 'bool', False),
 'compare_data-i8-bcast': ('ok', 'bool', False),
 'compare_data-i8-empty': ('ok', 'bool', False),
 'compare_data-i8-nan': ('ok', 'bool', False),
 'compare_data-i8-list': ('ok', 'bool', False),
 'compare_data-i8-arr': ('ok', 'bool', False),
 'compare_data-i8-arr-same': ('ok', 'bool', False),
 'compare_data-i8-arr-url': ('ok', 'bool', False),
 'compare_data-i8-scalar': ('ok', 'bool', False),
 'compare_data-i8-int': ('ok', 'bool', False),
 'compare_data-i8b-i8': ('ok', 'bool', 'np.True_'),
 'compare_data-i8b-i8b': ('ok', 'bool', 'np.True_'),
 'compare_data-i8b-i8c': ('ok', 'bool', 'np.False_'),
 'compare_data-i8b-i16': ('ok', 'bool', 'np.True_'),
 'compare_data-i8b-2d': ('ok', 'bool', False),
 'compare_data-i8b-bcast': ('ok', 'bool', False),
 'compare_data-i8b-empty': ('ok', 'bool', False),
 'compare_data-i8b-nan': ('ok', 'bool', False),
 'compare_data-i8b-list': ('ok', 'bool', False),
 'compare_data-i8b-arr': ('ok', 'bool', False),
 'compare_data-i8b-arr-same': ('ok', 'bool', False),
 'compare_data-i8b-arr-url': ('ok', 'bool', False),
 'compare_data-i8b-scalar': ('ok', 'bool', False),
 'compare_data-i8b-int': ('ok', 'bool', False),
 'compare_data-i8c-i8': ('ok', 'bool', 'np.False_'),
 'compare_data-i8c-i8b': ('ok', 'bool', 'np.False_'),
 'compare_data-i8c-i8c': ('ok', 'bool', 'np.True_'),
 'compare_data-i8c-i16': ('ok', 'bool', 'np.False_'),
 'compare_data-i8c-2d': ('ok', 'bool', False),
 'compare_data-i8c-bcast': ('ok', 'bool', False),
 'compare_data-i8c-empty': ('ok', 'bool', False),
 'compare_data-i8c-nan': ('ok', 'bool', False),
 'compare_data-i8c-list': ('ok', 'bool', False),
 'compare_data-i8c-arr': ('ok', 'bool', False),
 'compare_data-i8c-arr-same': ('ok', 'bool', False),
 'compare_data-i8c-arr-url': ('ok', 'bool', False),
 'compare_data-i8c-scalar': ('ok', 'bool', False),
 'compare_data-i8c-int': ('ok', 'bool', False),
 'compare_data-i16-i8': ('ok', 'bool', 'np.True_'),
 'compare_data-i16-i8b': ('ok', 'bool', 'np.True_'),
 'compare_data-i16-i8c': ('ok', 'bool', 'np.False_'),
 'compare_data-i16-i16': ('ok', 'bool', 'np.True_'),
 'compare_data-i16-2d': ('ok', 'bool', False),
 'compare_data-i16-bcast': ('ok', 'bool', False),
 'compare_data-i16-empty': ('ok', 'bool', False),
 'compare_data-i16-nan': ('ok', 'bool', False),
 'compare_data-i16-list': ('ok', 'bool', False),
 'compare_data-i16-arr': ('ok', 'bool', False),
 'compare_data-i16-arr-same': ('ok', 'bool', False),
 'compare_data-i16-arr-url': ('ok', 'bool', False),
 'compare_data-i16-scalar': ('ok', 'bool', False),
 'compare_data-i16-int': ('ok', 'bool', False),
 'compare_data-2d-i8': ('ok', 'bool', False),
 'compare_data-2d-i8b': ('ok', 'bool', False),
 'compare_data-2d-i8c': ('ok', 'bool', False),
 'compare_data-2d-i16': ('ok', 'bool', False),
 'compare_data-2d-2d': ('ok', 'bool', 'np.True_'),
 'compare_data-2d-bcast': ('ok', 'bool', False),
 'compare_data-2d-empty': ('ok', 'bool', False),
 'compare_data-2d-nan': ('ok', 'bool', False),
 'compare_data-2d-list': ('ok', 'bool', False),
 'compare_data-2d-arr': ('ok', 'bool', False),
 'compare_data-2d-arr-same': ('ok', 'bool', False),
 'compare_data-2d-arr-url': ('ok', 'bool', False),
 'compare_data-2d-scalar': ('ok', 'bool', False),
 'compare_data-2d-int': ('ok', 'bool', False),
 'compare_data-bcast-i8': ('ok', 'bool', False),
 'compare_data-bcast-i8b': ('ok', 'bool', False),
 'compare_data-bcast-i8c': ('ok', 'bool', False),
 'compare_data-bcast-i16': ('ok', 'bool', False),
 'compare_data-bcast-2d': ('ok', 'bool', False),
 'compare_data-bcast-bcast': ('ok', 'bool', 'np.True_'),
 'compare_data-bcast-empty': ('ok', 'bool', False),
 'compare_data-bcast-nan': ('ok', 'bool', False),
 'compare_data-bcast-list': ('ok', 'bool', False),
 'compare_data-bcast-arr': ('ok', 'bool', False),
 'compare_data-bcast-arr-same': ('ok', 'bool', False),
 'compare_data-bcast-arr-url': ('ok', 'bool', False),
 'compare_data-bcast-scalar': ('ok', 'bool', False),
 'compare_data-bcast-int': ('ok', 'bool', False),
 'compare_data-empty-i8': ('ok', 'bool', False),
 'compare_data-empty-i8b': ('ok', 'bool', False),
 'compare_data-empty-i8c': ('ok', 'bool', False),
 'compare_data-empty-i16': ('ok', 'bool', False),
 'compare_data-empty-2d': ('ok', 'bool', False),
 'compare_data-empty-bcast': ('ok', 'bool', False),
 'compare_data-empty-empty': ('ok', 'bool', 'np.True_'),
 'compare_data-empty-nan': ('ok', 'bool', False),
 'compare_data-empty-list': ('ok', 'bool', False),
 'compare_data-empty-arr': ('ok', 'bool', False),
 'compare_data-empty-arr-same': ('ok', 'bool', False),
 'compare_data-empty-arr-url': ('ok', 'bool', False),
 'compare_data-empty-scalar': ('ok', 'bool', False),
 'compare_data-empty-int': ('ok', 'bool', False),
 'compare_data-nan-i8': ('ok', 'bool', False),
 'compare_data-nan-i8b': ('ok', 'bool', False),
 'compare_data-nan-i8c': ('ok', 'bool', False),
 'compare_data-nan-i16': ('ok', 'bool', False),
 'compare_data-nan-2d': ('ok', 'bool', False),
 'compare_data-nan-bcast': ('ok', 'bool', False),
 'compare_data-nan-empty': ('ok', 'bool', False),
 'compare_data-nan-nan': ('ok', 'bool', 'np.False_'),
 'compare_data-nan-list': ('ok', 'bool', False),
 'compare_data-nan-arr': ('ok', 'bool', False),
 'compare_data-nan-arr-same': ('ok', 'bool', False),
 'compare_data-nan-arr-url': ('ok', 'bool', False),
 'compare_data-nan-scalar': ('ok', 'bool', False),
 'compare_data-nan-int': ('ok', 'bool', False),
 'compare_data-list-i8': ('ok', 'bool', False),
 'compare_data-list-i8b': ('ok', 'bool', False),
 'compare_data-list-i8c': ('ok', 'bool', False),
 'compare_data-list-i16': ('ok', 'bool', False),
 'compare_data-list-2d': ('ok', 'bool', False),
 'compare_data-list-bcast': ('ok', 'bool', False),
 'compare_data-list-empty': ('ok', 'bool', False),
 'compare_data-list-nan': ('ok', 'bool', False),
 'compare_data-list-list': ('err', 'AttributeError', "'list' object has no attribute 'shape'", None),
 'compare_data-list-arr': ('ok', 'bool', False),
 'compare_data-list-arr-same': ('ok', 'bool', False),
 'compare_data-list-arr-url': ('ok', 'bool', False),
 'compare_data-list-scalar': ('ok', 'bool', False),
 'compare_data-list-int': ('ok', 'bool', False),
 'compare_data-arr-i8': ('ok', 'bool', False),
 'compare_data-arr-i8b': ('ok', 'bool', False),
 'compare_data-arr-i8c': ('ok', 'bool', False),
 'compare_data-arr-i16': ('ok', 'bool', False),
 'compare_data-arr-2d': ('ok', 'bool', False),
 'compare_data-arr-bcast': ('ok', 'bool', False),
 'compare_data-arr-empty': ('ok', 'bool', False),
 'compare_data-arr-nan': ('ok', 'bool', False),
 'compare_data-arr-list': ('ok', 'bool', False),
 'compare_data-arr-arr': ('ok', 'bool', True),
 'compare_data-arr-arr-same': ('ok', 'bool', True),
 'compare_data-arr-arr-url': ('ok', 'bool', False),
 'compare_data-arr-scalar': ('ok', 'bool', False),
 'compare_data-arr-int': ('ok', 'bool', False),
 'compare_data-arr-same-i8': ('ok', 'bool', False),
 'compare_data-arr-same-i8b': ('ok', 'bool', False),
 'compare_data-arr-same-i8c': ('ok', 'bool', False),
 'compare_data-arr-same-i16': ('ok', 'bool', False),
 'compare_data-arr-same-2d': ('ok', 'bool', False),
 'compare_data-arr-same-bcast': ('ok', 'bool', False),
 'compare_data-arr-same-empty': ('ok', 'bool', False),
 'compare_data-arr-same-nan': ('ok', 'bool', False),
 'compare_data-arr-same-list': ('ok', 'bool', False),
 'compare_data-arr-same-arr': ('ok', 'bool', True),
 'compare_data-arr-same-arr-same': ('ok', 'bool', True),
 'compare_data-arr-same-arr-url': ('ok', 'bool', False),
 'compare_data-arr-same-scalar': ('ok', 'bool', False),
 'compare_data-arr-same-int': ('ok', 'bool', False),
 'compare_data-arr-url-i8': ('ok', 'bool', False),
 'compare_data-arr-url-i8b': ('ok', 'bool', False),
 'compare_data-arr-url-i8c': ('ok', 'bool', False),
 'compare_data-arr-url-i16': ('ok', 'bool', False),
 'compare_data-arr-url-2d': ('ok', 'bool', False),
 'compare_data-arr-url-bcast': ('ok', 'bool', False),
 'compare_data-arr-url-empty': ('ok', 'bool', False),
 'compare_data-arr-url-nan': ('ok', 'bool', False),
 'compare_data-arr-url-list': ('ok', 'bool', False),
 'compare_data-arr-url-arr': ('ok', 'bool', False),
 'compare_data-arr-url-arr-same': ('ok', 'bool', False),
 'compare_data-arr-url-arr-url': ('ok', 'bool', True),
 'compare_data-arr-url-scalar': ('ok', 'bool', False),
 'compare_data-arr-url-int': ('ok', 'bool', False),
 'compare_data-scalar-i8': ('ok', 'bool', False),
 'compare_data-scalar-i8b': ('ok', 'bool', False),
 'compare_data-scalar-i8c': ('ok', 'bool', False),
 'compare_data-scalar-i16': ('ok', 'bool', False),
 'compare_data-scalar-2d': ('ok', 'bool', False),
 'compare_data-scalar-bcast': ('ok', 'bool', False),
 'compare_data-scalar-empty': ('ok', 'bool', False),
 'compare_data-scalar-nan': ('ok', 'bool', False),
 'compare_data-scalar-list': ('ok', 'bool', False),
 'compare_data-scalar-arr': ('ok', 'bool', False),
 'compare_data-scalar-arr-same': ('ok', 'bool', False),
 'compare_data-scalar-arr-url': ('ok', 'bool', False),
 'compare_data-scalar-scalar': ('ok', 'bool', 'np.True_'),
 'compare_data-scalar-int': ('ok', 'bool', False),
 'compare_data-int-i8': ('ok', 'bool', False),
 'compare_data-int-i8b': ('ok', 'bool', False),
 'compare_data-int-i8c': ('ok', 'bool', False),
 'compare_data-int-i16': ('ok', 'bool', False),
 'compare_data-int-2d': ('ok', 'bool', False),
 'compare_data-int-bcast': ('ok', 'bool', False),
 'compare_data-int-empty': ('ok', 'bool', False),
 'compare_data-int-nan': ('ok', 'bool', False),
 'compare_data-int-list': ('ok', 'bool', False),
 'compare_data-int-arr': ('ok', 'bool', False),
 'compare_data-int-arr-same': ('ok', 'bool', False),
 'compare_data-int-arr-url': ('ok', 'bool', False),
 'compare_data-int-scalar': ('ok', 'bool', False),
 'compare_data-int-int': ('err', 'AttributeError', "'int' object has no attribute 'shape'", None),
 'diff_tree-base-base': ('ok', 'str', 'Left and right Group objects are not equal\n'),
 'assert_identical-base-base': ('ok', 'NoneType', None),
 'diff_tree-base-attrs': ('ok',
                          'str',
                          'Left and right Group objects are not equal\n'
                          '  Differing groups:\n'
                          '    Group /:\n'
                          '      Attributes:\n'
                          '        Missing left:\n'
                          '         - b\n'
                          '        Differing attributes:\n'
                          '           L a  1\n'
                          '           R a  2'),
 'assert_identical-base-attrs': ('err',
                                 'AssertionError',
                                 'Left and right Group objects are not equal\n'
                                 '  Differing groups:\n'
                                 '    Group /:\n'
                                 '      Attributes:\n'
                                 '        Missing left:\n'
                                 '         - b\n'
                                 '        Differing attributes:\n'
                                 '           L a  1\n'
                                 '           R a  2',
                                 None),
 'diff_tree-base-url': ('ok',
                        'str',
                        'Left and right Group objects are not equal\n'
                        '  Differing groups:\n'
                        '    Group /:\n'
                        '      Differing Url:\n'
                        '      L  mem://a\n'
                        '      R  mem://b\n'
                        '    Group /sub:\n'
                        '      Differing Url:\n'
                        '      L  mem://a\n'
                        '      R  mem://b'),
 'assert_identical-base-url': ('err',
                               'AssertionError',
                               'Left and right Group objects are not equal\n'
                               '  Differing groups:\n'
                               '    Group /:\n'
                               '      Differing Url:\n'
                               '      L  mem://a\n'
                               '      R  mem://b\n'
                               '    Group /sub:\n'
                               '      Differing Url:\n'
                               '      L  mem://a\n'
                               '      R  mem://b',
                               None),
 'diff_tree-base-vars': ('ok',
                         'str',
                         'Left and right Group objects are not equal\n'
                         '  Differing groups:\n'
                         '    Group /:\n'
                         '      Variables:\n'
                         '        Missing left:\n'
                         '         - z\n'
                         '        Differing variables:\n'
                         '           L v  (x)    int8  0 1\n'
                         '           R v  (x)    int8  0 2\n'
                         '             a: 2\n'
                         '             c: 1\n'
                         '           L w  (x, y)    int32  0 1 2 3 4 5\n'
                         '             u: m\n'
                         '           R w  (y, x)    int32  0 1 2 3 4 5\n'
                         '             u: m'),
 'assert_identical-base-vars': ('err',
                                'AssertionError',
                                'Left and right Group objects are not equal\n'
                                '  Differing groups:\n'
                                '    Group /:\n'
                                '      Variables:\n'
                                '        Missing left:\n'
                                '         - z\n'
                                '        Differing variables:\n'
                                '           L v  (x)    int8  0 1\n'
                                '           R v  (x)    int8  0 2\n'
                                '             a: 2\n'
                                '             c: 1\n'
                                '           L w  (x, y)    int32  0 1 2 3 4 5\n'
                                '             u: m\n'
                                '           R w  (y, x)    int32  0 1 2 3 4 5\n'
                                '             u: m',
                                None),
 'diff_tree-base-missing-right': ('ok',
                                  'str',
                                  'Left and right Group objects are not equal\n'
                                  '  Differing tree structure:\n'
                                  '    Missing right:\n'
                                  '    - /sub'),
 'assert_identical-base-missing-right': ('err',
                                         'AssertionError',
                                         'Left and right Group objects are not equal\n'
                                         '  Differing tree structure:\n'
                                         '    Missing right:\n'
                                         '    - /sub',
                                         None),
 'diff_tree-base-extra': ('ok',
                          'str',
                          'Left and right Group objects are not equal\n'
                          '  Differing tree structure:\n'
                          '    Missing left:\n'
                          '    - /other\n'
                          '    - /other/sub2'),
 'assert_identical-base-extra': ('err',
                                 'AssertionError',
                                 'Left and right Group objects are not equal\n'
                                 '  Differing tree structure:\n'
                                 '    Missing left:\n'
                                 '    - /other\n'
                                 '    - /other/sub2',
                                 None),
 'diff_tree-base-subdiff': ('ok',
                            'str',
                            'Left and right Group objects are not equal\n'
                            '  Differing groups:\n'
                            '    Group /sub:\n'
                            '      Variables:\n'
                            '        Missing left:\n'
                            '         - q\n'
                            '        Differing variables:\n'
                            '           L v  (x)    int8  0 1\n'
                            '           R v  (x)    int8  0 1\n'
                            '             a: 1\n'
                            '             b: b\n'
                            '      Attributes:\n'
                            '        Differing attributes:\n'
                            '           L s  1\n'
                            '           R s  2'),
 'assert_identical-base-subdiff': ('err',
                                   'AssertionError',
                                   'Left and right Group objects are not equal\n'
                                   '  Differing groups:\n'
                                   '    Group /sub:\n'
                                   '      Variables:\n'
                                   '        Missing left:\n'
                                   '         - q\n'
                                   '        Differing variables:\n'
                                   '           L v  (x)    int8  0 1\n'
                                   '           R v  (x)    int8  0 1\n'
                                   '             a: 1\n'
                                   '             b: b\n'
                                   '      Attributes:\n'
                                   '        Differing attributes:\n'
                                   '           L s  1\n'
                                   '           R s  2',
                                   None),
 'diff_tree-base-both': ('ok',
                         'str',
                         'Left and right Group objects are not equal\n'
                         '  Differing tree structure:\n'
                         '    Missing left:\n'
                         '    - /left_only\n'
                         '  Differing groups:\n'
                         '    Group /:\n'
                         '      Variables:\n'
                         '        Missing right:\n'
                         '         - w\n'
                         '      Attributes:\n'
                         '        Missing right:\n'
                         '         - a\n'
                         '    Group /sub:\n'
                         '      Variables:\n'
                         '        Differing variables:\n'
                         '           L v  (x)    int8  0 1\n'
                         '           R v  (rows, cols)    Array(shape=(4, 3), dtype=int16, rpc=2)\n'
                         '             url: memory:///path/to/file\n'
                         '             n: 1\n'
                         '      Attributes:\n'
                         '        Missing right:\n'
                         '         - s'),
 'assert_identical-base-both': ('err',
                                'AssertionError',
                                'Left and right Group objects are not equal\n'
                                '  Differing tree structure:\n'
                                '    Missing left:\n'
                                '    - /left_only\n'
                                '  Differing groups:\n'
                                '    Group /:\n'
                                '      Variables:\n'
                                '        Missing right:\n'
                                '         - w\n'
                                '      Attributes:\n'
                                '        Missing right:\n'
                                '         - a\n'
                                '    Group /sub:\n'
                                '      Variables:\n'
                                '        Differing variables:\n'
                                '           L v  (x)    int8  0 1\n'
                                '           R v  (rows, cols)    Array(shape=(4, 3), dtype=int16, rpc=2)\n'
                                '             url: memory:///path/to/file\n'
                                '             n: 1\n'
                                '      Attributes:\n'
                                '        Missing right:\n'
                                '         - s',
                                None),
 'diff_tree-base-empty': ('ok',
                          'str',
                          'Left and right Group objects are not equal\n'
                          '  Differing tree structure:\n'
                          '    Missing right:\n'
                          '    - /sub\n'
                          '  Differing groups:\n'
                          '    Group /:\n'
                          '      Differing Url:\n'
                          '      L  mem://a\n'
                          '      R  mem://e\n'
                          '      Variables:\n'
                          '        Missing right:\n'
                          '         - v\n'
                          '         - w\n'
                          '      Attributes:\n'
                          '        Missing right:\n'
                          '         - a'),
 'assert_identical-base-empty': ('err',
                                 'AssertionError',
                                 'Left and right Group objects are not equal\n'
                                 '  Differing tree structure:\n'
                                 '    Missing right:\n'
                                 '    - /sub\n'
                                 '  Differing groups:\n'
                                 '    Group /:\n'
                                 '      Differing Url:\n'
                                 '      L  mem://a\n'
                                 '      R  mem://e\n'
                                 '      Variables:\n'
                                 '        Missing right:\n'
                                 '         - v\n'
                                 '         - w\n'
                                 '      Attributes:\n'
                                 '        Missing right:\n'
                                 '         - a',
                                 None),
 'diff_tree-base-path': ('ok',
                         'str',
                         'Left and right Group objects are not equal\n'
                         '  Differing tree structure:\n'
                         '    Missing left:\n'
                         '    - /root\n'
                         '    - /root/sub\n'
                         '    Missing right:\n'
                         '    - /\n'
                         '    - /sub'),
 'assert_identical-base-path': ('err',
                                'AssertionError',
                                'Left and right Group objects are not equal\n'
                                '  Differing tree structure:\n'
                                '    Missing left:\n'
                                '    - /root\n'
                                '    - /root/sub\n'
                                '    Missing right:\n'
                                '    - /\n'
                                '    - /sub',
                                None),
 'diff_tree-attrs-base': ('ok',
                          'str',
                          'Left and right Group objects are not equal\n'
                          '  Differing groups:\n'
                          '    Group /:\n'
                          '      Attributes:\n'
                          '        Missing right:\n'
                          '         - b\n'
                          '        Differing attributes:\n'
                          '           L a  2\n'
                          '           R a  1'),
 'assert_identical-attrs-base': ('err',
                                 'AssertionError',
                                 'Left and right Group objects are not equal\n'
                                 '  Differing groups:\n'
                                 '    Group /:\n'
                                 '      Attributes:\n'
                                 '        Missing right:\n'
                                 '         - b\n'
                                 '        Differing attributes:\n'
                                 '           L a  2\n'
                                 '           R a  1',
                                 None),
 'diff_tree-attrs-attrs': ('ok', 'str', 'Left and right Group objects are not equal\n'),
 'assert_identical-attrs-attrs': ('ok', 'NoneType', None),
 'diff_tree-attrs-url': ('ok',
                         'str',
                         'Left and right Group objects are not equal\n'
                         '  Differing groups:\n'
                         '    Group /:\n'
                         '      Differing Url:\n'
                         '      L  mem://a\n'
                         '      R  mem://b\n'
                         '      Attributes:\n'
                         '        Missing right:\n'
                         '         - b\n'
                         '        Differing attributes:\n'
                         '           L a  2\n'
                         '           R a  1\n'
                         '    Group /sub:\n'
                         '      Differing Url:\n'
                         '      L  mem://a\n'
                         '      R  mem://b'),
 'assert_identical-attrs-url': ('err',
                                'AssertionError',
                                'Left and right Group objects are not equal\n'
                                '  Differing groups:\n'
                                '    Group /:\n'
                                '      Differing Url:\n'
                                '      L  mem://a\n'
                                '      R  mem://b\n'
                                '      Attributes:\n'
                                '        Missing right:\n'
                                '         - b\n'
                                '        Differing attributes:\n'
                                '           L a  2\n'
                                '           R a  1\n'
                                '    Group /sub:\n'
                                '      Differing Url:\n'
                                '      L  mem://a\n'
                                '      R  mem://b',
                                None),
 'diff_tree-attrs-vars': ('ok',
                          'str',
                          'Left and right Group objects are not equal\n'
                          '  Differing groups:\n'
                          '    Group /:\n'
                          '      Variables:\n'
                          '        Missing left:\n'
                          '         - z\n'
                          '        Differing variables:\n'
                          '           L v  (x)    int8  0 1\n'
                          '           R v  (x)    int8  0 2\n'
                          '             a: 2\n'
                          '             c: 1\n'
                          '           L w  (x, y)    int32  0 1 2 3 4 5\n'
                          '             u: m\n'
                          '           R w  (y, x)    int32  0 1 2 3 4 5\n'
                          '             u: m\n'
                          '      Attributes:\n'
                          '        Missing right:\n'
                          '         - b\n'
                          '        Differing attributes:\n'
                          '           L a  2\n'
                          '           R a  1'),
 'assert_identical-attrs-vars': ('err',
                                 'AssertionError',
                                 'Left and right Group objects are not equal\n'
                                 '  Differing groups:\n'
                                 '    Group /:\n'
                                 '      Variables:\n'
                                 '        Missing left:\n'
                                 '         - z\n'
                                 '        Differing variables:\n'
                                 '           L v  (x)    int8  0 1\n'
                                 '           R v  (x)    int8  0 2\n'
                                 '             a: 2\n'
                                 '             c: 1\n'
                                 '           L w  (x, y)    int32  0 1 2 3 4 5\n'
                                 '             u: m\n'
                                 '           R w  (y, x)    int32  0 1 2 3 4 5\n'
                                 '             u: m\n'
                                 '      Attributes:\n'
                                 '        Missing right:\n'
                                 '         - b\n'
                                 '        Differing attributes:\n'
                                 '           L a  2\n'
                                 '           R a  1',
                                 None),
 'diff_tree-attrs-missing-right': ('ok',
                                   'str',
                                   'Left and right Group objects are not equal\n'
                                   '  Differing tree structure:\n'
                                   '    Missing right:\n'
                                   '    - /sub\n'
                                   '  Differing groups:\n'
                                   '    Group /:\n'
                                   '      Attributes:\n'
                                   '        Missing right:\n'
                                   '         - b\n'
                                   '        Differing attributes:\n'
                                   '           L a  2\n'
                                   '           R a  1'),
 'assert_identical-attrs-missing-right': ('err',
                                          'AssertionError',
                                          'Left and right Group objects are not equal\n'
                                          '  Differing tree structure:\n'
                                          '    Missing right:\n'
                                          '    - /sub\n'
                                          '  Differing groups:\n'
                                          '    Group /:\n'
                                          '      Attributes:\n'
                                          '        Missing right:\n'
                                          '         - b\n'
                                          '        Differing attributes:\n'
                                          '           L a  2\n'
                                          '           R a  1',
                                          None),
 'diff_tree-attrs-extra': ('ok',
                           'str',
                           'Left and right Group objects are not equal\n'
                           '  Differing tree structure:\n'
                           '    Missing left:\n'
                           '    - /other\n'
                           '    - /other/sub2\n'
                           '  Differing groups:\n'
                           '    Group /:\n'
                           '      Attributes:\n'
                           '        Missing right:\n'
                           '         - b\n'
                           '        Differing attributes:\n'
                           '           L a  2\n'
                           '           R a  1'),
 'assert_identical-attrs-extra': ('err',
                                  'AssertionError',
                                  'Left and right Group objects are not equal\n'
                                  '  Differing tree structure:\n'
                                  '    Missing left:\n'
                                  '    - /other\n'
                                  '    - /other/sub2\n'
                                  '  Differing groups:\n'
                                  '    Group /:\n'
                                  '      Attributes:\n'
                                  '        Missing right:\n'
                                  '         - b\n'
                                  '        Differing attributes:\n'
                                  '           L a  2\n'
                                  '           R a  1',
                                  None),
 'diff_tree-attrs-subdiff': ('ok',
                             'str',
                             'Left and right Group objects are not equal\n'
                             '  Differing groups:\n'
                             '    Group /:\n'
                             '      Attributes:\n'
                             '        Missing right:\n'
                             '         - b\n'
                             '        Differing attributes:\n'
                             '           L a  2\n'
                             '           R a  1\n'
                             '    Group /sub:\n'
                             '      Variables:\n'
                             '        Missing left:\n'
                             '         - q\n'
                             '        Differing variables:\n'
                             '           L v  (x)    int8  0 1\n'
                             '           R v  (x)    int8  0 1\n'
                             '             a: 1\n'
                             '             b: b\n'
                             '      Attributes:\n'
                             '        Differing attributes:\n'
                             '           L s  1\n'
                             '           R s  2'),
 'assert_identical-attrs-subdiff': ('err',
                                    'AssertionError',
                                    'Left and right Group objects are not equal\n'
                                    '  Differing groups:\n'
                                    '    Group /:\n'
                                    '      Attributes:\n'
                                    '        Missing right:\n'
                                    '         - b\n'
                                    '        Differing attributes:\n'
                                    '           L a  2\n'
                                    '           R a  1\n'
                                    '    Group /sub:\n'
                                    '      Variables:\n'
                                    '        Missing left:\n'
                                    '         - q\n'
                                    '        Differing variables:\n'
                                    '           L v  (x)    int8  0 1\n'
                                    '           R v  (x)    int8  0 1\n'
                                    '             a: 1\n'
                                    '             b: b\n'
                                    '      Attributes:\n'
                                    '        Differing attributes:\n'
                                    '           L s  1\n'
                                    '           R s  2',
                                    None),
 'diff_tree-attrs-both': ('ok',
                          'str',
                          'Left and right Group objects are not equal\n'
                          '  Differing tree structure:\n'
                          '    Missing left:\n'
                          '    - /left_only\n'
                          '  Differing groups:\n'
                          '    Group /:\n'
                          '      Variables:\n'
                          '        Missing right:\n'
                          '         - w\n'
                          '      Attributes:\n'
                          '        Missing right:\n'
                          '         - a\n'
                          '         - b\n'
                          '    Group /sub:\n'
                          '      Variables:\n'
                          '        Differing variables:\n'
                          '           L v  (x)    int8  0 1\n'
                          '           R v  (rows, cols)    Array(shape=(4, 3), dtype=int16, rpc=2)\n'
                          '             url: memory:///path/to/file\n'
                          '             n: 1\n'
                          '      Attributes:\n'
                          '        Missing right:\n'
                          '         - s'),
 'assert_identical-attrs-both': ('err',
                                 'AssertionError',
                                 'Left and right Group objects are not equal\n'
                                 '  Differing tree structure:\n'
                                 '    Missing left:\n'
                                 '    - /left_only\n'
                                 '  Differing groups:\n'
                                 '    Group /:\n'
                                 '      Variables:\n'
                                 '        Missing right:\n'
                                 '         - w\n'
                                 '      Attributes:\n'
                                 '        Missing right:\n'
                                 '         - a\n'
                                 '         - b\n'
                                 '    Group /sub:\n'
                                 '      Variables:\n'
                                 '        Differing variables:\n'
                                 '           L v  (x)    int8  0 1\n'
                                 '           R v  (rows, cols)    Array(shape=(4, 3), dtype=int16, rpc=2)\n'
                                 '             url: memory:///path/to/file\n'
                                 '             n: 1\n'
                                 '      Attributes:\n'
                                 '        Missing right:\n'
                                 '         - s',
                                 None),
 'diff_tree-attrs-empty': ('ok',
                           'str',
                           'Left and right Group objects are not equal\n'
                           '  Differing tree structure:\n'
                           '    Missing right:\n'
                           '    - /sub\n'
                           '  Differing groups:\n'
                           '    Group /:\n'
                           '      Differing Url:\n'
                           '      L  mem://a\n'
                           '      R  mem://e\n'
                           '      Variables:\n'
                           '        Missing right:\n'
                           '         - v\n'
                           '         - w\n'
                           '      Attributes:\n'
                           '        Missing right:\n'
                           '         - a\n'
                           '         - b'),
 'assert_identical-attrs-empty': ('err',
                                  'AssertionError',
                                  'Left and right Group objects are not equal\n'
                                  '  Differing tree structure:\n'
                                  '    Missing right:\n'
                                  '    - /sub\n'
                                  '  Differing groups:\n'
                                  '    Group /:\n'
                                  '      Differing Url:\n'
                                  '      L  mem://a\n'
                                  '      R  mem://e\n'
                                  '      Variables:\n'
                                  '        Missing right:\n'
                                  '         - v\n'
                                  '         - w\n'
                                  '      Attributes:\n'
                                  '        Missing right:\n'
                                  '         - a\n'
                                  '         - b',
                                  None),
 'diff_tree-attrs-path': ('ok',
                          'str',
                          'Left and right Group objects are not equal\n'
                          '  Differing tree structure:\n'
                          '    Missing left:\n'
                          '    - /root\n'
                          '    - /root/sub\n'
                          '    Missing right:\n'
                          '    - /\n'
                          '    - /sub'),
 'assert_identical-attrs-path': ('err',
                                 'AssertionError',
                                 'Left and right Group objects are not equal\n'
                                 '  Differing tree structure:\n'
                                 '    Missing left:\n'
                                 '    - /root\n'
                                 '    - /root/sub\n'
                                 '    Missing right:\n'
                                 '    - /\n'
                                 '    - /sub',
                                 None),
 'diff_tree-url-base': ('ok',
                        'str',
                        'Left and right Group objects are not equal\n'
                        '  Differing groups:\n'
                        '    Group /:\n'
                        '      Differing Url:\n'
                        '      L  mem://b\n'
                        '      R  mem://a\n'
                        '    Group /sub:\n'
                        '      Differing Url:\n'
                        '      L  mem://b\n'
                        '      R  mem://a'),
 'assert_identical-url-base': ('err',
                               'AssertionError',
                               'Left and right Group objects are not equal\n'
                               '  Differing groups:\n'
                               '    Group /:\n'
                               '      Differing Url:\n'
                               '      L  mem://b\n'
                               '      R  mem://a\n'
                               '    Group /sub:\n'
                               '      Differing Url:\n'
                               '      L  mem://b\n'
                               '      R  mem://a',
                               None),
 'diff_tree-url-attrs': ('ok',
                         'str',
                         'Left and right Group objects are not equal\n'
                         '  Differing groups:\n'
                         '    Group /:\n'
                         '      Differing Url:\n'
                         '      L  mem://b\n'
                         '      R  mem://a\n'
                         '      Attributes:\n'
                         '        Missing left:\n'
                         '         - b\n'
                         '        Differing attributes:\n'
                         '           L a  1\n'
                         '           R a  2\n'
                         '    Group /sub:\n'
                         '      Differing Url:\n'
                         '      L  mem://b\n'
                         '      R  mem://a'),
 'assert_identical-url-attrs': ('err',
                                'AssertionError',
                                'Left and right Group objects are not equal\n'
                                '  Differing groups:\n'
                                '    Group /:\n'
                                '      Differing Url:\n'
                                '      L  mem://b\n'
                                '      R  mem://a\n'
                                '      Attributes:\n'
                                '        Missing left:\n'
                                '         - b\n'
                                '        Differing attributes:\n'
                                '           L a  1\n'
                                '           R a  2\n'
                                '    Group /sub:\n'
                                '      Differing Url:\n'
                                '      L  mem://b\n'
                                '      R  mem://a',
                                None),
 'diff_tree-url-url': ('ok', 'str', 'Left and right Group objects are not equal\n'),
 'assert_identical-url-url': ('ok', 'NoneType', None),
 'diff_tree-url-vars': ('ok',
                        'str',
                        'Left and right Group objects are not equal\n'
                        '  Differing groups:\n'
                        '    Group /:\n'
                        '      Differing Url:\n'
                        '      L  mem://b\n'
                        '      R  mem://a\n'
                        '      Variables:\n'
                        '        Missing left:\n'
                        '         - z\n'
                        '        Differing variables:\n'
                        '           L v  (x)    int8  0 1\n'
                        '           R v  (x)    int8  0 2\n'
                        '             a: 2\n'
                        '             c: 1\n'
                        '           L w  (x, y)    int32  0 1 2 3 4 5\n'
                        '             u: m\n'
                        '           R w  (y, x)    int32  0 1 2 3 4 5\n'
                        '             u: m\n'
                        '    Group /sub:\n'
                        '      Differing Url:\n'
                        '      L  mem://b\n'
                        '      R  mem://a'),
 'assert_identical-url-vars': ('err',
                               'AssertionError',
                               'Left and right Group objects are not equal\n'
                               '  Differing groups:\n'
                               '    Group /:\n'
                               '      Differing Url:\n'
                               '      L  mem://b\n'
                               '      R  mem://a\n'
                               '      Variables:\n'
                               '        Missing left:\n'
                               '         - z\n'
                               '        Differing variables:\n'
                               '           L v  (x)    int8  0 1\n'
                               '           R v  (x)    int8  0 2\n'
                               '             a: 2\n'
                               '             c: 1\n'
                               '           L w  (x, y)    int32  0 1 2 3 4 5\n'
                               '             u: m\n'
                               '           R w  (y, x)    int32  0 1 2 3 4 5\n'
                               '             u: m\n'
                               '    Group /sub:\n'
                               '      Differing Url:\n'
                               '      L  mem://b\n'
                               '      R  mem://a',
                               None),
 'diff_tree-url-missing-right': ('ok',
                                 'str',
                                 'Left and right Group objects are not equal\n'
                                 '  Differing tree structure:\n'
                                 '    Missing right:\n'
                                 '    - /sub\n'
                                 '  Differing groups:\n'
                                 '    Group /:\n'
                                 '      Differing Url:\n'
                                 '      L  mem://b\n'
                                 '      R  mem://a'),
 'assert_identical-url-missing-right': ('err',
                                        'AssertionError',
                                        'Left and right Group objects are not equal\n'
                                        '  Differing tree structure:\n'
                                        '    Missing right:\n'
                                        '    - /sub\n'
                                        '  Differing groups:\n'
                                        '    Group /:\n'
                                        '      Differing Url:\n'
                                        '      L  mem://b\n'
                                        '      R  mem://a',
                                        None),
 'diff_tree-url-extra': ('ok',
                         'str',
                         'Left and right Group objects are not equal\n'
                         '  Differing tree structure:\n'
                         '    Missing left:\n'
                         '    - /other\n'
                         '    - /other/sub2\n'
                         '  Differing groups:\n'
                         '    Group /:\n'
                         '      Differing Url:\n'
                         '      L  mem://b\n'
                         '      R  mem://a\n'
                         '    Group /sub:\n'
                         '      Differing Url:\n'
                         '      L  mem://b\n'
                         '      R  mem://a'),
 'assert_identical-url-extra': ('err',
                                'AssertionError',
                                'Left and right Group objects are not equal\n'
                                '  Differing tree structure:\n'
                                '    Missing left:\n'
                                '    - /other\n'
                                '    - /other/sub2\n'
                                '  Differing groups:\n'
                                '    Group /:\n'
                                '      Differing Url:\n'
                                '      L  mem://b\n'
                                '      R  mem://a\n'
                                '    Group /sub:\n'
                                '      Differing Url:\n'
                                '      L  mem://b\n'
                                '      R  mem://a',
                                None),
 'diff_tree-url-subdiff': ('ok',
                           'str',
                           'Left and right Group objects are not equal\n'
                           '  Differing groups:\n'
                           '    Group /:\n'
                           '      Differing Url:\n'
                           '      L  mem://b\n'
                           '      R  mem://a\n'
                           '    Group /sub:\n'
                           '      Differing Url:\n'
                           '      L  mem://b\n'
                           '      R  mem://a\n'
                           '      Variables:\n'
                           '        Missing left:\n'
                           '         - q\n'
                           '        Differing variables:\n'
                           '           L v  (x)    int8  0 1\n'
                           '           R v  (x)    int8  0 1\n'
                           '             a: 1\n'
                           '             b: b\n'
                           '      Attributes:\n'
                           '        Differing attributes:\n'
                           '           L s  1\n'
                           '           R s  2'),
 'assert_identical-url-subdiff': ('err',
                                  'AssertionError',
                                  'Left and right Group objects are not equal\n'
                                  '  Differing groups:\n'
                                  '    Group /:\n'
                                  '      Differing Url:\n'
                                  '      L  mem://b\n'
                                  '      R  mem://a\n'
                                  '    Group /sub:\n'
                                  '      Differing Url:\n'
                                  '      L  mem://b\n'
                                  '      R  mem://a\n'
                                  '      Variables:\n'
                                  '        Missing left:\n'
                                  '         - q\n'
                                  '        Differing variables:\n'
                                  '           L v  (x)    int8  0 1\n'
                                  '           R v  (x)    int8  0 1\n'
                                  '             a: 1\n'
                                  '             b: b\n'
                                  '      Attributes:\n'
                                  '        Differing attributes:\n'
                                  '           L s  1\n'
                                  '           R s  2',
                                  None),
 'diff_tree-url-both': ('ok',
                        'str',
                        'Left and right Group objects are not equal\n'
                        '  Differing tree structure:\n'
                        '    Missing left:\n'
                        '    - /left_only\n'
                        '  Differing groups:\n'
                        '    Group /:\n'
                        '      Differing Url:\n'
                        '      L  mem://b\n'
                        '      R  mem://a\n'
                        '      Variables:\n'
                        '        Missing right:\n'
                        '         - w\n'
                        '      Attributes:\n'
                        '        Missing right:\n'
                        '         - a\n'
                        '    Group /sub:\n'
                        '      Differing Url:\n'
                        '      L  mem://b\n'
                        '      R  mem://a\n'
                        '      Variables:\n'
                        '        Differing variables:\n'
                        '           L v  (x)    int8  0 1\n'
                        '           R v  (rows, cols)    Array(shape=(4, 3), dtype=int16, rpc=2)\n'
                        '             url: memory:///path/to/file\n'
                        '             n: 1\n'
                        '      Attributes:\n'
                        '        Missing right:\n'
                        '         - s'),
 'assert_identical-url-both': ('err',
                               'AssertionError',
                               'Left and right Group objects are not equal\n'
                               '  Differing tree structure:\n'
                               '    Missing left:\n'
                               '    - /left_only\n'
                               '  Differing groups:\n'
                               '    Group /:\n'
                               '      Differing Url:\n'
                               '      L  mem://b\n'
                               '      R  mem://a\n'
                               '      Variables:\n'
                               '        Missing right:\n'
                               '         - w\n'
                               '      Attributes:\n'
                               '        Missing right:\n'
                               '         - a\n'
                               '    Group /sub:\n'
                               '      Differing Url:\n'
                               '      L  mem://b\n'
                               '      R  mem://a\n'
                               '      Variables:\n'
                               '        Differing variables:\n'
                               '           L v  (x)    int8  0 1\n'
                               '           R v  (rows, cols)    Array(shape=(4, 3), dtype=int16, rpc=2)\n'
                               '             url: memory:///path/to/file\n'
                               '             n: 1\n'
                               '      Attributes:\n'
                               '        Missing right:\n'
                               '         - s',
                               None),
 'diff_tree-url-empty': ('ok',
                         'str',
                         'Left and right Group objects are not equal\n'
                         '  Differing tree structure:\n'
                         '    Missing right:\n'
                         '    - /sub\n'
                         '  Differing groups:\n'
                         '    Group /:\n'
                         '      Differing Url:\n'
                         '      L  mem://b\n'
                         '      R  mem://e\n'
                         '      Variables:\n'
                         '        Missing right:\n'
                         '         - v\n'
                         '         - w\n'
                         '      Attributes:\n'
                         '        Missing right:\n'
                         '         - a'),
 'assert_identical-url-empty': ('err',
                                'AssertionError',
                                'Left and right Group objects are not equal\n'
                                '  Differing tree structure:\n'
                                '    Missing right:\n'
                                '    - /sub\n'
                                '  Differing groups:\n'
                                '    Group /:\n'
                                '      Differing Url:\n'
                                '      L  mem://b\n'
                                '      R  mem://e\n'
                                '      Variables:\n'
                                '        Missing right:\n'
                                '         - v\n'
                                '         - w\n'
                                '      Attributes:\n'
                                '        Missing right:\n'
                                '         - a',
                                None),
 'diff_tree-url-path': ('ok',
                        'str',
                        'Left and right Group objects are not equal\n'
                        '  Differing tree structure:\n'
                        '    Missing left:\n'
                        '    - /root\n'
                        '    - /root/sub\n'
                        '    Missing right:\n'
                        '    - /\n'
                        '    - /sub'),
 'assert_identical-url-path': ('err',
                               'AssertionError',
                               'Left and right Group objects are not equal\n'
                               '  Differing tree structure:\n'
                               '    Missing left:\n'
                               '    - /root\n'
                               '    - /root/sub\n'
                               '    Missing right:\n'
                               '    - /\n'
                               '    - /sub',
                               None),
 'diff_tree-vars-base': ('ok',
                         'str',
                         'Left and right Group objects are not equal\n'
                         '  Differing groups:\n'
                         '    Group /:\n'
                         '      Variables:\n'
                         '        Missing right:\n'
                         '         - z\n'
                         '        Differing variables:\n'
                         '           L v  (x)    int8  0 2\n'
                         '             a: 2\n'
                         '             c: 1\n'
                         '           R v  (x)    int8  0 1\n'
                         '           L w  (y, x)    int32  0 1 2 3 4 5\n'
                         '             u: m\n'
                         '           R w  (x, y)    int32  0 1 2 3 4 5\n'
                         '             u: m'),
 'assert_identical-vars-base': ('err',
                                'AssertionError',
                                'Left and right Group objects are not equal\n'
                                '  Differing groups:\n'
                                '    Group /:\n'
                                '      Variables:\n'
                                '        Missing right:\n'
                                '         - z\n'
                                '        Differing variables:\n'
                                '           L v  (x)    int8  0 2\n'
                                '             a: 2\n'
                                '             c: 1\n'
                                '           R v  (x)    int8  0 1\n'
                                '           L w  (y, x)    int32  0 1 2 3 4 5\n'
                                '             u: m\n'
                                '           R w  (x, y)    int32  0 1 2 3 4 5\n'
                                '             u: m',
                                None),
 'diff_tree-vars-attrs': ('ok',
                          'str',
                          'Left and right Group objects are not equal\n'
                          '  Differing groups:\n'
                          '    Group /:\n'
                          '      Variables:\n'
                          '        Missing right:\n'
                          '         - z\n'
                          '        Differing variables:\n'
                          '           L v  (x)    int8  0 2\n'
                          '             a: 2\n'
                          '             c: 1\n'
                          '           R v  (x)    int8  0 1\n'
                          '           L w  (y, x)    int32  0 1 2 3 4 5\n'
                          '             u: m\n'
                          '           R w  (x, y)    int32  0 1 2 3 4 5\n'
                          '             u: m\n'
                          '      Attributes:\n'
                          '        Missing left:\n'
                          '         - b\n'
                          '        Differing attributes:\n'
                          '           L a  1\n'
                          '           R a  2'),
 'assert_identical-vars-attrs': ('err',
                                 'AssertionError',
                                 'Left and right Group objects are not equal\n'
                                 '  Differing groups:\n'
                                 '    Group /:\n'
                                 '      Variables:\n'
                                 '        Missing right:\n'
                                 '         - z\n'
                                 '        Differing variables:\n'
                                 '           L v  (x)    int8  0 2\n'
                                 '             a: 2\n'
                                 '             c: 1\n'
                                 '           R v  (x)    int8  0 1\n'
                                 '           L w  (y, x)    int32  0 1 2 3 4 5\n'
                                 '             u: m\n'
                                 '           R w  (x, y)    int32  0 1 2 3 4 5\n'
                                 '             u: m\n'
                                 '      Attributes:\n'
                                 '        Missing left:\n'
                                 '         - b\n'
                                 '        Differing attributes:\n'
                                 '           L a  1\n'
                                 '           R a  2',
                                 None),
 'diff_tree-vars-url': ('ok',
                        'str',
                        'Left and right Group objects are not equal\n'
                        '  Differing groups:\n'
                        '    Group /:\n'
                        '      Differing Url:\n'
                        '      L  mem://a\n'
                        '      R  mem://b\n'
                        '      Variables:\n'
                        '        Missing right:\n'
                        '         - z\n'
                        '        Differing variables:\n'
                        '           L v  (x)    int8  0 2\n'
                        '             a: 2\n'
                        '             c: 1\n'
                        '           R v  (x)    int8  0 1\n'
                        '           L w  (y, x)    int32  0 1 2 3 4 5\n'
                        '             u: m\n'
                        '           R w  (x, y)    int32  0 1 2 3 4 5\n'
                        '             u: m\n'
                        '    Group /sub:\n'
                        '      Differing Url:\n'
                        '      L  mem://a\n'
                        '      R  mem://b'),
 'assert_identical-vars-url': ('err',
                               'AssertionError',
                               'Left and right Group objects are not equal\n'
                               '  Differing groups:\n'
                               '    Group /:\n'
                               '      Differing Url:\n'
                               '      L  mem://a\n'
                               '      R  mem://b\n'
                               '      Variables:\n'
                               '        Missing right:\n'
                               '         - z\n'
                               '        Differing variables:\n'
                               '           L v  (x)    int8  0 2\n'
                               '             a: 2\n'
                               '             c: 1\n'
                               '           R v  (x)    int8  0 1\n'
                               '           L w  (y, x)    int32  0 1 2 3 4 5\n'
                               '             u: m\n'
                               '           R w  (x, y)    int32  0 1 2 3 4 5\n'
                               '             u: m\n'
                               '    Group /sub:\n'
                               '      Differing Url:\n'
                               '      L  mem://a\n'
                               '      R  mem://b',
                               None),
 'diff_tree-vars-vars': ('ok', 'str', 'Left and right Group objects are not equal\n'),
 'assert_identical-vars-vars': ('ok', 'NoneType', None),
 'diff_tree-vars-missing-right': ('ok',
                                  'str',
                                  'Left and right Group objects are not equal\n'
                                  '  Differing tree structure:\n'
                                  '    Missing right:\n'
                                  '    - /sub\n'
                                  '  Differing groups:\n'
                                  '    Group /:\n'
                                  '      Variables:\n'
                                  '        Missing right:\n'
                                  '         - z\n'
                                  '        Differing variables:\n'
                                  '           L v  (x)    int8  0 2\n'
                                  '             a: 2\n'
                                  '             c: 1\n'
                                  '           R v  (x)    int8  0 1\n'
                                  '           L w  (y, x)    int32  0 1 2 3 4 5\n'
                                  '             u: m\n'
                                  '           R w  (x, y)    int32  0 1 2 3 4 5\n'
                                  '             u: m'),
 'assert_identical-vars-missing-right': ('err',
                                         'AssertionError',
                                         'Left and right Group objects are not equal\n'
                                         '  Differing tree structure:\n'
                                         '    Missing right:\n'
                                         '    - /sub\n'
                                         '  Differing groups:\n'
                                         '    Group /:\n'
                                         '      Variables:\n'
                                         '        Missing right:\n'
                                         '         - z\n'
                                         '        Differing variables:\n'
                                         '           L v  (x)    int8  0 2\n'
                                         '             a: 2\n'
                                         '             c: 1\n'
                                         '           R v  (x)    int8  0 1\n'
                                         '           L w  (y, x)    int32  0 1 2 3 4 5\n'
                                         '             u: m\n'
                                         '           R w  (x, y)    int32  0 1 2 3 4 5\n'
                                         '             u: m',
                                         None),
 'diff_tree-vars-extra': ('ok',
                          'str',
                          'Left and right Group objects are not equal\n'
                          '  Differing tree structure:\n'
                          '    Missing left:\n'
                          '    - /other\n'
                          '    - /other/sub2\n'
                          '  Differing groups:\n'
                          '    Group /:\n'
                          '      Variables:\n'
                          '        Missing right:\n'
                          '         - z\n'
                          '        Differing variables:\n'
                          '           L v  (x)    int8  0 2\n'
                          '             a: 2\n'
                          '             c: 1\n'
                          '           R v  (x)    int8  0 1\n'
                          '           L w  (y, x)    int32  0 1 2 3 4 5\n'
                          '             u: m\n'
                          '           R w  (x, y)    int32  0 1 2 3 4 5\n'
                          '             u: m'),
 'assert_identical-vars-extra': ('err',
                                 'AssertionError',
                                 'Left and right Group objects are not equal\n'
                                 '  Differing tree structure:\n'
                                 '    Missing left:\n'
                                 '    - /other\n'
                                 '    - /other/sub2\n'
                                 '  Differing groups:\n'
                                 '    Group /:\n'
                                 '      Variables:\n'
                                 '        Missing right:\n'
                                 '         - z\n'
                                 '        Differing variables:\n'
                                 '           L v  (x)    int8  0 2\n'
                                 '             a: 2\n'
                                 '             c: 1\n'
                                 '           R v  (x)    int8  0 1\n'
                                 '           L w  (y, x)    int32  0 1 2 3 4 5\n'
                                 '             u: m\n'
                                 '           R w  (x, y)    int32  0 1 2 3 4 5\n'
                                 '             u: m',
                                 None),
 'diff_tree-vars-subdiff': ('ok',
                            'str',
                            'Left and right Group objects are not equal\n'
                            '  Differing groups:\n'
                            '    Group /:\n'
                            '      Variables:\n'
                            '        Missing right:\n'
                            '         - z\n'
                            '        Differing variables:\n'
                            '           L v  (x)    int8  0 2\n'
                            '             a: 2\n'
                            '             c: 1\n'
                            '           R v  (x)    int8  0 1\n'
                            '           L w  (y, x)    int32  0 1 2 3 4 5\n'
                            '             u: m\n'
                            '           R w  (x, y)    int32  0 1 2 3 4 5\n'
                            '             u: m\n'
                            '    Group /sub:\n'
                            '      Variables:\n'
                            '        Missing left:\n'
                            '         - q\n'
                            '        Differing variables:\n'
                            '           L v  (x)    int8  0 1\n'
                            '           R v  (x)    int8  0 1\n'
                            '             a: 1\n'
                            '             b: b\n'
                            '      Attributes:\n'
                            '        Differing attributes:\n'
                            '           L s  1\n'
                            '           R s  2'),
 'assert_identical-vars-subdiff': ('err',
                                   'AssertionError',
                                   'Left and right Group objects are not equal\n'
                                   '  Differing groups:\n'
                                   '    Group /:\n'
                                   '      Variables:\n'
                                   '        Missing right:\n'
                                   '         - z\n'
                                   '        Differing variables:\n'
                                   '           L v  (x)    int8  0 2\n'
                                   '             a: 2\n'
                                   '             c: 1\n'
                                   '           R v  (x)    int8  0 1\n'
                                   '           L w  (y, x)    int32  0 1 2 3 4 5\n'
                                   '             u: m\n'
                                   '           R w  (x, y)    int32  0 1 2 3 4 5\n'
                                   '             u: m\n'
                                   '    Group /sub:\n'
                                   '      Variables:\n'
                                   '        Missing left:\n'
                                   '         - q\n'
                                   '        Differing variables:\n'
                                   '           L v  (x)    int8  0 1\n'
                                   '           R v  (x)    int8  0 1\n'
                                   '             a: 1\n'
                                   '             b: b\n'
                                   '      Attributes:\n'
                                   '        Differing attributes:\n'
                                   '           L s  1\n'
                                   '           R s  2',
                                   None),
 'diff_tree-vars-both': ('ok',
                         'str',
                         'Left and right Group objects are not equal\n'
                         '  Differing tree structure:\n'
                         '    Missing left:\n'
                         '    - /left_only\n'
                         '  Differing groups:\n'
                         '    Group /:\n'
                         '      Variables:\n'
                         '        Missing right:\n'
                         '         - w\n'
                         '         - z\n'
                         '        Differing variables:\n'
                         '           L v  (x)    int8  0 2\n'
                         '             a: 2\n'
                         '             c: 1\n'
                         '           R v  (x)    int8  0 1\n'
                         '      Attributes:\n'
                         '        Missing right:\n'
                         '         - a\n'
                         '    Group /sub:\n'
                         '      Variables:\n'
                         '        Differing variables:\n'
                         '           L v  (x)    int8  0 1\n'
                         '           R v  (rows, cols)    Array(shape=(4, 3), dtype=int16, rpc=2)\n'
                         '             url: memory:///path/to/file\n'
                         '             n: 1\n'
                         '      Attributes:\n'
                         '        Missing right:\n'
                         '         - s'),
 'assert_identical-vars-both': ('err',
                                'AssertionError',
                                'Left and right Group objects are not equal\n'
                                '  Differing tree structure:\n'
                                '    Missing left:\n'
                                '    - /left_only\n'
                                '  Differing groups:\n'
                                '    Group /:\n'
                                '      Variables:\n'
                                '        Missing right:\n'
                                '         - w\n'
                                '         - z\n'
                                '        Differing variables:\n'
                                '           L v  (x)    int8  0 2\n'
                                '             a: 2\n'
                                '             c: 1\n'
                                '           R v  (x)    int8  0 1\n'
                                '      Attributes:\n'
                                '        Missing right:\n'
                                '         - a\n'
                                '    Group /sub:\n'
                                '      Variables:\n'
                                '        Differing variables:\n'
                                '           L v  (x)    int8  0 1\n'
                                '           R v  (rows, cols)    Array(shape=(4, 3), dtype=int16, rpc=2)\n'
                                '             url: memory:///path/to/file\n'
                                '             n: 1\n'
                                '      Attributes:\n'
                                '        Missing right:\n'
                                '         - s',
                                None),
 'diff_tree-vars-empty': ('ok',
                          'str',
                          'Left and right Group objects are not equal\n'
                          '  Differing tree structure:\n'
                          '    Missing right:\n'
                          '    - /sub\n'
                          '  Differing groups:\n'
                          '    Group /:\n'
                          '      Differing Url:\n'
                          '      L  mem://a\n'
                          '      R  mem://e\n'
                          '      Variables:\n'
                          '        Missing right:\n'
                          '         - v\n'
                          '         - w\n'
                          '         - z\n'
                          '      Attributes:\n'
                          '        Missing right:\n'
                          '         - a'),
 'assert_identical-vars-empty': ('err',
                                 'AssertionError',
                                 'Left and right Group objects are not equal\n'
                                 '  Differing tree structure:\n'
                                 '    Missing right:\n'
                                 '    - /sub\n'
                                 '  Differing groups:\n'
                                 '    Group /:\n'
                                 '      Differing Url:\n'
                                 '      L  mem://a\n'
                                 '      R  mem://e\n'
                                 '      Variables:\n'
                                 '        Missing right:\n'
                                 '         - v\n'
                                 '         - w\n'
                                 '         - z\n'
                                 '      Attributes:\n'
                                 '        Missing right:\n'
                                 '         - a',
                                 None),
 'diff_tree-vars-path': ('ok',
                         'str',
                         'Left and right Group objects are not equal\n'
                         '  Differing tree structure:\n'
                         '    Missing left:\n'
                         '    - /root\n'
                         '    - /root/sub\n'
                         '    Missing right:\n'
                         '    - /\n'
                         '    - /sub'),
 'assert_identical-vars-path': ('err',
                                'AssertionError',
                                'Left and right Group objects are not equal\n'
                                '  Differing tree structure:\n'
                                '    Missing left:\n'
                                '    - /root\n'
                                '    - /root/sub\n'
                                '    Missing right:\n'
                                '    - /\n'
                                '    - /sub',
                                None),
 'diff_tree-missing-right-base': ('ok',
                                  'str',
                                  'Left and right Group objects are not equal\n'
                                  '  Differing tree structure:\n'
                                  '    Missing left:\n'
                                  '    - /sub'),
 'assert_identical-missing-right-base': ('err',
                                         'AssertionError',
                                         'Left and right Group objects are not equal\n'
                                         '  Differing tree structure:\n'
                                         '    Missing left:\n'
                                         '    - /sub',
                                         None),
 'diff_tree-missing-right-attrs': ('ok',
                                   'str',
                                   'Left and right Group objects are not equal\n'
                                   '  Differing tree structure:\n'
                                   '    Missing left:\n'
                                   '    - /sub\n'
                                   '  Differing groups:\n'
                                   '    Group /:\n'
                                   '      Attributes:\n'
                                   '        Missing left:\n'
                                   '         - b\n'
                                   '        Differing attributes:\n'
                                   '           L a  1\n'
                                   '           R a  2'),
 'assert_identical-missing-right-attrs': ('err',
                                          'AssertionError',
                                          'Left and right Group objects are not equal\n'
                                          '  Differing tree structure:\n'
                                          '    Missing left:\n'
                                          '    - /sub\n'
                                          '  Differing groups:\n'
                                          '    Group /:\n'
                                          '      Attributes:\n'
                                          '        Missing left:\n'
                                          '         - b\n'
                                          '        Differing attributes:\n'
                                          '           L a  1\n'
                                          '           R a  2',
                                          None),
 'diff_tree-missing-right-url': ('ok',
                                 'str',
                                 'Left and right Group objects are not equal\n'
                                 '  Differing tree structure:\n'
                                 '    Missing left:\n'
                                 '    - /sub\n'
                                 '  Differing groups:\n'
                                 '    Group /:\n'
                                 '      Differing Url:\n'
                                 '      L  mem://a\n'
                                 '      R  mem://b'),
 'assert_identical-missing-right-url': ('err',
                                        'AssertionError',
                                        'Left and right Group objects are not equal\n'
                                        '  Differing tree structure:\n'
                                        '    Missing left:\n'
                                        '    - /sub\n'
                                        '  Differing groups:\n'
                                        '    Group /:\n'
                                        '      Differing Url:\n'
                                        '      L  mem://a\n'
                                        '      R  mem://b',
                                        None),
 'diff_tree-missing-right-vars': ('ok',
                                  'str',
                                  'Left and right Group objects are not equal\n'
                                  '  Differing tree structure:\n'
                                  '    Missing left:\n'
                                  '    - /sub\n'
                                  '  Differing groups:\n'
                                  '    Group /:\n'
                                  '      Variables:\n'
                                  '        Missing left:\n'
                                  '         - z\n'
                                  '        Differing variables:\n'
                                  '           L v  (x)    int8  0 1\n'
                                  '           R v  (x)    int8  0 2\n'
                                  '             a: 2\n'
                                  '             c: 1\n'
                                  '           L w  (x, y)    int32  0 1 2 3 4 5\n'
                                  '             u: m\n'
                                  '           R w  (y, x)    int32  0 1 2 3 4 5\n'
                                  '             u: m'),
 'assert_identical-missing-right-vars': ('err',
                                         'AssertionError',
                                         'Left and right Group objects are not equal\n'
                                         '  Differing tree structure:\n'
                                         '    Missing left:\n'
                                         '    - /sub\n'
                                         '  Differing groups:\n'
                                         '    Group /:\n'
                                         '      Variables:\n'
                                         '        Missing left:\n'
                                         '         - z\n'
                                         '        Differing variables:\n'
                                         '           L v  (x)    int8  0 1\n'
                                         '           R v  (x)    int8  0 2\n'
                                         '             a: 2\n'
                                         '             c: 1\n'
                                         '           L w  (x, y)    int32  0 1 2 3 4 5\n'
                                         '             u: m\n'
                                         '           R w  (y, x)    int32  0 1 2 3 4 5\n'
                                         '             u: m',
                                         None),
 'diff_tree-missing-right-missing-right': ('ok', 'str', 'Left and right Group objects are not equal\n'),
 'assert_identical-missing-right-missing-right': ('ok', 'NoneType', None),
 'diff_tree-missing-right-extra': ('ok',
                                   'str',
                                   'Left and right Group objects are not equal\n'
                                   '  Differing tree structure:\n'
                                   '    Missing left:\n'
                                   '    - /sub\n'
                                   '    - /other\n'
                                   '    - /other/sub2'),
 'assert_identical-missing-right-extra': ('err',
                                          'AssertionError',
                                          'Left and right Group objects are not equal\n'
                                          '  Differing tree structure:\n'
                                          '    Missing left:\n'
                                          '    - /sub\n'
                                          '    - /other\n'
                                          '    - /other/sub2',
                                          None),
 'diff_tree-missing-right-subdiff': ('ok',
                                     'str',
                                     'Left and right Group objects are not equal\n'
                                     '  Differing tree structure:\n'
                                     '    Missing left:\n'
                                     '    - /sub'),
 'assert_identical-missing-right-subdiff': ('err',
                                            'AssertionError',
                                            'Left and right Group objects are not equal\n'
                                            '  Differing tree structure:\n'
                                            '    Missing left:\n'
                                            '    - /sub',
                                            None),
 'diff_tree-missing-right-both': ('ok',
                                  'str',
                                  'Left and right Group objects are not equal\n'
                                  '  Differing tree structure:\n'
                                  '    Missing left:\n'
                                  '    - /left_only\n'
                                  '    - /sub\n'
                                  '  Differing groups:\n'
                                  '    Group /:\n'
                                  '      Variables:\n'
                                  '        Missing right:\n'
                                  '         - w\n'
                                  '      Attributes:\n'
                                  '        Missing right:\n'
                                  '         - a'),
 'assert_identical-missing-right-both': ('err',
                                         'AssertionError',
                                         'Left and right Group objects are not equal\n'
                                         '  Differing tree structure:\n'
                                         '    Missing left:\n'
                                         '    - /left_only\n'
                                         '    - /sub\n'
                                         '  Differing groups:\n'
                                         '    Group /:\n'
                                         '      Variables:\n'
                                         '        Missing right:\n'
                                         '         - w\n'
                                         '      Attributes:\n'
                                         '        Missing right:\n'
                                         '         - a',
                                         None),
 'diff_tree-missing-right-empty': ('ok',
                                   'str',
                                   'Left and right Group objects are not equal\n'
                                   '  Differing groups:\n'
                                   '    Group /:\n'
                                   '      Differing Url:\n'
                                   '      L  mem://a\n'
                                   '      R  mem://e\n'
                                   '      Variables:\n'
                                   '        Missing right:\n'
                                   '         - v\n'
                                   '         - w\n'
                                   '      Attributes:\n'
                                   '        Missing right:\n'
                                   '         - a'),
 'assert_identical-missing-right-empty': ('err',
                                          'AssertionError',
                                          'Left and right Group objects are not equal\n'
                                          '  Differing groups:\n'
                                          '    Group /:\n'
                                          '      Differing Url:\n'
                                          '      L  mem://a\n'
                                          '      R  mem://e\n'
                                          '      Variables:\n'
                                          '        Missing right:\n'
                                          '         - v\n'
                                          '         - w\n'
                                          '      Attributes:\n'
                                          '        Missing right:\n'
                                          '         - a',
                                          None),
 'diff_tree-missing-right-path': ('ok',
                                  'str',
                                  'Left and right Group objects are not equal\n'
                                  '  Differing tree structure:\n'
                                  '    Missing left:\n'
                                  '    - /root\n'
                                  '    - /root/sub\n'
                                  '    Missing right:\n'
                                  '    - /'),
 'assert_identical-missing-right-path': ('err',
                                         'AssertionError',
                                         'Left and right Group objects are not equal\n'
                                         '  Differing tree structure:\n'
                                         '    Missing left:\n'
                                         '    - /root\n'
                                         '    - /root/sub\n'
                                         '    Missing right:\n'
                                         '    - /',
                                         None),
 'diff_tree-extra-base': ('ok',
                          'str',
                          'Left and right Group objects are not equal\n'
                          '  Differing tree structure:\n'
                          '    Missing right:\n'
                          '    - /other\n'
                          '    - /other/sub2'),
 'assert_identical-extra-base': ('err',
                                 'AssertionError',
                                 'Left and right Group objects are not equal\n'
                                 '  Differing tree structure:\n'
                                 '    Missing right:\n'
                                 '    - /other\n'
                                 '    - /other/sub2',
                                 None),
 'diff_tree-extra-attrs': ('ok',
                           'str',
                           'Left and right Group objects are not equal\n'
                           '  Differing tree structure:\n'
                           '    Missing right:\n'
                           '    - /other\n'
                           '    - /other/sub2\n'
                           '  Differing groups:\n'
                           '    Group /:\n'
                           '      Attributes:\n'
                           '        Missing left:\n'
                           '         - b\n'
                           '        Differing attributes:\n'
                           '           L a  1\n'
                           '           R a  2'),
 'assert_identical-extra-attrs': ('err',
                                  'AssertionError',
                                  'Left and right Group objects are not equal\n'
                                  '  Differing tree structure:\n'
                                  '    Missing right:\n'
                                  '    - /other\n'
                                  '    - /other/sub2\n'
                                  '  Differing groups:\n'
                                  '    Group /:\n'
                                  '      Attributes:\n'
                                  '        Missing left:\n'
                                  '         - b\n'
                                  '        Differing attributes:\n'
                                  '           L a  1\n'
                                  '           R a  2',
                                  None),
 'diff_tree-extra-url': ('ok',
                         'str',
                         'Left and right Group objects are not equal\n'
                         '  Differing tree structure:\n'
                         '    Missing right:\n'
                         '    - /other\n'
                         '    - /other/sub2\n'
                         '  Differing groups:\n'
                         '    Group /:\n'
                         '      Differing Url:\n'
                         '      L  mem://a\n'
                         '      R  mem://b\n'
                         '    Group /sub:\n'
                         '      Differing Url:\n'
                         '      L  mem://a\n'
                         '      R  mem://b'),
 'assert_identical-extra-url': ('err',
                                'AssertionError',
                                'Left and right Group objects are not equal\n'
                                '  Differing tree structure:\n'
                                '    Missing right:\n'
                                '    - /other\n'
                                '    - /other/sub2\n'
                                '  Differing groups:\n'
                                '    Group /:\n'
                                '      Differing Url:\n'
                                '      L  mem://a\n'
                                '      R  mem://b\n'
                                '    Group /sub:\n'
                                '      Differing Url:\n'
                                '      L  mem://a\n'
                                '      R  mem://b',
                                None),
 'diff_tree-extra-vars': ('ok',
                          'str',
                          'Left and right Group objects are not equal\n'
                          '  Differing tree structure:\n'
                          '    Missing right:\n'
                          '    - /other\n'
                          '    - /other/sub2\n'
                          '  Differing groups:\n'
                          '    Group /:\n'
                          '      Variables:\n'
                          '        Missing left:\n'
                          '         - z\n'
                          '        Differing variables:\n'
                          '           L v  (x)    int8  0 1\n'
                          '           R v  (x)    int8  0 2\n'
                          '             a: 2\n'
                          '             c: 1\n'
                          '           L w  (x, y)    int32  0 1 2 3 4 5\n'
                          '             u: m\n'
                          '           R w  (y, x)    int32  0 1 2 3 4 5\n'
                          '             u: m'),
 'assert_identical-extra-vars': ('err',
                                 'AssertionError',
                                 'Left and right Group objects are not equal\n'
                                 '  Differing tree structure:\n'
                                 '    Missing right:\n'
                                 '    - /other\n'
                                 '    - /other/sub2\n'
                                 '  Differing groups:\n'
                                 '    Group /:\n'
                                 '      Variables:\n'
                                 '        Missing left:\n'
                                 '         - z\n'
                                 '        Differing variables:\n'
                                 '           L v  (x)    int8  0 1\n'
                                 '           R v  (x)    int8  0 2\n'
                                 '             a: 2\n'
                                 '             c: 1\n'
                                 '           L w  (x, y)    int32  0 1 2 3 4 5\n'
                                 '             u: m\n'
                                 '           R w  (y, x)    int32  0 1 2 3 4 5\n'
                                 '             u: m',
                                 None),
 'diff_tree-extra-missing-right': ('ok',
                                   'str',
                                   'Left and right Group objects are not equal\n'
                                   '  Differing tree structure:\n'
                                   '    Missing right:\n'
                                   '    - /sub\n'
                                   '    - /other\n'
                                   '    - /other/sub2'),
 'assert_identical-extra-missing-right': ('err',
                                          'AssertionError',
                                          'Left and right Group objects are not equal\n'
                                          '  Differing tree structure:\n'
                                          '    Missing right:\n'
                                          '    - /sub\n'
                                          '    - /other\n'
                                          '    - /other/sub2',
                                          None),
 'diff_tree-extra-extra': ('ok', 'str', 'Left and right Group objects are not equal\n'),
 'assert_identical-extra-extra': ('ok', 'NoneType', None),
 'diff_tree-extra-subdiff': ('ok',
                             'str',
                             'Left and right Group objects are not equal\n'
                             '  Differing tree structure:\n'
                             '    Missing right:\n'
                             '    - /other\n'
                             '    - /other/sub2\n'
                             '  Differing groups:\n'
                             '    Group /sub:\n'
                             '      Variables:\n'
                             '        Missing left:\n'
                             '         - q\n'
                             '        Differing variables:\n'
                             '           L v  (x)    int8  0 1\n'
                             '           R v  (x)    int8  0 1\n'
                             '             a: 1\n'
                             '             b: b\n'
                             '      Attributes:\n'
                             '        Differing attributes:\n'
                             '           L s  1\n'
                             '           R s  2'),
 'assert_identical-extra-subdiff': ('err',
                                    'AssertionError',
                                    'Left and right Group objects are not equal\n'
                                    '  Differing tree structure:\n'
                                    '    Missing right:\n'
                                    '    - /other\n'
                                    '    - /other/sub2\n'
                                    '  Differing groups:\n'
                                    '    Group /sub:\n'
                                    '      Variables:\n'
                                    '        Missing left:\n'
                                    '         - q\n'
                                    '        Differing variables:\n'
                                    '           L v  (x)    int8  0 1\n'
                                    '           R v  (x)    int8  0 1\n'
                                    '             a: 1\n'
                                    '             b: b\n'
                                    '      Attributes:\n'
                                    '        Differing attributes:\n'
                                    '           L s  1\n'
                                    '           R s  2',
                                    None),
 'diff_tree-extra-both': ('ok',
                          'str',
                          'Left and right Group objects are not equal\n'
                          '  Differing tree structure:\n'
                          '    Missing left:\n'
                          '    - /left_only\n'
                          '    Missing right:\n'
                          '    - /other\n'
                          '    - /other/sub2\n'
                          '  Differing groups:\n'
                          '    Group /:\n'
                          '      Variables:\n'
                          '        Missing right:\n'
                          '         - w\n'
                          '      Attributes:\n'
                          '        Missing right:\n'
                          '         - a\n'
                          '    Group /sub:\n'
                          '      Variables:\n'
                          '        Differing variables:\n'
                          '           L v  (x)    int8  0 1\n'
                          '           R v  (rows, cols)    Array(shape=(4, 3), dtype=int16, rpc=2)\n'
                          '             url: memory:///path/to/file\n'
                          '             n: 1\n'
                          '      Attributes:\n'
                          '        Missing right:\n'
                          '         - s'),
 'assert_identical-extra-both': ('err',
                                 'AssertionError',
                                 'Left and right Group objects are not equal\n'
                                 '  Differing tree structure:\n'
                                 '    Missing left:\n'
                                 '    - /left_only\n'
                                 '    Missing right:\n'
                                 '    - /other\n'
                                 '    - /other/sub2\n'
                                 '  Differing groups:\n'
                                 '    Group /:\n'
                                 '      Variables:\n'
                                 '        Missing right:\n'
                                 '         - w\n'
                                 '      Attributes:\n'
                                 '        Missing right:\n'
                                 '         - a\n'
                                 '    Group /sub:\n'
                                 '      Variables:\n'
                                 '        Differing variables:\n'
                                 '           L v  (x)    int8  0 1\n'
                                 '           R v  (rows, cols)    Array(shape=(4, 3), dtype=int16, rpc=2)\n'
                                 '             url: memory:///path/to/file\n'
                                 '             n: 1\n'
                                 '      Attributes:\n'
                                 '        Missing right:\n'
                                 '         - s',
                                 None),
 'diff_tree-extra-empty': ('ok',
                           'str',
                           'Left and right Group objects are not equal\n'
                           '  Differing tree structure:\n'
                           '    Missing right:\n'
                           '    - /sub\n'
                           '    - /other\n'
                           '    - /other/sub2\n'
                           '  Differing groups:\n'
                           '    Group /:\n'
                           '      Differing Url:\n'
                           '      L  mem://a\n'
                           '      R  mem://e\n'
                           '      Variables:\n'
                           '        Missing right:\n'
                           '         - v\n'
                           '         - w\n'
                           '      Attributes:\n'
                           '        Missing right:\n'
                           '         - a'),
 'assert_identical-extra-empty': ('err',
                                  'AssertionError',
                                  'Left and right Group objects are not equal\n'
                                  '  Differing tree structure:\n'
                                  '    Missing right:\n'
                                  '    - /sub\n'
                                  '    - /other\n'
                                  '    - /other/sub2\n'
                                  '  Differing groups:\n'
                                  '    Group /:\n'
                                  '      Differing Url:\n'
                                  '      L  mem://a\n'
                                  '      R  mem://e\n'
                                  '      Variables:\n'
                                  '        Missing right:\n'
                                  '         - v\n'
                                  '         - w\n'
                                  '      Attributes:\n'
                                  '        Missing right:\n'
                                  '         - a',
                                  None),
 'diff_tree-extra-path': ('ok',
                          'str',
                          'Left and right Group objects are not equal\n'
                          '  Differing tree structure:\n'
                          '    Missing left:\n'
                          '    - /root\n'
                          '    - /root/sub\n'
                          '    Missing right:\n'
                          '    - /\n'
                          '    - /sub\n'
                          '    - /other\n'
                          '    - /other/sub2'),
 'assert_identical-extra-path': ('err',
                                 'AssertionError',
                                 'Left and right Group objects are not equal\n'
                                 '  Differing tree structure:\n'
                                 '    Missing left:\n'
                                 '    - /root\n'
                                 '    - /root/sub\n'
                                 '    Missing right:\n'
                                 '    - /\n'
                                 '    - /sub\n'
                                 '    - /other\n'
                                 '    - /other/sub2',
                                 None),
 'diff_tree-subdiff-base': ('ok',
                            'str',
                            'Left and right Group objects are not equal\n'
                            '  Differing groups:\n'
                            '    Group /sub:\n'
                            '      Variables:\n'
                            '        Missing right:\n'
                            '         - q\n'
                            '        Differing variables:\n'
                            '           L v  (x)    int8  0 1\n'
                            '             a: 1\n'
                            '             b: b\n'
                            '           R v  (x)    int8  0 1\n'
                            '      Attributes:\n'
                            '        Differing attributes:\n'
                            '           L s  2\n'
                            '           R s  1'),
 'assert_identical-subdiff-base': ('err',
                                   'AssertionError',
                                   'Left and right Group objects are not equal\n'
                                   '  Differing groups:\n'
                                   '    Group /sub:\n'
                                   '      Variables:\n'
                                   '        Missing right:\n'
                                   '         - q\n'
                                   '        Differing variables:\n'
                                   '           L v  (x)    int8  0 1\n'
                                   '             a: 1\n'
                                   '             b: b\n'
                                   '           R v  (x)    int8  0 1\n'
                                   '      Attributes:\n'
                                   '        Differing attributes:\n'
                                   '           L s  2\n'
                                   '           R s  1',
                                   None),
 'diff_tree-subdiff-attrs': ('ok',
                             'str',
                             'Left and right Group objects are not equal\n'
                             '  Differing groups:\n'
                             '    Group /:\n'
                             '      Attributes:\n'
                             '        Missing left:\n'
                             '         - b\n'
                             '        Differing attributes:\n'
                             '           L a  1\n'
                             '           R a  2\n'
                             '    Group /sub:\n'
                             '      Variables:\n'
                             '        Missing right:\n'
                             '         - q\n'
                             '        Differing variables:\n'
                             '           L v  (x)    int8  0 1\n'
                             '             a: 1\n'
                             '             b: b\n'
                             '           R v  (x)    int8  0 1\n'
                             '      Attributes:\n'
                             '        Differing attributes:\n'
                             '           L s  2\n'
                             '           R s  1'),
 'assert_identical-subdiff-attrs': ('err',
                                    'AssertionError',
                                    'Left and right Group objects are not equal\n'
                                    '  Differing groups:\n'
                                    '    Group /:\n'
                                    '      Attributes:\n'
                                    '        Missing left:\n'
                                    '         - b\n'
                                    '        Differing attributes:\n'
                                    '           L a  1\n'
                                    '           R a  2\n'
                                    '    Group /sub:\n'
                                    '      Variables:\n'
                                    '        Missing right:\n'
                                    '         - q\n'
                                    '        Differing variables:\n'
                                    '           L v  (x)    int8  0 1\n'
                                    '             a: 1\n'
                                    '             b: b\n'
                                    '           R v  (x)    int8  0 1\n'
                                    '      Attributes:\n'
                                    '        Differing attributes:\n'
                                    '           L s  2\n'
                                    '           R s  1',
                                    None),
 'diff_tree-subdiff-url': ('ok',
                           'str',
                           'Left and right Group objects are not equal\n'
                           '  Differing groups:\n'
                           '    Group /:\n'
                           '      Differing Url:\n'
                           '      L  mem://a\n'
                           '      R  mem://b\n'
                           '    Group /sub:\n'
                           '      Differing Url:\n'
                           '      L  mem://a\n'
                           '      R  mem://b\n'
                           '      Variables:\n'
                           '        Missing right:\n'
                           '         - q\n'
                           '        Differing variables:\n'
                           '           L v  (x)    int8  0 1\n'
                           '             a: 1\n'
                           '             b: b\n'
                           '           R v  (x)    int8  0 1\n'
                           '      Attributes:\n'
                           '        Differing attributes:\n'
                           '           L s  2\n'
                           '           R s  1'),
 'assert_identical-subdiff-url': ('err',
                                  'AssertionError',
                                  'Left and right Group objects are not equal\n'
                                  '  Differing groups:\n'
                                  '    Group /:\n'
                                  '      Differing Url:\n'
                                  '      L  mem://a\n'
                                  '      R  mem://b\n'
                                  '    Group /sub:\n'
                                  '      Differing Url:\n'
                                  '      L  mem://a\n'
                                  '      R  mem://b\n'
                                  '      Variables:\n'
                                  '        Missing right:\n'
                                  '         - q\n'
                                  '        Differing variables:\n'
                                  '           L v  (x)    int8  0 1\n'
                                  '             a: 1\n'
                                  '             b: b\n'
                                  '           R v  (x)    int8  0 1\n'
                                  '      Attributes:\n'
                                  '        Differing attributes:\n'
                                  '           L s  2\n'
                                  '           R s  1',
                                  None),
 'diff_tree-subdiff-vars': ('ok',
                            'str',
                            'Left and right Group objects are not equal\n'
                            '  Differing groups:\n'
                            '    Group /:\n'
                            '      Variables:\n'
                            '        Missing left:\n'
                            '         - z\n'
                            '        Differing variables:\n'
                            '           L v  (x)    int8  0 1\n'
                            '           R v  (x)    int8  0 2\n'
                            '             a: 2\n'
                            '             c: 1\n'
                            '           L w  (x, y)    int32  0 1 2 3 4 5\n'
                            '             u: m\n'
                            '           R w  (y, x)    int32  0 1 2 3 4 5\n'
                            '             u: m\n'
                            '    Group /sub:\n'
                            '      Variables:\n'
                            '        Missing right:\n'
                            '         - q\n'
                            '        Differing variables:\n'
                            '           L v  (x)    int8  0 1\n'
                            '             a: 1\n'
                            '             b: b\n'
                            '           R v  (x)    int8  0 1\n'
                            '      Attributes:\n'
                            '        Differing attributes:\n'
                            '           L s  2\n'
                            '           R s  1'),
 'assert_identical-subdiff-vars': ('err',
                                   'AssertionError',
                                   'Left and right Group objects are not equal\n'
                                   '  Differing groups:\n'
                                   '    Group /:\n'
                                   '      Variables:\n'
                                   '        Missing left:\n'
                                   '         - z\n'
                                   '        Differing variables:\n'
                                   '           L v  (x)    int8  0 1\n'
                                   '           R v  (x)    int8  0 2\n'
                                   '             a: 2\n'
                                   '             c: 1\n'
                                   '           L w  (x, y)    int32  0 1 2 3 4 5\n'
                                   '             u: m\n'
                                   '           R w  (y, x)    int32  0 1 2 3 4 5\n'
                                   '             u: m\n'
                                   '    Group /sub:\n'
                                   '      Variables:\n'
                                   '        Missing right:\n'
                                   '         - q\n'
                                   '        Differing variables:\n'
                                   '           L v  (x)    int8  0 1\n'
                                   '             a: 1\n'
                                   '             b: b\n'
                                   '           R v  (x)    int8  0 1\n'
                                   '      Attributes:\n'
                                   '        Differing attributes:\n'
                                   '           L s  2\n'
                                   '           R s  1',
                                   None),
 'diff_tree-subdiff-missing-right': ('ok',
                                     'str',
                                     'Left and right Group objects are not equal\n'
                                     '  Differing tree structure:\n'
                                     '    Missing right:\n'
                                     '    - /sub'),
 'assert_identical-subdiff-missing-right': ('err',
                                            'AssertionError',
                                            'Left and right Group objects are not equal\n'
                                            '  Differing tree structure:\n'
                                            '    Missing right:\n'
                                            '    - /sub',
                                            None),
 'diff_tree-subdiff-extra': ('ok',
                             'str',
                             'Left and right Group objects are not equal\n'
                             '  Differing tree structure:\n'
                             '    Missing left:\n'
                             '    - /other\n'
                             '    - /other/sub2\n'
                             '  Differing groups:\n'
                             '    Group /sub:\n'
                             '      Variables:\n'
                             '        Missing right:\n'
                             '         - q\n'
                             '        Differing variables:\n'
                             '           L v  (x)    int8  0 1\n'
                             '             a: 1\n'
                             '             b: b\n'
                             '           R v  (x)    int8  0 1\n'
                             '      Attributes:\n'
                             '        Differing attributes:\n'
                             '           L s  2\n'
                             '           R s  1'),
 'assert_identical-subdiff-extra': ('err',
                                    'AssertionError',
                                    'Left and right Group objects are not equal\n'
                                    '  Differing tree structure:\n'
                                    '    Missing left:\n'
                                    '    - /other\n'
                                    '    - /other/sub2\n'
                                    '  Differing groups:\n'
                                    '    Group /sub:\n'
                                    '      Variables:\n'
                                    '        Missing right:\n'
                                    '         - q\n'
                                    '        Differing variables:\n'
                                    '           L v  (x)    int8  0 1\n'
                                    '             a: 1\n'
                                    '             b: b\n'
                                    '           R v  (x)    int8  0 1\n'
                                    '      Attributes:\n'
                                    '        Differing attributes:\n'
                                    '           L s  2\n'
                                    '           R s  1',
                                    None),
 'diff_tree-subdiff-subdiff': ('ok', 'str', 'Left and right Group objects are not equal\n'),
 'assert_identical-subdiff-subdiff': ('ok', 'NoneType', None),
 'diff_tree-subdiff-both': ('ok',
                            'str',
                            'Left and right Group objects are not equal\n'
                            '  Differing tree structure:\n'
                            '    Missing left:\n'
                            '    - /left_only\n'
                            '  Differing groups:\n'
                            '    Group /:\n'
                            '      Variables:\n'
                            '        Missing right:\n'
                            '         - w\n'
                            '      Attributes:\n'
                            '        Missing right:\n'
                            '         - a\n'
                            '    Group /sub:\n'
                            '      Variables:\n'
                            '        Missing right:\n'
                            '         - q\n'
                            '        Differing variables:\n'
                            '           L v  (x)    int8  0 1\n'
                            '             a: 1\n'
                            '             b: b\n'
                            '           R v  (rows, cols)    Array(shape=(4, 3), dtype=int16, rpc=2)\n'
                            '             url: memory:///path/to/file\n'
                            '             n: 1\n'
                            '      Attributes:\n'
                            '        Missing right:\n'
                            '         - s'),
 'assert_identical-subdiff-both': ('err',
                                   'AssertionError',
                                   'Left and right Group objects are not equal\n'
                                   '  Differing tree structure:\n'
                                   '    Missing left:\n'
                                   '    - /left_only\n'
                                   '  Differing groups:\n'
                                   '    Group /:\n'
                                   '      Variables:\n'
                                   '        Missing right:\n'
                                   '         - w\n'
                                   '      Attributes:\n'
                                   '        Missing right:\n'
                                   '         - a\n'
                                   '    Group /sub:\n'
                                   '      Variables:\n'
                                   '        Missing right:\n'
                                   '         - q\n'
                                   '        Differing variables:\n'
                                   '           L v  (x)    int8  0 1\n'
                                   '             a: 1\n'
                                   '             b: b\n'
                                   '           R v  (rows, cols)    Array(shape=(4, 3), dtype=int16, rpc=2)\n'
                                   '             url: memory:///path/to/file\n'
                                   '             n: 1\n'
                                   '      Attributes:\n'
                                   '        Missing right:\n'
                                   '         - s',
                                   None),
 'diff_tree-subdiff-empty': ('ok',
                             'str',
                             'Left and right Group objects are not equal\n'
                             '  Differing tree structure:\n'
                             '    Missing right:\n'
                             '    - /sub\n'
                             '  Differing groups:\n'
                             '    Group /:\n'
                             '      Differing Url:\n'
                             '      L  mem://a\n'
                             '      R  mem://e\n'
                             '      Variables:\n'
                             '        Missing right:\n'
                             '         - v\n'
                             '         - w\n'
                             '      Attributes:\n'
                             '        Missing right:\n'
                             '         - a'),
 'assert_identical-subdiff-empty': ('err',
                                    'AssertionError',
                                    'Left and right Group objects are not equal\n'
                                    '  Differing tree structure:\n'
                                    '    Missing right:\n'
                                    '    - /sub\n'
                                    '  Differing groups:\n'
                                    '    Group /:\n'
                                    '      Differing Url:\n'
                                    '      L  mem://a\n'
                                    '      R  mem://e\n'
                                    '      Variables:\n'
                                    '        Missing right:\n'
                                    '         - v\n'
                                    '         - w\n'
                                    '      Attributes:\n'
                                    '        Missing right:\n'
                                    '         - a',
                                    None),
 'diff_tree-subdiff-path': ('ok',
                            'str',
                            'Left and right Group objects are not equal\n'
                            '  Differing tree structure:\n'
                            '    Missing left:\n'
                            '    - /root\n'
                            '    - /root/sub\n'
                            '    Missing right:\n'
                            '    - /\n'
                            '    - /sub'),
 'assert_identical-subdiff-path': ('err',
                                   'AssertionError',
                                   'Left and right Group objects are not equal\n'
                                   '  Differing tree structure:\n'
                                   '    Missing left:\n'
                                   '    - /root\n'
                                   '    - /root/sub\n'
                                   '    Missing right:\n'
                                   '    - /\n'
                                   '    - /sub',
                                   None),
 'diff_tree-both-base': ('ok',
                         'str',
                         'Left and right Group objects are not equal\n'
                         '  Differing tree structure:\n'
                         '    Missing right:\n'
                         '    - /left_only\n'
                         '  Differing groups:\n'
                         '    Group /:\n'
                         '      Variables:\n'
                         '        Missing left:\n'
                         '         - w\n'
                         '      Attributes:\n'
                         '        Missing left:\n'
                         '         - a\n'
                         '    Group /sub:\n'
                         '      Variables:\n'
                         '        Differing variables:\n'
                         '           L v  (rows, cols)    Array(shape=(4, 3), dtype=int16, rpc=2)\n'
                         '             url: memory:///path/to/file\n'
                         '             n: 1\n'
                         '           R v  (x)    int8  0 1\n'
                         '      Attributes:\n'
                         '        Missing left:\n'
                         '         - s'),
 'assert_identical-both-base': ('err',
                                'AssertionError',
                                'Left and right Group objects are not equal\n'
                                '  Differing tree structure:\n'
                                '    Missing right:\n'
                                '    - /left_only\n'
                                '  Differing groups:\n'
                                '    Group /:\n'
                                '      Variables:\n'
                                '        Missing left:\n'
                                '         - w\n'
                                '      Attributes:\n'
                                '        Missing left:\n'
                                '         - a\n'
                                '    Group /sub:\n'
                                '      Variables:\n'
                                '        Differing variables:\n'
                                '           L v  (rows, cols)    Array(shape=(4, 3), dtype=int16, rpc=2)\n'
                                '             url: memory:///path/to/file\n'
                                '             n: 1\n'
                                '           R v  (x)    int8  0 1\n'
                                '      Attributes:\n'
                                '        Missing left:\n'
                                '         - s',
                                None),
 'diff_tree-both-attrs': ('ok',
                          'str',
                          'Left and right Group objects are not equal\n'
                          '  Differing tree structure:\n'
                          '    Missing right:\n'
                          '    - /left_only\n'
                          '  Differing groups:\n'
                          '    Group /:\n'
                          '      Variables:\n'
                          '        Missing left:\n'
                          '         - w\n'
                          '      Attributes:\n'
                          '        Missing left:\n'
                          '         - a\n'
                          '         - b\n'
                          '    Group /sub:\n'
                          '      Variables:\n'
                          '        Differing variables:\n'
                          '           L v  (rows, cols)    Array(shape=(4, 3), dtype=int16, rpc=2)\n'
                          '             url: memory:///path/to/file\n'
                          '             n: 1\n'
                          '           R v  (x)    int8  0 1\n'
                          '      Attributes:\n'
                          '        Missing left:\n'
                          '         - s'),
 'assert_identical-both-attrs': ('err',
                                 'AssertionError',
                                 'Left and right Group objects are not equal\n'
                                 '  Differing tree structure:\n'
                                 '    Missing right:\n'
                                 '    - /left_only\n'
                                 '  Differing groups:\n'
                                 '    Group /:\n'
                                 '      Variables:\n'
                                 '        Missing left:\n'
                                 '         - w\n'
                                 '      Attributes:\n'
                                 '        Missing left:\n'
                                 '         - a\n'
                                 '         - b\n'
                                 '    Group /sub:\n'
                                 '      Variables:\n'
                                 '        Differing variables:\n'
                                 '           L v  (rows, cols)    Array(shape=(4, 3), dtype=int16, rpc=2)\n'
                                 '             url: memory:///path/to/file\n'
                                 '             n: 1\n'
                                 '           R v  (x)    int8  0 1\n'
                                 '      Attributes:\n'
                                 '        Missing left:\n'
                                 '         - s',
                                 None),
 'diff_tree-both-url': ('ok',
                        'str',
                        'Left and right Group objects are not equal\n'
                        '  Differing tree structure:\n'
                        '    Missing right:\n'
                        '    - /left_only\n'
                        '  Differing groups:\n'
                        '    Group /:\n'
                        '      Differing Url:\n'
                        '      L  mem://a\n'
                        '      R  mem://b\n'
                        '      Variables:\n'
                        '        Missing left:\n'
                        '         - w\n'
                        '      Attributes:\n'
                        '        Missing left:\n'
                        '         - a\n'
                        '    Group /sub:\n'
                        '      Differing Url:\n'
                        '      L  mem://a\n'
                        '      R  mem://b\n'
                        '      Variables:\n'
                        '        Differing variables:\n'
                        '           L v  (rows, cols)    Array(shape=(4, 3), dtype=int16, rpc=2)\n'
                        '             url: memory:///path/to/file\n'
                        '             n: 1\n'
                        '           R v  (x)    int8  0 1\n'
                        '      Attributes:\n'
                        '        Missing left:\n'
                        '         - s'),
 'assert_identical-both-url': ('err',
                               'AssertionError',
                               'Left and right Group objects are not equal\n'
                               '  Differing tree structure:\n'
                               '    Missing right:\n'
                               '    - /left_only\n'
                               '  Differing groups:\n'
                               '    Group /:\n'
                               '      Differing Url:\n'
                               '      L  mem://a\n'
                               '      R  mem://b\n'
                               '      Variables:\n'
                               '        Missing left:\n'
                               '         - w\n'
                               '      Attributes:\n'
                               '        Missing left:\n'
                               '         - a\n'
                               '    Group /sub:\n'
                               '      Differing Url:\n'
                               '      L  mem://a\n'
                               '      R  mem://b\n'
                               '      Variables:\n'
                               '        Differing variables:\n'
                               '           L v  (rows, cols)    Array(shape=(4, 3), dtype=int16, rpc=2)\n'
                               '             url: memory:///path/to/file\n'
                               '             n: 1\n'
                               '           R v  (x)    int8  0 1\n'
                               '      Attributes:\n'
                               '        Missing left:\n'
                               '         - s',
                               None),
 'diff_tree-both-vars': ('ok',
                         'str',
                         'Left and right Group objects are not equal\n'
                         '  Differing tree structure:\n'
                         '    Missing right:\n'
                         '    - /left_only\n'
                         '  Differing groups:\n'
                         '    Group /:\n'
                         '      Variables:\n'
                         '        Missing left:\n'
                         '         - w\n'
                         '         - z\n'
                         '        Differing variables:\n'
                         '           L v  (x)    int8  0 1\n'
                         '           R v  (x)    int8  0 2\n'
                         '             a: 2\n'
                         '             c: 1\n'
                         '      Attributes:\n'
                         '        Missing left:\n'
                         '         - a\n'
                         '    Group /sub:\n'
                         '      Variables:\n'
                         '        Differing variables:\n'
                         '           L v  (rows, cols)    Array(shape=(4, 3), dtype=int16, rpc=2)\n'
                         '             url: memory:///path/to/file\n'
                         '             n: 1\n'
                         '           R v  (x)    int8  0 1\n'
                         '      Attributes:\n'
                         '        Missing left:\n'
                         '         - s'),
 'assert_identical-both-vars': ('err',
                                'AssertionError',
                                'Left and right Group objects are not equal\n'
                                '  Differing tree structure:\n'
                                '    Missing right:\n'
                                '    - /left_only\n'
                                '  Differing groups:\n'
                                '    Group /:\n'
                                '      Variables:\n'
                                '        Missing left:\n'
                                '         - w\n'
                                '         - z\n'
                                '        Differing variables:\n'
                                '           L v  (x)    int8  0 1\n'
                                '           R v  (x)    int8  0 2\n'
                                '             a: 2\n'
                                '             c: 1\n'
                                '      Attributes:\n'
                                '        Missing left:\n'
                                '         - a\n'
                                '    Group /sub:\n'
                                '      Variables:\n'
                                '        Differing variables:\n'
                                '           L v  (rows, cols)    Array(shape=(4, 3), dtype=int16, rpc=2)\n'
                                '             url: memory:///path/to/file\n'
                                '             n: 1\n'
                                '           R v  (x)    int8  0 1\n'
                                '      Attributes:\n'
                                '        Missing left:\n'
                                '         - s',
                                None),
 'diff_tree-both-missing-right': ('ok',
                                  'str',
                                  'Left and right Group objects are not equal\n'
                                  '  Differing tree structure:\n'
                                  '    Missing right:\n'
                                  '    - /left_only\n'
                                  '    - /sub\n'
                                  '  Differing groups:\n'
                                  '    Group /:\n'
                                  '      Variables:\n'
                                  '        Missing left:\n'
                                  '         - w\n'
                                  '      Attributes:\n'
                                  '        Missing left:\n'
                                  '         - a'),
 'assert_identical-both-missing-right': ('err',
                                         'AssertionError',
                                         'Left and right Group objects are not equal\n'
                                         '  Differing tree structure:\n'
                                         '    Missing right:\n'
                                         '    - /left_only\n'
                                         '    - /sub\n'
                                         '  Differing groups:\n'
                                         '    Group /:\n'
                                         '      Variables:\n'
                                         '        Missing left:\n'
                                         '         - w\n'
                                         '      Attributes:\n'
                                         '        Missing left:\n'
                                         '         - a',
                                         None),
 'diff_tree-both-extra': ('ok',
                          'str',
                          'Left and right Group objects are not equal\n'
                          '  Differing tree structure:\n'
                          '    Missing left:\n'
                          '    - /other\n'
                          '    - /other/sub2\n'
                          '    Missing right:\n'
                          '    - /left_only\n'
                          '  Differing groups:\n'
                          '    Group /:\n'
                          '      Variables:\n'
                          '        Missing left:\n'
                          '         - w\n'
                          '      Attributes:\n'
                          '        Missing left:\n'
                          '         - a\n'
                          '    Group /sub:\n'
                          '      Variables:\n'
                          '        Differing variables:\n'
                          '           L v  (rows, cols)    Array(shape=(4, 3), dtype=int16, rpc=2)\n'
                          '             url: memory:///path/to/file\n'
                          '             n: 1\n'
                          '           R v  (x)    int8  0 1\n'
                          '      Attributes:\n'
                          '        Missing left:\n'
                          '         - s'),
 'assert_identical-both-extra': ('err',
                                 'AssertionError',
                                 'Left and right Group objects are not equal\n'
                                 '  Differing tree structure:\n'
                                 '    Missing left:\n'
                                 '    - /other\n'
                                 '    - /other/sub2\n'
                                 '    Missing right:\n'
                                 '    - /left_only\n'
                                 '  Differing groups:\n'
                                 '    Group /:\n'
                                 '      Variables:\n'
                                 '        Missing left:\n'
                                 '         - w\n'
                                 '      Attributes:\n'
                                 '        Missing left:\n'
                                 '         - a\n'
                                 '    Group /sub:\n'
                                 '      Variables:\n'
                                 '        Differing variables:\n'
                                 '           L v  (rows, cols)    Array(shape=(4, 3), dtype=int16, rpc=2)\n'
                                 '             url: memory:///path/to/file\n'
                                 '             n: 1\n'
                                 '           R v  (x)    int8  0 1\n'
                                 '      Attributes:\n'
                                 '        Missing left:\n'
                                 '         - s',
                                 None),
 'diff_tree-both-subdiff': ('ok',
                            'str',
                            'Left and right Group objects are not equal\n'
                            '  Differing tree structure:\n'
                            '    Missing right:\n'
                            '    - /left_only\n'
                            '  Differing groups:\n'
                            '    Group /:\n'
                            '      Variables:\n'
                            '        Missing left:\n'
                            '         - w\n'
                            '      Attributes:\n'
                            '        Missing left:\n'
                            '         - a\n'
                            '    Group /sub:\n'
                            '      Variables:\n'
                            '        Missing left:\n'
                            '         - q\n'
                            '        Differing variables:\n'
                            '           L v  (rows, cols)    Array(shape=(4, 3), dtype=int16, rpc=2)\n'
                            '             url: memory:///path/to/file\n'
                            '             n: 1\n'
                            '           R v  (x)    int8  0 1\n'
                            '             a: 1\n'
                            '             b: b\n'
                            '      Attributes:\n'
                            '        Missing left:\n'
                            '         - s'),
 'assert_identical-both-subdiff': ('err',
                                   'AssertionError',
                                   'Left and right Group objects are not equal\n'
                                   '  Differing tree structure:\n'
                                   '    Missing right:\n'
                                   '    - /left_only\n'
                                   '  Differing groups:\n'
                                   '    Group /:\n'
                                   '      Variables:\n'
                                   '        Missing left:\n'
                                   '         - w\n'
                                   '      Attributes:\n'
                                   '        Missing left:\n'
                                   '         - a\n'
                                   '    Group /sub:\n'
                                   '      Variables:\n'
                                   '        Missing left:\n'
                                   '         - q\n'
                                   '        Differing variables:\n'
                                   '           L v  (rows, cols)    Array(shape=(4, 3), dtype=int16, rpc=2)\n'
                                   '             url: memory:///path/to/file\n'
                                   '             n: 1\n'
                                   '           R v  (x)    int8  0 1\n'
                                   '             a: 1\n'
                                   '             b: b\n'
                                   '      Attributes:\n'
                                   '        Missing left:\n'
                                   '         - s',
                                   None),
 'diff_tree-both-both': ('ok', 'str', 'Left and right Group objects are not equal\n'),
 'assert_identical-both-both': ('ok', 'NoneType', None),
 'diff_tree-both-empty': ('ok',
                          'str',
                          'Left and right Group objects are not equal\n'
                          '  Differing tree structure:\n'
                          '    Missing right:\n'
                          '    - /left_only\n'
                          '    - /sub\n'
                          '  Differing groups:\n'
                          '    Group /:\n'
                          '      Differing Url:\n'
                          '      L  mem://a\n'
                          '      R  mem://e\n'
                          '      Variables:\n'
                          '        Missing right:\n'
                          '         - v'),
 'assert_identical-both-empty': ('err',
                                 'AssertionError',
                                 'Left and right Group objects are not equal\n'
                                 '  Differing tree structure:\n'
                                 '    Missing right:\n'
                                 '    - /left_only\n'
                                 '    - /sub\n'
                                 '  Differing groups:\n'
                                 '    Group /:\n'
                                 '      Differing Url:\n'
                                 '      L  mem://a\n'
                                 '      R  mem://e\n'
                                 '      Variables:\n'
                                 '        Missing right:\n'
                                 '         - v',
                                 None),
 'diff_tree-both-path': ('ok',
                         'str',
                         'Left and right Group objects are not equal\n'
                         '  Differing tree structure:\n'
                         '    Missing left:\n'
                         '    - /root\n'
                         '    - /root/sub\n'
                         '    Missing right:\n'
                         '    - /\n'
                         '    - /left_only\n'
                         '    - /sub'),
 'assert_identical-both-path': ('err',
                                'AssertionError',
                                'Left and right Group objects are not equal\n'
                                '  Differing tree structure:\n'
                                '    Missing left:\n'
                                '    - /root\n'
                                '    - /root/sub\n'
                                '    Missing right:\n'
                                '    - /\n'
                                '    - /left_only\n'
                                '    - /sub',
                                None),
 'diff_tree-empty-base': ('ok',
                          'str',
                          'Left and right Group objects are not equal\n'
                          '  Differing tree structure:\n'
                          '    Missing left:\n'
                          '    - /sub\n'
                          '  Differing groups:\n'
                          '    Group /:\n'
                          '      Differing Url:\n'
                          '      L  mem://e\n'
                          '      R  mem://a\n'
                          '      Variables:\n'
                          '        Missing left:\n'
                          '         - v\n'
                          '         - w\n'
                          '      Attributes:\n'
                          '        Missing left:\n'
                          '         - a'),
 'assert_identical-empty-base': ('err',
                                 'AssertionError',
                                 'Left and right Group objects are not equal\n'
                                 '  Differing tree structure:\n'
                                 '    Missing left:\n'
                                 '    - /sub\n'
                                 '  Differing groups:\n'
                                 '    Group /:\n'
                                 '      Differing Url:\n'
                                 '      L  mem://e\n'
                                 '      R  mem://a\n'
                                 '      Variables:\n'
                                 '        Missing left:\n'
                                 '         - v\n'
                                 '         - w\n'
                                 '      Attributes:\n'
                                 '        Missing left:\n'
                                 '         - a',
                                 None),
 'diff_tree-empty-attrs': ('ok',
                           'str',
                           'Left and right Group objects are not equal\n'
                           '  Differing tree structure:\n'
                           '    Missing left:\n'
                           '    - /sub\n'
                           '  Differing groups:\n'
                           '    Group /:\n'
                           '      Differing Url:\n'
                           '      L  mem://e\n'
                           '      R  mem://a\n'
                           '      Variables:\n'
                           '        Missing left:\n'
                           '         - v\n'
                           '         - w\n'
                           '      Attributes:\n'
                           '        Missing left:\n'
                           '         - a\n'
                           '         - b'),
 'assert_identical-empty-attrs': ('err',
                                  'AssertionError',
                                  'Left and right Group objects are not equal\n'
                                  '  Differing tree structure:\n'
                                  '    Missing left:\n'
                                  '    - /sub\n'
                                  '  Differing groups:\n'
                                  '    Group /:\n'
                                  '      Differing Url:\n'
                                  '      L  mem://e\n'
                                  '      R  mem://a\n'
                                  '      Variables:\n'
                                  '        Missing left:\n'
                                  '         - v\n'
                                  '         - w\n'
                                  '      Attributes:\n'
                                  '        Missing left:\n'
                                  '         - a\n'
                                  '         - b',
                                  None),
 'diff_tree-empty-url': ('ok',
                         'str',
                         'Left and right Group objects are not equal\n'
                         '  Differing tree structure:\n'
                         '    Missing left:\n'
                         '    - /sub\n'
                         '  Differing groups:\n'
                         '    Group /:\n'
                         '      Differing Url:\n'
                         '      L  mem://e\n'
                         '      R  mem://b\n'
                         '      Variables:\n'
                         '        Missing left:\n'
                         '         - v\n'
                         '         - w\n'
                         '      Attributes:\n'
                         '        Missing left:\n'
                         '         - a'),
 'assert_identical-empty-url': ('err',
                                'AssertionError',
                                'Left and right Group objects are not equal\n'
                                '  Differing tree structure:\n'
                                '    Missing left:\n'
                                '    - /sub\n'
                                '  Differing groups:\n'
                                '    Group /:\n'
                                '      Differing Url:\n'
                                '      L  mem://e\n'
                                '      R  mem://b\n'
                                '      Variables:\n'
                                '        Missing left:\n'
                                '         - v\n'
                                '         - w\n'
                                '      Attributes:\n'
                                '        Missing left:\n'
                                '         - a',
                                None),
 'diff_tree-empty-vars': ('ok',
                          'str',
                          'Left and right Group objects are not equal\n'
                          '  Differing tree structure:\n'
                          '    Missing left:\n'
                          '    - /sub\n'
                          '  Differing groups:\n'
                          '    Group /:\n'
                          '      Differing Url:\n'
                          '      L  mem://e\n'
                          '      R  mem://a\n'
                          '      Variables:\n'
                          '        Missing left:\n'
                          '         - v\n'
                          '         - w\n'
                          '         - z\n'
                          '      Attributes:\n'
                          '        Missing left:\n'
                          '         - a'),
 'assert_identical-empty-vars': ('err',
                                 'AssertionError',
                                 'Left and right Group objects are not equal\n'
                                 '  Differing tree structure:\n'
                                 '    Missing left:\n'
                                 '    - /sub\n'
                                 '  Differing groups:\n'
                                 '    Group /:\n'
                                 '      Differing Url:\n'
                                 '      L  mem://e\n'
                                 '      R  mem://a\n'
                                 '      Variables:\n'
                                 '        Missing left:\n'
                                 '         - v\n'
                                 '         - w\n'
                                 '         - z\n'
                                 '      Attributes:\n'
                                 '        Missing left:\n'
                                 '         - a',
                                 None),
 'diff_tree-empty-missing-right': ('ok',
                                   'str',
                                   'Left and right Group objects are not equal\n'
                                   '  Differing groups:\n'
                                   '    Group /:\n'
                                   '      Differing Url:\n'
                                   '      L  mem://e\n'
                                   '      R  mem://a\n'
                                   '      Variables:\n'
                                   '        Missing left:\n'
                                   '         - v\n'
                                   '         - w\n'
                                   '      Attributes:\n'
                                   '        Missing left:\n'
                                   '         - a'),
 'assert_identical-empty-missing-right': ('err',
                                          'AssertionError',
                                          'Left and right Group objects are not equal\n'
                                          '  Differing groups:\n'
                                          '    Group /:\n'
                                          '      Differing Url:\n'
                                          '      L  mem://e\n'
                                          '      R  mem://a\n'
                                          '      Variables:\n'
                                          '        Missing left:\n'
                                          '         - v\n'
                                          '         - w\n'
                                          '      Attributes:\n'
                                          '        Missing left:\n'
                                          '         - a',
                                          None),
 'diff_tree-empty-extra': ('ok',
                           'str',
                           'Left and right Group objects are not equal\n'
                           '  Differing tree structure:\n'
                           '    Missing left:\n'
                           '    - /sub\n'
                           '    - /other\n'
                           '    - /other/sub2\n'
                           '  Differing groups:\n'
                           '    Group /:\n'
                           '      Differing Url:\n'
                           '      L  mem://e\n'
                           '      R  mem://a\n'
                           '      Variables:\n'
                           '        Missing left:\n'
                           '         - v\n'
                           '         - w\n'
                           '      Attributes:\n'
                           '        Missing left:\n'
                           '         - a'),
 'assert_identical-empty-extra': ('err',
                                  'AssertionError',
                                  'Left and right Group objects are not equal\n'
                                  '  Differing tree structure:\n'
                                  '    Missing left:\n'
                                  '    - /sub\n'
                                  '    - /other\n'
                                  '    - /other/sub2\n'
                                  '  Differing groups:\n'
                                  '    Group /:\n'
                                  '      Differing Url:\n'
                                  '      L  mem://e\n'
                                  '      R  mem://a\n'
                                  '      Variables:\n'
                                  '        Missing left:\n'
                                  '         - v\n'
                                  '         - w\n'
                                  '      Attributes:\n'
                                  '        Missing left:\n'
                                  '         - a',
                                  None),
 'diff_tree-empty-subdiff': ('ok',
                             'str',
                             'Left and right Group objects are not equal\n'
                             '  Differing tree structure:\n'
                             '    Missing left:\n'
                             '    - /sub\n'
                             '  Differing groups:\n'
                             '    Group /:\n'
                             '      Differing Url:\n'
                             '      L  mem://e\n'
                             '      R  mem://a\n'
                             '      Variables:\n'
                             '        Missing left:\n'
                             '         - v\n'
                             '         - w\n'
                             '      Attributes:\n'
                             '        Missing left:\n'
                             '         - a'),
 'assert_identical-empty-subdiff': ('err',
                                    'AssertionError',
                                    'Left and right Group objects are not equal\n'
                                    '  Differing tree structure:\n'
                                    '    Missing left:\n'
                                    '    - /sub\n'
                                    '  Differing groups:\n'
                                    '    Group /:\n'
                                    '      Differing Url:\n'
                                    '      L  mem://e\n'
                                    '      R  mem://a\n'
                                    '      Variables:\n'
                                    '        Missing left:\n'
                                    '         - v\n'
                                    '         - w\n'
                                    '      Attributes:\n'
                                    '        Missing left:\n'
                                    '         - a',
                                    None),
 'diff_tree-empty-both': ('ok',
                          'str',
                          'Left and right Group objects are not equal\n'
                          '  Differing tree structure:\n'
                          '    Missing left:\n'
                          '    - /left_only\n'
                          '    - /sub\n'
                          '  Differing groups:\n'
                          '    Group /:\n'
                          '      Differing Url:\n'
                          '      L  mem://e\n'
                          '      R  mem://a\n'
                          '      Variables:\n'
                          '        Missing left:\n'
                          '         - v'),
 'assert_identical-empty-both': ('err',
                                 'AssertionError',
                                 'Left and right Group objects are not equal\n'
                                 '  Differing tree structure:\n'
                                 '    Missing left:\n'
                                 '    - /left_only\n'
                                 '    - /sub\n'
                                 '  Differing groups:\n'
                                 '    Group /:\n'
                                 '      Differing Url:\n'
                                 '      L  mem://e\n'
                                 '      R  mem://a\n'
                                 '      Variables:\n'
                                 '        Missing left:\n'
                                 '         - v',
                                 None),
 'diff_tree-empty-empty': ('ok', 'str', 'Left and right Group objects are not equal\n'),
 'assert_identical-empty-empty': ('ok', 'NoneType', None),
 'diff_tree-empty-path': ('ok',
                          'str',
                          'Left and right Group objects are not equal\n'
                          '  Differing tree structure:\n'
                          '    Missing left:\n'
                          '    - /root\n'
                          '    - /root/sub\n'
                          '    Missing right:\n'
                          '    - /'),
 'assert_identical-empty-path': ('err',
                                 'AssertionError',
                                 'Left and right Group objects are not equal\n'
                                 '  Differing tree structure:\n'
                                 '    Missing left:\n'
                                 '    - /root\n'
                                 '    - /root/sub\n'
                                 '    Missing right:\n'
                                 '    - /',
                                 None),
 'diff_tree-path-base': ('ok',
                         'str',
                         'Left and right Group objects are not equal\n'
                         '  Differing tree structure:\n'
                         '    Missing left:\n'
                         '    - /\n'
                         '    - /sub\n'
                         '    Missing right:\n'
                         '    - /root\n'
                         '    - /root/sub'),
 'assert_identical-path-base': ('err',
                                'AssertionError',
                                'Left and right Group objects are not equal\n'
                                '  Differing tree structure:\n'
                                '    Missing left:\n'
                                '    - /\n'
                                '    - /sub\n'
                                '    Missing right:\n'
                                '    - /root\n'
                                '    - /root/sub',
                                None),
 'diff_tree-path-attrs': ('ok',
                          'str',
                          'Left and right Group objects are not equal\n'
                          '  Differing tree structure:\n'
                          '    Missing left:\n'
                          '    - /\n'
                          '    - /sub\n'
                          '    Missing right:\n'
                          '    - /root\n'
                          '    - /root/sub'),
 'assert_identical-path-attrs': ('err',
                                 'AssertionError',
                                 'Left and right Group objects are not equal\n'
                                 '  Differing tree structure:\n'
                                 '    Missing left:\n'
                                 '    - /\n'
                                 '    - /sub\n'
                                 '    Missing right:\n'
                                 '    - /root\n'
                                 '    - /root/sub',
                                 None),
 'diff_tree-path-url': ('ok',
                        'str',
                        'Left and right Group objects are not equal\n'
                        '  Differing tree structure:\n'
                        '    Missing left:\n'
                        '    - /\n'
                        '    - /sub\n'
                        '    Missing right:\n'
                        '    - /root\n'
                        '    - /root/sub'),
 'assert_identical-path-url': ('err',
                               'AssertionError',
                               'Left and right Group objects are not equal\n'
                               '  Differing tree structure:\n'
                               '    Missing left:\n'
                               '    - /\n'
                               '    - /sub\n'
                               '    Missing right:\n'
                               '    - /root\n'
                               '    - /root/sub',
                               None),
 'diff_tree-path-vars': ('ok',
                         'str',
                         'Left and right Group objects are not equal\n'
                         '  Differing tree structure:\n'
                         '    Missing left:\n'
                         '    - /\n'
                         '    - /sub\n'
                         '    Missing right:\n'
                         '    - /root\n'
                         '    - /root/sub'),
 'assert_identical-path-vars': ('err',
                                'AssertionError',
                                'Left and right Group objects are not equal\n'
                                '  Differing tree structure:\n'
                                '    Missing left:\n'
                                '    - /\n'
                                '    - /sub\n'
                                '    Missing right:\n'
                                '    - /root\n'
                                '    - /root/sub',
                                None),
 'diff_tree-path-missing-right': ('ok',
                                  'str',
                                  'Left and right Group objects are not equal\n'
                                  '  Differing tree structure:\n'
                                  '    Missing left:\n'
                                  '    - /\n'
                                  '    Missing right:\n'
                                  '    - /root\n'
                                  '    - /root/sub'),
 'assert_identical-path-missing-right': ('err',
                                         'AssertionError',
                                         'Left and right Group objects are not equal\n'
                                         '  Differing tree structure:\n'
                                         '    Missing left:\n'
                                         '    - /\n'
                                         '    Missing right:\n'
                                         '    - /root\n'
                                         '    - /root/sub',
                                         None),
 'diff_tree-path-extra': ('ok',
                          'str',
                          'Left and right Group objects are not equal\n'
                          '  Differing tree structure:\n'
                          '    Missing left:\n'
                          '    - /\n'
                          '    - /sub\n'
                          '    - /other\n'
                          '    - /other/sub2\n'
                          '    Missing right:\n'
                          '    - /root\n'
                          '    - /root/sub'),
 'assert_identical-path-extra': ('err',
                                 'AssertionError',
                                 'Left and right Group objects are not equal\n'
                                 '  Differing tree structure:\n'
                                 '    Missing left:\n'
                                 '    - /\n'
                                 '    - /sub\n'
                                 '    - /other\n'
                                 '    - /other/sub2\n'
                                 '    Missing right:\n'
                                 '    - /root\n'
                                 '    - /root/sub',
                                 None),
 'diff_tree-path-subdiff': ('ok',
                            'str',
                            'Left and right Group objects are not equal\n'
                            '  Differing tree structure:\n'
                            '    Missing left:\n'
                            '    - /\n'
                            '    - /sub\n'
                            '    Missing right:\n'
                            '    - /root\n'
                            '    - /root/sub'),
 'assert_identical-path-subdiff': ('err',
                                   'AssertionError',
                                   'Left and right Group objects are not equal\n'
                                   '  Differing tree structure:\n'
                                   '    Missing left:\n'
                                   '    - /\n'
                                   '    - /sub\n'
                                   '    Missing right:\n'
                                   '    - /root\n'
                                   '    - /root/sub',
                                   None),
 'diff_tree-path-both': ('ok',
                         'str',
                         'Left and right Group objects are not equal\n'
                         '  Differing tree structure:\n'
                         '    Missing left:\n'
                         '    - /\n'
                         '    - /left_only\n'
                         '    - /sub\n'
                         '    Missing right:\n'
                         '    - /root\n'
                         '    - /root/sub'),
 'assert_identical-path-both': ('err',
                                'AssertionError',
                                'Left and right Group objects are not equal\n'
                                '  Differing tree structure:\n'
                                '    Missing left:\n'
                                '    - /\n'
                                '    - /left_only\n'
                                '    - /sub\n'
                                '    Missing right:\n'
                                '    - /root\n'
                                '    - /root/sub',
                                None),
 'diff_tree-path-empty': ('ok',
                          'str',
                          'Left and right Group objects are not equal\n'
                          '  Differing tree structure:\n'
                          '    Missing left:\n'
                          '    - /\n'
                          '    Missing right:\n'
                          '    - /root\n'
                          '    - /root/sub'),
 'assert_identical-path-empty': ('err',
                                 'AssertionError',
                                 'Left and right Group objects are not equal\n'
                                 '  Differing tree structure:\n'
                                 '    Missing left:\n'
                                 '    - /\n'
                                 '    Missing right:\n'
                                 '    - /root\n'
                                 '    - /root/sub',
                                 None),
 'diff_tree-path-path': ('ok', 'str', 'Left and right Group objects are not equal\n'),
 'assert_identical-path-path': ('ok', 'NoneType', None),
 'diff_tree-order-same': (('ok', 'str', 'Left and right Group objects are not equal\n'),
                          ['/', '/', '/a', '/a', '/b', '/b']),
 'diff_tree-order-extra-right': (('ok',
                                  'str',
                                  'Left and right Group objects are not equal\n'
                                  '  Differing tree structure:\n'
                                  '    Missing left:\n'
                                  '    - /c'),
                                 ['/', '/', '/a', '/a', '/b', '/b', '/c']),
 'diff_tree-order-extra-left': (('ok',
                                 'str',
                                 'Left and right Group objects are not equal\n'
                                 '  Differing tree structure:\n'
                                 '    Missing right:\n'
                                 '    - /0'),
                                ['/', '/', '/a', '/a', '/b', '/b', '/0']),
 'diff_tree-order-fail-left': (('err', 'RuntimeError', 'cannot decouple /a', None), ['/', '/', '/a']),
 'diff_tree-order-fail-right': (('err', 'RuntimeError', 'cannot decouple /b', None),
                                ['/', '/', '/a', '/a', '/b', '/b']),
 'diff_tree-order-fail-both': (('err', 'RuntimeError', 'cannot decouple /a', None), ['/', '/', '/a', '/a']),
 'diff_variable-i8-other': ('ok',
                            'str',
                            'Left and right Variable objects are not equal\n'
                            '  Differing data:\n'
                            '      L int8  0 1\n'
                            '      R int8  0 2\n'
                            '  Attributes:\n'
                            '    Missing left:\n'
                            '     - a\n'
                            '     - c'),
 'assert_identical-var-i8-other': ('err',
                                   'AssertionError',
                                   'Left and right Variable objects are not equal\n'
                                   '  Differing data:\n'
                                   '      L int8  0 1\n'
                                   '      R int8  0 2\n'
                                   '  Attributes:\n'
                                   '    Missing left:\n'
                                   '     - a\n'
                                   '     - c',
                                   None),
 'diff_variable-i8-attrs': ('ok',
                            'str',
                            'Left and right Variable objects are not equal\n'
                            '  Attributes:\n'
                            '    Missing left:\n'
                            '     - a\n'
                            '     - b'),
 'assert_identical-var-i8-attrs': ('err',
                                   'AssertionError',
                                   'Left and right Variable objects are not equal\n'
                                   '  Attributes:\n'
                                   '    Missing left:\n'
                                   '     - a\n'
                                   '     - b',
                                   None),
 'diff_variable-2d-t': ('ok',
                        'str',
                        'Left and right Variable objects are not equal\n'
                        '  Differing dimensions:\n'
                        '    (x: 2, y: 3) != (y: 3, x: 2)\n'
                        '  Differing data:\n'
                        '      L int32  0 1 2 3 4 5\n'
                        '      R int32  0 1 2 3 4 5'),
 'assert_identical-var-2d-t': ('err',
                               'AssertionError',
                               'Left and right Variable objects are not equal\n'
                               '  Differing dimensions:\n'
                               '    (x: 2, y: 3) != (y: 3, x: 2)\n'
                               '  Differing data:\n'
                               '      L int32  0 1 2 3 4 5\n'
                               '      R int32  0 1 2 3 4 5',
                               None),
 'diff_variable-arr-arr2': ('ok',
                            'str',
                            'Left and right Variable objects are not equal\n'
                            '  Differing data:\n'
                            '    Differing urls:\n'
                            '      L url  file\n'
                            '      R url  file2\n'
                            '    Differing chunksizes:\n'
                            '      L records_per_chunk  2\n'
                            '      R records_per_chunk  3'),
 'assert_identical-var-arr-arr2': ('err',
                                   'AssertionError',
                                   'Left and right Variable objects are not equal\n'
                                   '  Differing data:\n'
                                   '    Differing urls:\n'
                                   '      L url  file\n'
                                   '      R url  file2\n'
                                   '    Differing chunksizes:\n'
                                   '      L records_per_chunk  2\n'
                                   '      R records_per_chunk  3',
                                   None),
 'diff_variable-arr-i8': ('ok',
                          'str',
                          'Left and right Variable objects are not equal\n'
                          '  Differing dimensions:\n'
                          '    (rows: 4, cols: 3) != (x: 2)\n'
                          '  Differing data types:\n'
                          "    L <class 'ceos_alos2.array.Array'>\n"
                          "    R <class 'numpy.ndarray'>\n"
                          '  Attributes:\n'
                          '    Missing right:\n'
                          '     - n'),
 'assert_identical-var-arr-i8': ('err',
                                 'AssertionError',
                                 'Left and right Variable objects are not equal\n'
                                 '  Differing dimensions:\n'
                                 '    (rows: 4, cols: 3) != (x: 2)\n'
                                 '  Differing data types:\n'
                                 "    L <class 'ceos_alos2.array.Array'>\n"
                                 "    R <class 'numpy.ndarray'>\n"
                                 '  Attributes:\n'
                                 '    Missing right:\n'
                                 '     - n',
                                 None),
 'diff_variable-long-i8': ('ok',
                           'str',
                           'Left and right Variable objects are not equal\n'
                           '  Differing dimensions:\n'
                           '    (t: 20) != (x: 2)\n'
                           '  Differing data:\n'
                           '      L float64  0.0 1.0 2.0 ... 18.0 19.0\n'
                           '      R int8  0 1'),
 'assert_identical-var-long-i8': ('err',
                                  'AssertionError',
                                  'Left and right Variable objects are not equal\n'
                                  '  Differing dimensions:\n'
                                  '    (t: 20) != (x: 2)\n'
                                  '  Differing data:\n'
                                  '      L float64  0.0 1.0 2.0 ... 18.0 19.0\n'
                                  '      R int8  0 1',
                                  None),
 'diff_variable-same': ('ok', 'str', 'Left and right Variable objects are not equal\n'),
 'assert_identical-var-same': ('ok', 'NoneType', None),
 'diff_mapping-vars': ('ok',
                       'str',
                       'Variables:\n'
                       '  Missing left:\n'
                       '   - m\n'
                       '  Differing variables:\n'
                       '     L a  (x)    int8  0 1\n'
                       '     R a  (x)    int8  0 2\n'
                       '       a: 2\n'
                       '       c: 1\n'
                       '     L n  1\n'
                       '     R n  2'),
 'diff_mapping_not_equal': ('ok',
                            'str',
                            'Differing things:\n'
                            '   L a  (rows, cols)    Array(shape=(4, 3), dtype=int16, rpc=2)\n'
                            '     url: memory:///path/to/file\n'
                            '     n: 1\n'
                            '   R a  (rows, cols)    Array(shape=(4, 3), dtype=int16, rpc=3)\n'
                            '     url: memory:///path/to/file2\n'
                            '     n: 1\n'
                            '   L n  None\n'
                            '   R n  0'),
 'diff_mapping_not_equal-none': ('ok', 'NoneType', None),
 'diff_data-types': ('ok',
                     'str',
                     "Differing data types:\n  L <class 'ceos_alos2.array.Array'>\n  R <class 'numpy.ndarray'>"),
 'assert_identical-types': ('err',
                            'AssertionError',
                            "types mismatch: <class 'ceos_alos2.hierarchy.Variable'> != <class "
                            "'ceos_alos2.array.Array'>",
                            None),
 'assert_identical-bad': ('err', 'TypeError', 'can only compare Group and Variable and Array objects', None),
 'assert_identical-arr': ('err',
                          'AssertionError',
                          'Differing shapes:\n  (4, 3) != (4, 2)\nDiffering dtypes:\n  int16 != uint16',
                          None)}

if __name__ == "__main__":
    cases = make_cases()
    if "--record" in sys.argv:
        import pprint

        print(pprint.pformat(cases, width=120, sort_dicts=False))
        sys.exit(0)
    assert EXPECTED is not None
    assert list(cases) == list(EXPECTED), set(cases) ^ set(EXPECTED)
    bad = [k for k in cases if cases[k] != EXPECTED[k]]
    for k in bad:
        print("MISMATCH", k, cases[k], EXPECTED[k], sep="\n  ")
    assert not bad
    # public names still importable from ceos_alos2.testing
    for name in ("newline", "dict_overlap", "format_item", "format_array", "format_variable", "format_inline",
                 "diff_mapping_missing", "diff_mapping_not_equal", "diff_mapping", "diff_scalar", "compare_data",
                 "diff_array", "diff_data", "format_sizes", "diff_variable", "diff_group", "diff_tree",
                 "assert_identical", "curry", "pipe", "valmap", "valsplit", "zip_default", "cons", "groupby",
                 "merge_with", "valfilter", "zip_longest", "textwrap", "np", "Array", "Group", "Variable"):
        assert hasattr(testing, name), name
    print(f"ok ({len(cases)} cases)")
