"""Equivalence check for refactoring 2 (``decoders.decode_array``).

Run as a script (``python equiv.py``) or through pytest.  Every case calls the
public entry points of ``ceos_alos2.sar_image.caching.decoders`` and compares a
canonical, type-preserving rendering of the result (or of the raised
exception), together with the log of ``fsspec.get_mapper`` calls made while
computing it, with the rendering recorded from the unchanged code (``python
equiv.py --record`` prints a fresh table).
"""

import json
import sys
import warnings

import fsspec
import numpy as np

from ceos_alos2.array import Array
from ceos_alos2.hierarchy import Group, Variable
from ceos_alos2.sar_image import caching
from ceos_alos2.sar_image.caching import decoders


def canon(obj):
    """Deterministic rendering which keeps the exact types and key order."""
    if isinstance(obj, dict):
        items = ", ".join(f"{canon(k)}: {canon(v)}" for k, v in obj.items())
        return f"{type(obj).__name__}{{{items}}}"
    if isinstance(obj, (list, tuple)):
        return f"{type(obj).__name__}[{', '.join(canon(v) for v in obj)}]"
    if isinstance(obj, np.ndarray):
        return f"ndarray<{obj.dtype}, {obj.shape}>({obj.tolist()!r})"
    if isinstance(obj, np.generic):
        return f"{type(obj).__name__}<{obj.dtype}>({obj!r})"
    if isinstance(obj, Array):
        fs = obj.fs
        fields = {
            "fs": f"{type(fs).__module__}.{type(fs).__name__}",
            "fs.path": fs.path,
            "fs.fs": f"{type(fs.fs).__module__}.{type(fs.fs).__name__}",
            "url": obj.url,
            "byte_ranges": obj.byte_ranges,
            "shape": obj.shape,
            "dtype": obj.dtype,
            "type_code": obj.type_code,
            "records_per_chunk": obj.records_per_chunk,
            "chunk_offsets": obj.chunk_offsets,
        }
        return f"{type(obj).__name__}<{canon(fields)}>"
    if isinstance(obj, Variable):
        return f"Variable<{canon(obj.dims)}, {canon(obj.data)}, {canon(obj.attrs)}>"
    if isinstance(obj, Group):
        return f"Group<{canon(obj.path)}, {canon(obj.url)}, {canon(obj.data)}, {canon(obj.attrs)}>"
    return f"{type(obj).__name__}({obj!r})"


mapper_calls = []
_get_mapper = fsspec.get_mapper


def logging_get_mapper(*args, **kwargs):
    mapper_calls.append((args, kwargs))
    return _get_mapper(*args, **kwargs)


def outcome(func, *args, **kwargs):
    del mapper_calls[:]
    fsspec.get_mapper = logging_get_mapper
    try:
        with warnings.catch_warnings():
            warnings.simplefilter("ignore", DeprecationWarning)
            result = canon(func(*args, **kwargs))
    except Exception as e:  # noqa: BLE001
        result = f"raised {type(e).__name__}: {e}"
    finally:
        fsspec.get_mapper = _get_mapper
    return f"{result} | get_mapper calls: {mapper_calls!r}"


def backend(**overrides):
    encoded = {
        "__type__": "backend_array",
        "root": "memory:///path/to",
        "url": "file",
        "shape": (4, 3),
        "dtype": "int16",
        "byte_ranges": [(5, 10), (15, 20), (25, 30), (35, 40)],
        "type_code": "IU2",
    }
    encoded.update(overrides)
    return encoded


def without(mapping, *keys):
    return {k: v for k, v in mapping.items() if k not in keys}


def inline(dtype, data, encoding=None, **extra):
    encoded = {"__type__": "array", "dtype": dtype, "data": data}
    if encoding is not None:
        encoded["encoding"] = encoding
    encoded.update(extra)
    return encoded


class WithGet:
    """not a dict, but has ``get`` and item access"""

    def __init__(self, mapping):
        self.mapping = mapping

    def get(self, key, default=None):
        return self.mapping.get(key, default)

    def __getitem__(self, key):
        return self.mapping[key]


# (encoded, records_per_chunk)
ARRAY_CASES = {
    # inline arrays
    "inline-int8": (inline("int8", [1, 2], {}), 2),
    "inline-int8-no-encoding": (inline("int8", [1, 2]), None),
    "inline-float32-2d": (inline("float32", [[1.5, 2], [3, 4]], {}), 2),
    "inline-float-from-int-dtype": (inline("int16", [1.5, 2.5], {}), 2),
    "inline-empty": (inline("float64", [], {}), 2),
    "inline-scalar": (inline("int64", 5, {}), 2),
    "inline-bool": (inline("bool", [True, False], {}), 2),
    "inline-str": (inline("<U2", ["HH", "HV"], {}), 2),
    "inline-str-truncating": (inline("<U1", ["HH", "HV"], {}), 2),
    "inline-object": (inline("object", [{"a": 1}, None], {}), 2),
    "inline-bigendian": (inline(">i4", [1, 2], {}), 2),
    "inline-complex": (inline("complex64", [1 + 2j], {}), 2),
    "inline-npdtype": (inline(np.dtype("uint8"), [1, 2], {}), 2),
    "inline-overflow": (inline("int8", [300], {}), 2),
    "inline-ragged": (inline("int8", [[1], [1, 2]], {}), 2),
    "inline-extra-keys": (inline("int8", [1], {}, root="memory://x", url="f"), 2),
    "inline-td-s": (inline("timedelta64[s]", [1, 2], {"units": "s"}), 2),
    "inline-td-no-encoding": (inline("timedelta64[ms]", [-1, 0]), 2),
    "inline-td-generic": (inline("timedelta64", [1, 2], {"units": "generic"}), 2),
    "inline-td-nat": (inline("timedelta64[us]", [1, -9223372036854775808], {"units": "us"}), 2),
    "inline-dt-s": (
        inline("datetime64[s]", [0, 60], {"units": "s", "reference": "2019-01-01T00:00:00"}),
        2,
    ),
    "inline-dt-mixed-units": (
        inline(
            "datetime64[s]",
            [0, 120000],
            {"units": "ms", "reference": "1997-05-27T00:00:00.000"},
        ),
        2,
    ),
    "inline-dt-ns": (
        inline(
            "datetime64[ns]",
            [0, -1500000000, 0],
            {"units": "ns", "reference": "2020-01-01T00:00:00.500000000"},
        ),
        2,
    ),
    "inline-dt-2d": (
        inline("datetime64[D]", [[0, 1], [2, 4]], {"units": "D", "reference": "2000-01-01"}),
        2,
    ),
    "inline-dt-empty": (inline("datetime64[s]", [], {"units": "s", "reference": "NaT"}), 2),
    "inline-dt-nat": (
        inline(
            "datetime64[s]",
            [0, -9223372036854775808],
            {"units": "s", "reference": "2000-01-01T00:00:00"},
        ),
        2,
    ),
    "inline-dt-no-encoding": (inline("datetime64[s]", [0, 60]), 2),
    "inline-dt-no-reference": (inline("datetime64[s]", [0, 60], {"units": "s"}), 2),
    "inline-dt-no-units": (
        inline("datetime64[s]", [0, 60], {"reference": "2019-01-01T00:00:00"}),
        2,
    ),
    "inline-dt-bad-units": (
        inline("datetime64[s]", [0], {"units": "parsec", "reference": "2019-01-01"}),
        2,
    ),
    "inline-dt-bad-reference": (
        inline("datetime64[s]", [0], {"units": "s", "reference": "yesterday"}),
        2,
    ),
    "inline-no-dtype": ({"__type__": "array", "data": [1]}, 2),
    "inline-no-data": ({"__type__": "array", "dtype": "int8"}, 2),
    "inline-no-data-no-dtype": ({"__type__": "array"}, 2),
    "inline-dt-no-data": (
        {"__type__": "array", "dtype": "datetime64[s]", "encoding": {"units": "s"}},
        2,
    ),
    "inline-bad-dtype": (inline("not-a-dtype", [1], {}), 2),
    "inline-none-dtype": (inline(None, [1], {}), 2),
    "inline-with-get": (WithGet(inline("int8", [1, 2], {})), 2),
    # backend arrays
    "backend-int16": (backend(), 1),
    "backend-complex": (backend(dtype="complex64", type_code="C*8"), 3),
    "backend-rpc-none": (backend(), None),
    "backend-rpc-minus-one": (backend(), -1),
    "backend-rpc-large": (backend(), 100),
    "backend-rpc-auto": (backend(), "auto"),
    "backend-rpc-bytes": (backend(), "10B"),
    "backend-rpc-bad-str": (backend(), "a lot"),
    "backend-rpc-zero": (backend(), 0),
    "backend-lists": (backend(shape=[4, 3], byte_ranges=[[5, 10], [15, 20], [25, 30], [35, 40]]), 2),
    "backend-empty": (backend(shape=(0, 3), byte_ranges=[]), 2),
    "backend-root-memory-bare": (backend(root="memory://"), 2),
    "backend-root-memory-nested": (backend(root="memory://a/b/c", url="d/e"), 2),
    "backend-root-local": (backend(root="/path/to/data"), 2),
    "backend-root-file-url": (backend(root="file:///path/to/data"), 2),
    "backend-root-relative": (backend(root="memory://relative"), 2),
    "backend-root-unknown-protocol": (backend(root="nosuchprotocol://x"), 2),
    "backend-root-none": (backend(root=None), 2),
    "backend-root-int": (backend(root=5), 2),
    "backend-bad-type-code": (backend(type_code="XYZ"), 2),
    "backend-no-type": (without(backend(), "__type__"), 2),
    "backend-other-type": (backend(__type__="variable"), 2),
    "backend-type-none": (backend(__type__=None), 2),
    "backend-type-Array": (backend(__type__="Array"), 2),
    "backend-type-list": (backend(__type__=["array"]), 2),
    "backend-extra-keys": (backend(data=[1, 2], encoding={}, other=1), 2),
    "backend-with-get": (WithGet(backend()), 2),
    # missing keys: the first missing key (in the order of the lookups) is reported
    "backend-missing-root": (without(backend(), "root"), 2),
    "backend-missing-type_code": (without(backend(), "type_code"), 2),
    "backend-missing-url": (without(backend(), "url"), 2),
    "backend-missing-shape": (without(backend(), "shape"), 2),
    "backend-missing-dtype": (without(backend(), "dtype"), 2),
    "backend-missing-byte_ranges": (without(backend(), "byte_ranges"), 2),
    "backend-missing-root+url": (without(backend(), "root", "url"), 2),
    "backend-missing-type_code+url": (without(backend(), "type_code", "url"), 2),
    "backend-missing-url+shape": (without(backend(), "url", "shape"), 2),
    "backend-missing-url+byte_ranges": (without(backend(), "url", "byte_ranges"), 2),
    "backend-missing-shape+dtype": (without(backend(), "shape", "dtype"), 2),
    "backend-missing-dtype+byte_ranges": (without(backend(), "dtype", "byte_ranges"), 2),
    "backend-missing-byte_ranges+type_code": (without(backend(), "byte_ranges", "type_code"), 2),
    "backend-missing-all": ({"__type__": "backend_array"}, 2),
    "backend-bad-root-missing-url": (without(backend(root="nosuchprotocol://x"), "url"), 2),
    "empty-dict": ({}, 2),
    # not mappings
    "not-a-mapping-list": ([1, 2], 2),
    "not-a-mapping-none": (None, 2),
    "not-a-mapping-str": ("array", 2),
    "not-a-mapping-ndarray": (np.array([1, 2]), 2),
}


def case_calling_conventions():
    return [
        decoders.decode_array(inline("int8", [1], {}), 2),
        decoders.decode_array(inline("int8", [1], {}), records_per_chunk=2),
        decoders.decode_array(encoded=backend(), records_per_chunk=2),
        decoders.decode_array(records_per_chunk=3, encoded=backend()),
    ]


def case_patched_datetime_decoder():
    """decode_datetime is looked up in the module at call time"""
    saved = decoders.decode_datetime
    calls = []

    def fake(obj):
        calls.append(sorted(obj))
        return "patched"

    decoders.decode_datetime = fake
    try:
        results = [
            decoders.decode_array(inline("datetime64[s]", [0], {"units": "s", "reference": "NaT"}), 1),
            decoders.decode_array(inline("timedelta64[s]", [0], {"units": "s"}), 1),
            decoders.decode_array(inline("int8", [0], {}), 1),
        ]
    finally:
        decoders.decode_datetime = saved
    return [results, calls]


def case_no_mutation():
    encoded1 = backend()
    encoded2 = inline("datetime64[s]", [0, 60], {"units": "s", "reference": "2019-01-01T00:00:00"})
    before = [json.dumps(encoded1), json.dumps(encoded2)]
    arr1 = decoders.decode_array(encoded1, 2)
    decoders.decode_array(encoded2, 2)
    after = [json.dumps(encoded1), json.dumps(encoded2)]
    return [
        before == after,
        arr1.byte_ranges is encoded1["byte_ranges"],
        arr1.shape is encoded1["shape"],
    ]


def case_fresh_filesystems():
    """every decoded array gets its own DirFileSystem around the same cached fs"""
    arr1 = decoders.decode_array(backend(), 2)
    arr2 = decoders.decode_array(backend(), 2)
    return [arr1.fs is arr2.fs, arr1.fs == arr2.fs, arr1.fs.fs is arr2.fs.fs, arr1 == arr2]


def case_variable():
    return [
        decoders.decode_variable(
            {"__type__": "variable", "dims": ["x", "y"], "data": backend(), "attrs": {"a": 1}},
            records_per_chunk=3,
        ),
        decoders.decode_variable(
            {"dims": "t", "data": inline("timedelta64[s]", [1, 2], {"units": "s"}), "attrs": {}},
            records_per_chunk=None,
        ),
    ]


HIERARCHY = {
    "__type__": "group",
    "url": "s3://bucket/scene",
    "path": "/",
    "attrs": {"shape": (2, 3)},
    "data": {
        "t": {
            "__type__": "variable",
            "dims": ["t"],
            "data": inline(
                "datetime64[s]",
                [0, 172800],
                {"units": "s", "reference": "2000-01-01T00:00:00"},
            ),
            "attrs": {},
        },
        "sub": {
            "__type__": "group",
            "url": None,
            "path": "/sub",
            "attrs": {"n": 1},
            "data": {
                "img": {
                    "__type__": "variable",
                    "dims": ["rows", "cols"],
                    "data": backend(dtype="complex64", type_code="C*8"),
                    "attrs": {"units": "dn"},
                }
            },
        },
        "x": {
            "__type__": "variable",
            "dims": ["x"],
            "data": inline("float64", [1.0, 2.0], {}),
            "attrs": {},
        },
    },
}


def case_hierarchy():
    return [
        decoders.decode_group(HIERARCHY, records_per_chunk=2),
        decoders.decode_hierarchy(HIERARCHY, records_per_chunk="auto"),
    ]


def case_json_roundtrip():
    group = decoders.decode_hierarchy(HIERARCHY, records_per_chunk=2)
    text = caching.encode(group)
    return [text, caching.decode(text, records_per_chunk=4)]


def case_json_broken_backend():
    text = json.dumps(
        {
            "__type__": "variable",
            "dims": ["x", "y"],
            "attrs": {},
            "data": {"__type__": "backend_array", "root": "memory:///r", "url": "f"},
        }
    )
    return caching.decode(text, records_per_chunk=4)


def run_cases():
    results = {}
    for name, (encoded, rpc) in ARRAY_CASES.items():
        results[f"decode_array/{name}"] = outcome(decoders.decode_array, encoded, rpc)
    results["calling-conventions"] = outcome(case_calling_conventions)
    results["missing-rpc"] = outcome(decoders.decode_array, backend())
    results["missing-rpc-inline"] = outcome(decoders.decode_array, inline("int8", [1], {}))
    results["patched-datetime-decoder"] = outcome(case_patched_datetime_decoder)
    results["no-mutation"] = outcome(case_no_mutation)
    results["fresh-filesystems"] = outcome(case_fresh_filesystems)
    results["variable"] = outcome(case_variable)
    results["hierarchy"] = outcome(case_hierarchy)
    results["json-roundtrip"] = outcome(case_json_roundtrip)
    results["json-broken-backend"] = outcome(case_json_broken_backend)
    return results


EXPECTED = {}  # replaced below by the recorded table


def check():
    actual = run_cases()
    assert list(actual) == list(EXPECTED), "case list changed"
    mismatches = [name for name in actual if actual[name] != EXPECTED[name]]
    for name in mismatches:
        print(f"MISMATCH {name}\n  expected: {EXPECTED[name]}\n  actual:   {actual[name]}")
    assert not mismatches, mismatches
    return len(actual)


def test_equivalence():
    check()


# --- recorded from the unchanged code (HEAD) -------------------------------------------
# RECORDED-TABLE
EXPECTED = {
    'decode_array/inline-int8': 'ndarray<int8, (2,)>([1, 2]) | get_mapper calls: []',
    'decode_array/inline-int8-no-encoding': 'ndarray<int8, (2,)>([1, 2]) | get_mapper calls: []',
    'decode_array/inline-float32-2d': 'ndarray<float32, (2, 2)>([[1.5, 2.0], [3.0, 4.0]]) | get_mapper calls: []',
    'decode_array/inline-float-from-int-dtype': 'ndarray<int16, (2,)>([1, 2]) | get_mapper calls: []',
    'decode_array/inline-empty': 'ndarray<float64, (0,)>([]) | get_mapper calls: []',
    'decode_array/inline-scalar': 'ndarray<int64, ()>(5) | get_mapper calls: []',
    'decode_array/inline-bool': 'ndarray<bool, (2,)>([True, False]) | get_mapper calls: []',
    'decode_array/inline-str': "ndarray<<U2, (2,)>(['HH', 'HV']) | get_mapper calls: []",
    'decode_array/inline-str-truncating': "ndarray<<U1, (2,)>(['H', 'H']) | get_mapper calls: []",
    'decode_array/inline-object': "ndarray<object, (2,)>([{'a': 1}, None]) | get_mapper calls: []",
    'decode_array/inline-bigendian': 'ndarray<>i4, (2,)>([1, 2]) | get_mapper calls: []',
    'decode_array/inline-complex': 'ndarray<complex64, (1,)>([(1+2j)]) | get_mapper calls: []',
    'decode_array/inline-npdtype': 'ndarray<uint8, (2,)>([1, 2]) | get_mapper calls: []',
    'decode_array/inline-overflow': 'raised OverflowError: Python integer 300 out of bounds for int8 | get_mapper calls: []',
    'decode_array/inline-ragged': 'raised ValueError: setting an array element with a sequence. The requested array has an inhomogeneous shape after 1 dimensions. The detected shape was (2,) + inhomogeneous part. | get_mapper calls: []',
    'decode_array/inline-extra-keys': 'ndarray<int8, (1,)>([1]) | get_mapper calls: []',
    'decode_array/inline-td-s': 'ndarray<timedelta64[s], (2,)>([datetime.timedelta(seconds=1), datetime.timedelta(seconds=2)]) | get_mapper calls: []',
    'decode_array/inline-td-no-encoding': 'ndarray<timedelta64[ms], (2,)>([datetime.timedelta(days=-1, seconds=86399, microseconds=999000), datetime.timedelta(0)]) | get_mapper calls: []',
    'decode_array/inline-td-generic': 'ndarray<timedelta64, (2,)>([1, 2]) | get_mapper calls: []',
    'decode_array/inline-td-nat': 'ndarray<timedelta64[us], (2,)>([datetime.timedelta(microseconds=1), None]) | get_mapper calls: []',
    'decode_array/inline-dt-s': 'ndarray<datetime64[s], (2,)>([datetime.datetime(2019, 1, 1, 0, 0), datetime.datetime(2019, 1, 1, 0, 1)]) | get_mapper calls: []',
    'decode_array/inline-dt-mixed-units': 'ndarray<datetime64[ms], (2,)>([datetime.datetime(1997, 5, 27, 0, 0), datetime.datetime(1997, 5, 27, 0, 2)]) | get_mapper calls: []',
    'decode_array/inline-dt-ns': 'ndarray<datetime64[ns], (3,)>([1577836800500000000, 1577836799000000000, 1577836800500000000]) | get_mapper calls: []',
    'decode_array/inline-dt-2d': 'ndarray<datetime64[D], (2, 2)>([[datetime.date(2000, 1, 1), datetime.date(2000, 1, 2)], [datetime.date(2000, 1, 3), datetime.date(2000, 1, 5)]]) | get_mapper calls: []',
    'decode_array/inline-dt-empty': 'ndarray<datetime64[s], (0,)>([]) | get_mapper calls: []',
    'decode_array/inline-dt-nat': 'ndarray<datetime64[s], (2,)>([datetime.datetime(2000, 1, 1, 0, 0), None]) | get_mapper calls: []',
    'decode_array/inline-dt-no-encoding': "raised KeyError: 'encoding' | get_mapper calls: []",
    'decode_array/inline-dt-no-reference': "raised KeyError: 'reference' | get_mapper calls: []",
    'decode_array/inline-dt-no-units': "raised KeyError: 'units' | get_mapper calls: []",
    'decode_array/inline-dt-bad-units': 'raised TypeError: Invalid datetime unit in metadata string "[parsec]" | get_mapper calls: []',
    'decode_array/inline-dt-bad-reference': 'raised ValueError: Error parsing datetime string "yesterday" at position 0 | get_mapper calls: []',
    'decode_array/inline-no-dtype': "raised KeyError: 'dtype' | get_mapper calls: []",
    'decode_array/inline-no-data': "raised KeyError: 'data' | get_mapper calls: []",
    'decode_array/inline-no-data-no-dtype': "raised KeyError: 'dtype' | get_mapper calls: []",
    'decode_array/inline-dt-no-data': "raised KeyError: 'reference' | get_mapper calls: []",
    'decode_array/inline-bad-dtype': "raised TypeError: data type 'not-a-dtype' not understood | get_mapper calls: []",
    'decode_array/inline-none-dtype': 'ndarray<int64, (1,)>([1]) | get_mapper calls: []',
    'decode_array/inline-with-get': 'ndarray<int8, (2,)>([1, 2]) | get_mapper calls: []',
    'decode_array/backend-int16': "Array<dict{str('fs'): str('fsspec.implementations.dirfs.DirFileSystem'), str('fs.path'): str('/path/to'), str('fs.fs'): str('fsspec.implementations.memory.MemoryFileSystem'), str('url'): str('file'), str('byte_ranges'): list[tuple[int(5), int(10)], tuple[int(15), int(20)], tuple[int(25), int(30)], tuple[int(35), int(40)]], str('shape'): tuple[int(4), int(3)], str('dtype'): str('int16'), str('type_code'): str('IU2'), str('records_per_chunk'): int(1), str('chunk_offsets'): dict{int(0): dict{str('offset'): int(5), str('size'): int(5)}, int(1): dict{str('offset'): int(15), str('size'): int(5)}, int(2): dict{str('offset'): int(25), str('size'): int(5)}, int(3): dict{str('offset'): int(35), str('size'): int(5)}}}> | get_mapper calls: [(('memory:///path/to',), {})]",
    'decode_array/backend-complex': "Array<dict{str('fs'): str('fsspec.implementations.dirfs.DirFileSystem'), str('fs.path'): str('/path/to'), str('fs.fs'): str('fsspec.implementations.memory.MemoryFileSystem'), str('url'): str('file'), str('byte_ranges'): list[tuple[int(5), int(10)], tuple[int(15), int(20)], tuple[int(25), int(30)], tuple[int(35), int(40)]], str('shape'): tuple[int(4), int(3)], str('dtype'): str('complex64'), str('type_code'): str('C*8'), str('records_per_chunk'): int(3), str('chunk_offsets'): dict{int(0): dict{str('offset'): int(5), str('size'): int(25)}, int(1): dict{str('offset'): int(35), str('size'): int(5)}}}> | get_mapper calls: [(('memory:///path/to',), {})]",
    'decode_array/backend-rpc-none': "Array<dict{str('fs'): str('fsspec.implementations.dirfs.DirFileSystem'), str('fs.path'): str('/path/to'), str('fs.fs'): str('fsspec.implementations.memory.MemoryFileSystem'), str('url'): str('file'), str('byte_ranges'): list[tuple[int(5), int(10)], tuple[int(15), int(20)], tuple[int(25), int(30)], tuple[int(35), int(40)]], str('shape'): tuple[int(4), int(3)], str('dtype'): str('int16'), str('type_code'): str('IU2'), str('records_per_chunk'): int(1024), str('chunk_offsets'): dict{int(0): dict{str('offset'): int(5), str('size'): int(35)}}}> | get_mapper calls: [(('memory:///path/to',), {})]",
    'decode_array/backend-rpc-minus-one': "Array<dict{str('fs'): str('fsspec.implementations.dirfs.DirFileSystem'), str('fs.path'): str('/path/to'), str('fs.fs'): str('fsspec.implementations.memory.MemoryFileSystem'), str('url'): str('file'), str('byte_ranges'): list[tuple[int(5), int(10)], tuple[int(15), int(20)], tuple[int(25), int(30)], tuple[int(35), int(40)]], str('shape'): tuple[int(4), int(3)], str('dtype'): str('int16'), str('type_code'): str('IU2'), str('records_per_chunk'): int(4), str('chunk_offsets'): dict{int(0): dict{str('offset'): int(5), str('size'): int(35)}}}> | get_mapper calls: [(('memory:///path/to',), {})]",
    'decode_array/backend-rpc-large': "Array<dict{str('fs'): str('fsspec.implementations.dirfs.DirFileSystem'), str('fs.path'): str('/path/to'), str('fs.fs'): str('fsspec.implementations.memory.MemoryFileSystem'), str('url'): str('file'), str('byte_ranges'): list[tuple[int(5), int(10)], tuple[int(15), int(20)], tuple[int(25), int(30)], tuple[int(35), int(40)]], str('shape'): tuple[int(4), int(3)], str('dtype'): str('int16'), str('type_code'): str('IU2'), str('records_per_chunk'): int(4), str('chunk_offsets'): dict{int(0): dict{str('offset'): int(5), str('size'): int(35)}}}> | get_mapper calls: [(('memory:///path/to',), {})]",
    'decode_array/backend-rpc-auto': "Array<dict{str('fs'): str('fsspec.implementations.dirfs.DirFileSystem'), str('fs.path'): str('/path/to'), str('fs.fs'): str('fsspec.implementations.memory.MemoryFileSystem'), str('url'): str('file'), str('byte_ranges'): list[tuple[int(5), int(10)], tuple[int(15), int(20)], tuple[int(25), int(30)], tuple[int(35), int(40)]], str('shape'): tuple[int(4), int(3)], str('dtype'): str('int16'), str('type_code'): str('IU2'), str('records_per_chunk'): int64<int64>(np.int64(4)), str('chunk_offsets'): dict{int(0): dict{str('offset'): int(5), str('size'): int(35)}}}> | get_mapper calls: [(('memory:///path/to',), {})]",
    'decode_array/backend-rpc-bytes': "Array<dict{str('fs'): str('fsspec.implementations.dirfs.DirFileSystem'), str('fs.path'): str('/path/to'), str('fs.fs'): str('fsspec.implementations.memory.MemoryFileSystem'), str('url'): str('file'), str('byte_ranges'): list[tuple[int(5), int(10)], tuple[int(15), int(20)], tuple[int(25), int(30)], tuple[int(35), int(40)]], str('shape'): tuple[int(4), int(3)], str('dtype'): str('int16'), str('type_code'): str('IU2'), str('records_per_chunk'): int64<int64>(np.int64(2)), str('chunk_offsets'): dict{int(0): dict{str('offset'): int(5), str('size'): int(15)}, int(1): dict{str('offset'): int(25), str('size'): int(15)}}}> | get_mapper calls: [(('memory:///path/to',), {})]",
    'decode_array/backend-rpc-bad-str': "raised ValueError: Could not interpret 'alot' as a byte unit | get_mapper calls: [(('memory:///path/to',), {})]",
    'decode_array/backend-rpc-zero': "Array<dict{str('fs'): str('fsspec.implementations.dirfs.DirFileSystem'), str('fs.path'): str('/path/to'), str('fs.fs'): str('fsspec.implementations.memory.MemoryFileSystem'), str('url'): str('file'), str('byte_ranges'): list[tuple[int(5), int(10)], tuple[int(15), int(20)], tuple[int(25), int(30)], tuple[int(35), int(40)]], str('shape'): tuple[int(4), int(3)], str('dtype'): str('int16'), str('type_code'): str('IU2'), str('records_per_chunk'): int(0), str('chunk_offsets'): dict{}}> | get_mapper calls: [(('memory:///path/to',), {})]",
    'decode_array/backend-lists': "Array<dict{str('fs'): str('fsspec.implementations.dirfs.DirFileSystem'), str('fs.path'): str('/path/to'), str('fs.fs'): str('fsspec.implementations.memory.MemoryFileSystem'), str('url'): str('file'), str('byte_ranges'): list[list[int(5), int(10)], list[int(15), int(20)], list[int(25), int(30)], list[int(35), int(40)]], str('shape'): list[int(4), int(3)], str('dtype'): str('int16'), str('type_code'): str('IU2'), str('records_per_chunk'): int(2), str('chunk_offsets'): dict{int(0): dict{str('offset'): int(5), str('size'): int(15)}, int(1): dict{str('offset'): int(25), str('size'): int(15)}}}> | get_mapper calls: [(('memory:///path/to',), {})]",
    'decode_array/backend-empty': "Array<dict{str('fs'): str('fsspec.implementations.dirfs.DirFileSystem'), str('fs.path'): str('/path/to'), str('fs.fs'): str('fsspec.implementations.memory.MemoryFileSystem'), str('url'): str('file'), str('byte_ranges'): list[], str('shape'): tuple[int(0), int(3)], str('dtype'): str('int16'), str('type_code'): str('IU2'), str('records_per_chunk'): int(0), str('chunk_offsets'): dict{}}> | get_mapper calls: [(('memory:///path/to',), {})]",
    'decode_array/backend-root-memory-bare': "raised AttributeError: 'NoneType' object has no attribute 'removeprefix' | get_mapper calls: [(('memory://',), {})]",
    'decode_array/backend-root-memory-nested': "Array<dict{str('fs'): str('fsspec.implementations.dirfs.DirFileSystem'), str('fs.path'): str('/a/b/c'), str('fs.fs'): str('fsspec.implementations.memory.MemoryFileSystem'), str('url'): str('d/e'), str('byte_ranges'): list[tuple[int(5), int(10)], tuple[int(15), int(20)], tuple[int(25), int(30)], tuple[int(35), int(40)]], str('shape'): tuple[int(4), int(3)], str('dtype'): str('int16'), str('type_code'): str('IU2'), str('records_per_chunk'): int(2), str('chunk_offsets'): dict{int(0): dict{str('offset'): int(5), str('size'): int(15)}, int(1): dict{str('offset'): int(25), str('size'): int(15)}}}> | get_mapper calls: [(('memory://a/b/c',), {})]",
    'decode_array/backend-root-local': "Array<dict{str('fs'): str('fsspec.implementations.dirfs.DirFileSystem'), str('fs.path'): str('/path/to/data'), str('fs.fs'): str('fsspec.implementations.local.LocalFileSystem'), str('url'): str('file'), str('byte_ranges'): list[tuple[int(5), int(10)], tuple[int(15), int(20)], tuple[int(25), int(30)], tuple[int(35), int(40)]], str('shape'): tuple[int(4), int(3)], str('dtype'): str('int16'), str('type_code'): str('IU2'), str('records_per_chunk'): int(2), str('chunk_offsets'): dict{int(0): dict{str('offset'): int(5), str('size'): int(15)}, int(1): dict{str('offset'): int(25), str('size'): int(15)}}}> | get_mapper calls: [(('/path/to/data',), {})]",
    'decode_array/backend-root-file-url': "Array<dict{str('fs'): str('fsspec.implementations.dirfs.DirFileSystem'), str('fs.path'): str('/path/to/data'), str('fs.fs'): str('fsspec.implementations.local.LocalFileSystem'), str('url'): str('file'), str('byte_ranges'): list[tuple[int(5), int(10)], tuple[int(15), int(20)], tuple[int(25), int(30)], tuple[int(35), int(40)]], str('shape'): tuple[int(4), int(3)], str('dtype'): str('int16'), str('type_code'): str('IU2'), str('records_per_chunk'): int(2), str('chunk_offsets'): dict{int(0): dict{str('offset'): int(5), str('size'): int(15)}, int(1): dict{str('offset'): int(25), str('size'): int(15)}}}> | get_mapper calls: [(('file:///path/to/data',), {})]",
    'decode_array/backend-root-relative': "Array<dict{str('fs'): str('fsspec.implementations.dirfs.DirFileSystem'), str('fs.path'): str('/relative'), str('fs.fs'): str('fsspec.implementations.memory.MemoryFileSystem'), str('url'): str('file'), str('byte_ranges'): list[tuple[int(5), int(10)], tuple[int(15), int(20)], tuple[int(25), int(30)], tuple[int(35), int(40)]], str('shape'): tuple[int(4), int(3)], str('dtype'): str('int16'), str('type_code'): str('IU2'), str('records_per_chunk'): int(2), str('chunk_offsets'): dict{int(0): dict{str('offset'): int(5), str('size'): int(15)}, int(1): dict{str('offset'): int(25), str('size'): int(15)}}}> | get_mapper calls: [(('memory://relative',), {})]",
    'decode_array/backend-root-unknown-protocol': "raised ValueError: Protocol not known: nosuchprotocol | get_mapper calls: [(('nosuchprotocol://x',), {})]",
    'decode_array/backend-root-none': "raised TypeError: argument of type 'NoneType' is not iterable | get_mapper calls: [((None,), {})]",
    'decode_array/backend-root-int': "raised TypeError: argument of type 'int' is not iterable | get_mapper calls: [((5,), {})]",
    'decode_array/backend-bad-type-code': "Array<dict{str('fs'): str('fsspec.implementations.dirfs.DirFileSystem'), str('fs.path'): str('/path/to'), str('fs.fs'): str('fsspec.implementations.memory.MemoryFileSystem'), str('url'): str('file'), str('byte_ranges'): list[tuple[int(5), int(10)], tuple[int(15), int(20)], tuple[int(25), int(30)], tuple[int(35), int(40)]], str('shape'): tuple[int(4), int(3)], str('dtype'): str('int16'), str('type_code'): str('XYZ'), str('records_per_chunk'): int(2), str('chunk_offsets'): dict{int(0): dict{str('offset'): int(5), str('size'): int(15)}, int(1): dict{str('offset'): int(25), str('size'): int(15)}}}> | get_mapper calls: [(('memory:///path/to',), {})]",
    'decode_array/backend-no-type': "Array<dict{str('fs'): str('fsspec.implementations.dirfs.DirFileSystem'), str('fs.path'): str('/path/to'), str('fs.fs'): str('fsspec.implementations.memory.MemoryFileSystem'), str('url'): str('file'), str('byte_ranges'): list[tuple[int(5), int(10)], tuple[int(15), int(20)], tuple[int(25), int(30)], tuple[int(35), int(40)]], str('shape'): tuple[int(4), int(3)], str('dtype'): str('int16'), str('type_code'): str('IU2'), str('records_per_chunk'): int(2), str('chunk_offsets'): dict{int(0): dict{str('offset'): int(5), str('size'): int(15)}, int(1): dict{str('offset'): int(25), str('size'): int(15)}}}> | get_mapper calls: [(('memory:///path/to',), {})]",
    'decode_array/backend-other-type': "Array<dict{str('fs'): str('fsspec.implementations.dirfs.DirFileSystem'), str('fs.path'): str('/path/to'), str('fs.fs'): str('fsspec.implementations.memory.MemoryFileSystem'), str('url'): str('file'), str('byte_ranges'): list[tuple[int(5), int(10)], tuple[int(15), int(20)], tuple[int(25), int(30)], tuple[int(35), int(40)]], str('shape'): tuple[int(4), int(3)], str('dtype'): str('int16'), str('type_code'): str('IU2'), str('records_per_chunk'): int(2), str('chunk_offsets'): dict{int(0): dict{str('offset'): int(5), str('size'): int(15)}, int(1): dict{str('offset'): int(25), str('size'): int(15)}}}> | get_mapper calls: [(('memory:///path/to',), {})]",
    'decode_array/backend-type-none': "Array<dict{str('fs'): str('fsspec.implementations.dirfs.DirFileSystem'), str('fs.path'): str('/path/to'), str('fs.fs'): str('fsspec.implementations.memory.MemoryFileSystem'), str('url'): str('file'), str('byte_ranges'): list[tuple[int(5), int(10)], tuple[int(15), int(20)], tuple[int(25), int(30)], tuple[int(35), int(40)]], str('shape'): tuple[int(4), int(3)], str('dtype'): str('int16'), str('type_code'): str('IU2'), str('records_per_chunk'): int(2), str('chunk_offsets'): dict{int(0): dict{str('offset'): int(5), str('size'): int(15)}, int(1): dict{str('offset'): int(25), str('size'): int(15)}}}> | get_mapper calls: [(('memory:///path/to',), {})]",
    'decode_array/backend-type-Array': "Array<dict{str('fs'): str('fsspec.implementations.dirfs.DirFileSystem'), str('fs.path'): str('/path/to'), str('fs.fs'): str('fsspec.implementations.memory.MemoryFileSystem'), str('url'): str('file'), str('byte_ranges'): list[tuple[int(5), int(10)], tuple[int(15), int(20)], tuple[int(25), int(30)], tuple[int(35), int(40)]], str('shape'): tuple[int(4), int(3)], str('dtype'): str('int16'), str('type_code'): str('IU2'), str('records_per_chunk'): int(2), str('chunk_offsets'): dict{int(0): dict{str('offset'): int(5), str('size'): int(15)}, int(1): dict{str('offset'): int(25), str('size'): int(15)}}}> | get_mapper calls: [(('memory:///path/to',), {})]",
    'decode_array/backend-type-list': "Array<dict{str('fs'): str('fsspec.implementations.dirfs.DirFileSystem'), str('fs.path'): str('/path/to'), str('fs.fs'): str('fsspec.implementations.memory.MemoryFileSystem'), str('url'): str('file'), str('byte_ranges'): list[tuple[int(5), int(10)], tuple[int(15), int(20)], tuple[int(25), int(30)], tuple[int(35), int(40)]], str('shape'): tuple[int(4), int(3)], str('dtype'): str('int16'), str('type_code'): str('IU2'), str('records_per_chunk'): int(2), str('chunk_offsets'): dict{int(0): dict{str('offset'): int(5), str('size'): int(15)}, int(1): dict{str('offset'): int(25), str('size'): int(15)}}}> | get_mapper calls: [(('memory:///path/to',), {})]",
    'decode_array/backend-extra-keys': "Array<dict{str('fs'): str('fsspec.implementations.dirfs.DirFileSystem'), str('fs.path'): str('/path/to'), str('fs.fs'): str('fsspec.implementations.memory.MemoryFileSystem'), str('url'): str('file'), str('byte_ranges'): list[tuple[int(5), int(10)], tuple[int(15), int(20)], tuple[int(25), int(30)], tuple[int(35), int(40)]], str('shape'): tuple[int(4), int(3)], str('dtype'): str('int16'), str('type_code'): str('IU2'), str('records_per_chunk'): int(2), str('chunk_offsets'): dict{int(0): dict{str('offset'): int(5), str('size'): int(15)}, int(1): dict{str('offset'): int(25), str('size'): int(15)}}}> | get_mapper calls: [(('memory:///path/to',), {})]",
    'decode_array/backend-with-get': "Array<dict{str('fs'): str('fsspec.implementations.dirfs.DirFileSystem'), str('fs.path'): str('/path/to'), str('fs.fs'): str('fsspec.implementations.memory.MemoryFileSystem'), str('url'): str('file'), str('byte_ranges'): list[tuple[int(5), int(10)], tuple[int(15), int(20)], tuple[int(25), int(30)], tuple[int(35), int(40)]], str('shape'): tuple[int(4), int(3)], str('dtype'): str('int16'), str('type_code'): str('IU2'), str('records_per_chunk'): int(2), str('chunk_offsets'): dict{int(0): dict{str('offset'): int(5), str('size'): int(15)}, int(1): dict{str('offset'): int(25), str('size'): int(15)}}}> | get_mapper calls: [(('memory:///path/to',), {})]",
    'decode_array/backend-missing-root': "raised KeyError: 'root' | get_mapper calls: []",
    'decode_array/backend-missing-type_code': "raised KeyError: 'type_code' | get_mapper calls: [(('memory:///path/to',), {})]",
    'decode_array/backend-missing-url': "raised KeyError: 'url' | get_mapper calls: [(('memory:///path/to',), {})]",
    'decode_array/backend-missing-shape': "raised KeyError: 'shape' | get_mapper calls: [(('memory:///path/to',), {})]",
    'decode_array/backend-missing-dtype': "raised KeyError: 'dtype' | get_mapper calls: [(('memory:///path/to',), {})]",
    'decode_array/backend-missing-byte_ranges': "raised KeyError: 'byte_ranges' | get_mapper calls: [(('memory:///path/to',), {})]",
    'decode_array/backend-missing-root+url': "raised KeyError: 'root' | get_mapper calls: []",
    'decode_array/backend-missing-type_code+url': "raised KeyError: 'type_code' | get_mapper calls: [(('memory:///path/to',), {})]",
    'decode_array/backend-missing-url+shape': "raised KeyError: 'url' | get_mapper calls: [(('memory:///path/to',), {})]",
    'decode_array/backend-missing-url+byte_ranges': "raised KeyError: 'url' | get_mapper calls: [(('memory:///path/to',), {})]",
    'decode_array/backend-missing-shape+dtype': "raised KeyError: 'shape' | get_mapper calls: [(('memory:///path/to',), {})]",
    'decode_array/backend-missing-dtype+byte_ranges': "raised KeyError: 'dtype' | get_mapper calls: [(('memory:///path/to',), {})]",
    'decode_array/backend-missing-byte_ranges+type_code': "raised KeyError: 'type_code' | get_mapper calls: [(('memory:///path/to',), {})]",
    'decode_array/backend-missing-all': "raised KeyError: 'root' | get_mapper calls: []",
    'decode_array/backend-bad-root-missing-url': "raised ValueError: Protocol not known: nosuchprotocol | get_mapper calls: [(('nosuchprotocol://x',), {})]",
    'decode_array/empty-dict': "raised KeyError: 'root' | get_mapper calls: []",
    'decode_array/not-a-mapping-list': "raised AttributeError: 'list' object has no attribute 'get' | get_mapper calls: []",
    'decode_array/not-a-mapping-none': "raised AttributeError: 'NoneType' object has no attribute 'get' | get_mapper calls: []",
    'decode_array/not-a-mapping-str': "raised AttributeError: 'str' object has no attribute 'get' | get_mapper calls: []",
    'decode_array/not-a-mapping-ndarray': "raised AttributeError: 'numpy.ndarray' object has no attribute 'get' | get_mapper calls: []",
    'calling-conventions': "list[ndarray<int8, (1,)>([1]), ndarray<int8, (1,)>([1]), Array<dict{str('fs'): str('fsspec.implementations.dirfs.DirFileSystem'), str('fs.path'): str('/path/to'), str('fs.fs'): str('fsspec.implementations.memory.MemoryFileSystem'), str('url'): str('file'), str('byte_ranges'): list[tuple[int(5), int(10)], tuple[int(15), int(20)], tuple[int(25), int(30)], tuple[int(35), int(40)]], str('shape'): tuple[int(4), int(3)], str('dtype'): str('int16'), str('type_code'): str('IU2'), str('records_per_chunk'): int(2), str('chunk_offsets'): dict{int(0): dict{str('offset'): int(5), str('size'): int(15)}, int(1): dict{str('offset'): int(25), str('size'): int(15)}}}>, Array<dict{str('fs'): str('fsspec.implementations.dirfs.DirFileSystem'), str('fs.path'): str('/path/to'), str('fs.fs'): str('fsspec.implementations.memory.MemoryFileSystem'), str('url'): str('file'), str('byte_ranges'): list[tuple[int(5), int(10)], tuple[int(15), int(20)], tuple[int(25), int(30)], tuple[int(35), int(40)]], str('shape'): tuple[int(4), int(3)], str('dtype'): str('int16'), str('type_code'): str('IU2'), str('records_per_chunk'): int(3), str('chunk_offsets'): dict{int(0): dict{str('offset'): int(5), str('size'): int(25)}, int(1): dict{str('offset'): int(35), str('size'): int(5)}}}>] | get_mapper calls: [(('memory:///path/to',), {}), (('memory:///path/to',), {})]",
    'missing-rpc': "raised TypeError: decode_array() missing 1 required positional argument: 'records_per_chunk' | get_mapper calls: []",
    'missing-rpc-inline': "raised TypeError: decode_array() missing 1 required positional argument: 'records_per_chunk' | get_mapper calls: []",
    'patched-datetime-decoder': "list[list[str('patched'), ndarray<timedelta64[s], (1,)>([datetime.timedelta(0)]), ndarray<int8, (1,)>([0])], list[list[str('__type__'), str('data'), str('dtype'), str('encoding')]]] | get_mapper calls: []",
    'no-mutation': "list[bool(True), bool(True), bool(True)] | get_mapper calls: [(('memory:///path/to',), {})]",
    'fresh-filesystems': "list[bool(True), bool(True), bool(True), bool(True)] | get_mapper calls: [(('memory:///path/to',), {}), (('memory:///path/to',), {})]",
    'variable': "list[Variable<list[str('x'), str('y')], Array<dict{str('fs'): str('fsspec.implementations.dirfs.DirFileSystem'), str('fs.path'): str('/path/to'), str('fs.fs'): str('fsspec.implementations.memory.MemoryFileSystem'), str('url'): str('file'), str('byte_ranges'): list[tuple[int(5), int(10)], tuple[int(15), int(20)], tuple[int(25), int(30)], tuple[int(35), int(40)]], str('shape'): tuple[int(4), int(3)], str('dtype'): str('int16'), str('type_code'): str('IU2'), str('records_per_chunk'): int(3), str('chunk_offsets'): dict{int(0): dict{str('offset'): int(5), str('size'): int(25)}, int(1): dict{str('offset'): int(35), str('size'): int(5)}}}>, dict{str('a'): int(1)}>, Variable<list[str('t')], ndarray<timedelta64[s], (2,)>([datetime.timedelta(seconds=1), datetime.timedelta(seconds=2)]), dict{}>] | get_mapper calls: [(('memory:///path/to',), {})]",
    'hierarchy': "list[Group<str('/'), str('s3://bucket/scene'), dict{str('t'): Variable<list[str('t')], ndarray<datetime64[s], (2,)>([datetime.datetime(2000, 1, 1, 0, 0), datetime.datetime(2000, 1, 3, 0, 0)]), dict{}>, str('sub'): Group<str('/sub'), str('s3://bucket/scene'), dict{str('img'): Variable<list[str('rows'), str('cols')], Array<dict{str('fs'): str('fsspec.implementations.dirfs.DirFileSystem'), str('fs.path'): str('/path/to'), str('fs.fs'): str('fsspec.implementations.memory.MemoryFileSystem'), str('url'): str('file'), str('byte_ranges'): list[tuple[int(5), int(10)], tuple[int(15), int(20)], tuple[int(25), int(30)], tuple[int(35), int(40)]], str('shape'): tuple[int(4), int(3)], str('dtype'): str('complex64'), str('type_code'): str('C*8'), str('records_per_chunk'): int(2), str('chunk_offsets'): dict{int(0): dict{str('offset'): int(5), str('size'): int(15)}, int(1): dict{str('offset'): int(25), str('size'): int(15)}}}>, dict{str('units'): str('dn')}>}, dict{str('n'): int(1)}>, str('x'): Variable<list[str('x')], ndarray<float64, (2,)>([1.0, 2.0]), dict{}>}, dict{str('shape'): tuple[int(2), int(3)]}>, Group<str('/'), str('s3://bucket/scene'), dict{str('t'): Variable<list[str('t')], ndarray<datetime64[s], (2,)>([datetime.datetime(2000, 1, 1, 0, 0), datetime.datetime(2000, 1, 3, 0, 0)]), dict{}>, str('sub'): Group<str('/sub'), str('s3://bucket/scene'), dict{str('img'): Variable<list[str('rows'), str('cols')], Array<dict{str('fs'): str('fsspec.implementations.dirfs.DirFileSystem'), str('fs.path'): str('/path/to'), str('fs.fs'): str('fsspec.implementations.memory.MemoryFileSystem'), str('url'): str('file'), str('byte_ranges'): list[tuple[int(5), int(10)], tuple[int(15), int(20)], tuple[int(25), int(30)], tuple[int(35), int(40)]], str('shape'): tuple[int(4), int(3)], str('dtype'): str('complex64'), str('type_code'): str('C*8'), str('records_per_chunk'): int64<int64>(np.int64(4)), str('chunk_offsets'): dict{int(0): dict{str('offset'): int(5), str('size'): int(35)}}}>, dict{str('units'): str('dn')}>}, dict{str('n'): int(1)}>, str('x'): Variable<list[str('x')], ndarray<float64, (2,)>([1.0, 2.0]), dict{}>}, dict{str('shape'): tuple[int(2), int(3)]}>] | get_mapper calls: [(('memory:///path/to',), {}), (('memory:///path/to',), {})]",
    'json-roundtrip': 'list[str(\'{"__type__": "group", "url": "s3://bucket/scene", "data": {"t": {"__type__": "variable", "dims": ["t"], "data": {"__type__": "array", "dtype": "datetime64[s]", "data": [0, 172800], "encoding": {"reference": "2000-01-01T00:00:00", "units": "s"}}, "attrs": {}}, "sub": {"__type__": "group", "url": "s3://bucket/scene", "data": {"img": {"__type__": "variable", "dims": ["rows", "cols"], "data": {"__type__": "backend_array", "root": "/path/to", "url": "file", "shape": {"__type__": "tuple", "data": [4, 3]}, "dtype": "complex64", "byte_ranges": [{"__type__": "tuple", "data": [5, 10]}, {"__type__": "tuple", "data": [15, 20]}, {"__type__": "tuple", "data": [25, 30]}, {"__type__": "tuple", "data": [35, 40]}], "type_code": "C*8"}, "attrs": {"units": "dn"}}}, "path": "/sub", "attrs": {"n": 1}}, "x": {"__type__": "variable", "dims": ["x"], "data": {"__type__": "array", "dtype": "float64", "data": [1.0, 2.0], "encoding": {}}, "attrs": {}}}, "path": "/", "attrs": {"shape": {"__type__": "tuple", "data": [2, 3]}}}\'), Group<str(\'/\'), str(\'s3://bucket/scene\'), dict{str(\'t\'): Variable<list[str(\'t\')], ndarray<datetime64[s], (2,)>([datetime.datetime(2000, 1, 1, 0, 0), datetime.datetime(2000, 1, 3, 0, 0)]), dict{}>, str(\'sub\'): Group<str(\'/sub\'), str(\'s3://bucket/scene\'), dict{str(\'img\'): Variable<list[str(\'rows\'), str(\'cols\')], Array<dict{str(\'fs\'): str(\'fsspec.implementations.dirfs.DirFileSystem\'), str(\'fs.path\'): str(\'/path/to\'), str(\'fs.fs\'): str(\'fsspec.implementations.local.LocalFileSystem\'), str(\'url\'): str(\'file\'), str(\'byte_ranges\'): list[tuple[int(5), int(10)], tuple[int(15), int(20)], tuple[int(25), int(30)], tuple[int(35), int(40)]], str(\'shape\'): tuple[int(4), int(3)], str(\'dtype\'): str(\'complex64\'), str(\'type_code\'): str(\'C*8\'), str(\'records_per_chunk\'): int(4), str(\'chunk_offsets\'): dict{int(0): dict{str(\'offset\'): int(5), str(\'size\'): int(35)}}}>, dict{str(\'units\'): str(\'dn\')}>}, dict{str(\'n\'): int(1)}>, str(\'x\'): Variable<list[str(\'x\')], ndarray<float64, (2,)>([1.0, 2.0]), dict{}>}, dict{str(\'shape\'): tuple[int(2), int(3)]}>] | get_mapper calls: [((\'memory:///path/to\',), {}), ((\'/path/to\',), {})]',
    'json-broken-backend': "raised KeyError: 'type_code' | get_mapper calls: [(('memory:///r',), {})]",
}


if __name__ == "__main__":
    if "--record" in sys.argv:
        print("EXPECTED = {")
        for key, value in run_cases().items():
            print(f"    {key!r}: {value!r},")
        print("}")
    else:
        print(f"{check()} cases identical to the recorded behaviour")
