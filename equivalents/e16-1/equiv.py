"""Equivalence checks for refactoring 1 (ceos_alos2/utils.py).

Exercises ``to_dict``, ``rename`` and ``remove_nesting_layer``. All expected
values were recorded from the unchanged code (HEAD); the script has to pass
both with and without ``patch.diff`` applied.

run with either of

    python _eq/1/equiv.py
    python -m pytest -q -p no:cacheprovider _eq/1/equiv.py
"""

import collections
import datetime

import pytest
from construct import (
    Array,
    Bytes,
    Container,
    Enum,
    EnumIntegerString,
    Int8ub,
    Int16ub,
    Struct,
)
from construct.lib.containers import ListContainer

from ceos_alos2 import utils
from ceos_alos2.datatypes import AsciiComplex, AsciiFloat, AsciiInteger, PaddedString


def typed(obj):
    """nested structure including the exact types (and the order of dict items)"""
    if isinstance(obj, dict):
        return (type(obj).__name__, [(k, typed(v)) for k, v in obj.items()])
    if isinstance(obj, (list, tuple)):
        return (type(obj).__name__, [typed(v) for v in obj])
    return (type(obj).__name__, repr(obj))


Point = collections.namedtuple("Point", ["x", "y"])


class MyList(list):
    pass


class MyTuple(tuple):
    pass


class MyDict(dict):
    pass


class MyInt(int):
    pass


# ---------------------------------------------------------------- to_dict


def test_to_dict_scalars_are_passed_through_identically():
    scalars = [
        0,
        -1,
        True,
        1.5,
        float("inf"),
        "",
        "abc",
        b"",
        b"\x00ab",
        1j,
        datetime.datetime(2020, 2, 29, 12, 0, 1, 5),
        MyInt(4),
    ]
    for scalar in scalars:
        assert utils.to_dict(scalar) is scalar


def test_to_dict_enum_string():
    value = EnumIntegerString.new(3, "three")
    actual = utils.to_dict(value)
    assert actual == "three"
    assert type(actual) is str

    nested = utils.to_dict({"a": [value, (value,)]})
    assert typed(nested) == (
        "dict",
        [("a", ("list", [("str", "'three'"), ("tuple", [("str", "'three'")])]))],
    )


def test_to_dict_sequences():
    assert typed(utils.to_dict([])) == ("list", [])
    assert typed(utils.to_dict(())) == ("tuple", [])
    assert typed(utils.to_dict(ListContainer())) == ("list", [])
    assert typed(utils.to_dict(ListContainer([1, ListContainer([2, (3,)])]))) == (
        "list",
        [("int", "1"), ("list", [("int", "2"), ("tuple", [("int", "3")])])],
    )
    assert typed(utils.to_dict(MyList([1, [2]]))) == (
        "MyList",
        [("int", "1"), ("list", [("int", "2")])],
    )
    assert typed(utils.to_dict(MyTuple((1, (2,))))) == (
        "MyTuple",
        [("int", "1"), ("tuple", [("int", "2")])],
    )


def test_to_dict_namedtuple_fails_the_same_way():
    with pytest.raises(TypeError) as excinfo:
        utils.to_dict(Point(1, 2))
    assert "missing 1 required positional argument: 'y'" in str(excinfo.value)


def test_to_dict_mappings():
    container = Container(
        _io=object(),
        b=Container(_io=None, z=1, a=ListContainer([Container(_io=1, q=b"x")])),
        a=MyDict({"_io": 1, "k": (1, [2.0])}),
    )
    expected = (
        "dict",
        [
            (
                "b",
                (
                    "dict",
                    [
                        ("z", ("int", "1")),
                        ("a", ("list", [("dict", [("q", ("bytes", "b'x'"))])])),
                    ],
                ),
            ),
            (
                "a",
                (
                    "dict",
                    [("k", ("tuple", [("int", "1"), ("list", [("float", "2.0")])]))],
                ),
            ),
        ],
    )
    assert typed(utils.to_dict(container)) == expected
    assert typed(utils.to_dict({})) == ("dict", [])
    assert typed(utils.to_dict({"_io": 1})) == ("dict", [])
    # only the exact name is dropped
    assert typed(utils.to_dict({"_io_": 1, 1: 2})) == (
        "dict",
        [("_io_", ("int", "1")), (1, ("int", "2"))],
    )


@pytest.mark.parametrize(
    ["value", "message"],
    (
        (None, "'NoneType' object has no attribute 'items'"),
        ({"a": None}, "'NoneType' object has no attribute 'items'"),
        ([1, {1, 2}], "'set' object has no attribute 'items'"),
        (bytearray(b"ab"), "'bytearray' object has no attribute 'items'"),
        (datetime.date(2020, 1, 1), "'datetime.date' object has no attribute 'items'"),
    ),
)
def test_to_dict_unsupported(value, message):
    with pytest.raises(AttributeError) as excinfo:
        utils.to_dict(value)
    assert str(excinfo.value) == message


def test_to_dict_parsed_struct():
    struct = Struct(
        "kind" / Enum(Int8ub, first=1, second=2),
        "unknown" / Enum(Int8ub, first=1, second=2),
        "count" / AsciiInteger(4),
        "blank" / AsciiInteger(4),
        "value" / AsciiFloat(8),
        "missing" / AsciiFloat(4),
        "z" / AsciiComplex(8),
        "name" / PaddedString(6),
        "raw" / Bytes(2),
        "numbers" / Array(3, Int16ub),
        "records" / Array(2, Struct("a" / Int8ub, "b" / Array(2, Int8ub))),
        "empty" / Array(0, Int8ub),
    )
    data = (
        b"\x02\x07"
        + b"  12"
        + b"    "
        + b" 1.5E+01"
        + b"    "
        + b" 1.0-2.5"
        + b"ab    "
        + b"\x00\xff"
        + b"\x00\x01\x00\x02\x01\x00"
        + b"\x01\x02\x03\x04\x05\x06"
    )
    parsed = struct.parse(data)
    actual = utils.to_dict(parsed)

    expected = (
        "dict",
        [
            ("kind", ("str", "'second'")),
            ("unknown", ("EnumInteger", "7")),
            ("count", ("int", "12")),
            ("blank", ("int", "-1")),
            ("value", ("float", "15.0")),
            ("missing", ("float", "nan")),
            ("z", ("complex", "(1-2.5j)")),
            ("name", ("str", "'ab'")),
            ("raw", ("bytes", "b'\\x00\\xff'")),
            ("numbers", ("list", [("int", "1"), ("int", "2"), ("int", "256")])),
            (
                "records",
                (
                    "list",
                    [
                        (
                            "dict",
                            [
                                ("a", ("int", "1")),
                                ("b", ("list", [("int", "2"), ("int", "3")])),
                            ],
                        ),
                        (
                            "dict",
                            [
                                ("a", ("int", "4")),
                                ("b", ("list", [("int", "5"), ("int", "6")])),
                            ],
                        ),
                    ],
                ),
            ),
            ("empty", ("list", [])),
        ],
    )
    assert typed(actual) == expected


# ---------------------------------------------------------------- rename


def test_rename():
    mapping = {"a": 1, "b": 2, "c": 3}

    actual = utils.rename(mapping, {"a": "x", "c": "a", "q": "r"})
    assert typed(actual) == (
        "dict",
        [("x", ("int", "1")), ("b", ("int", "2")), ("a", ("int", "3"))],
    )
    assert mapping == {"a": 1, "b": 2, "c": 3}

    # collisions: the last one wins, the first one determines the position
    assert typed(utils.rename(mapping, {"a": "b"})) == (
        "dict",
        [("b", ("int", "2")), ("c", ("int", "3"))],
    )
    assert typed(utils.rename(mapping, {"c": "a"})) == (
        "dict",
        [("a", ("int", "3")), ("b", ("int", "2"))],
    )
    assert typed(utils.rename(mapping, {})) == typed(mapping)
    assert utils.rename(mapping, {}) is not mapping
    assert typed(utils.rename({}, {"a": "b"})) == ("dict", [])
    assert typed(utils.rename(MyDict(a=1), {"a": "b"})) == ("dict", [("b", ("int", "1"))])
    # translating to a falsy key / None
    assert typed(utils.rename({"a": 1, "b": 2}, {"a": None, "b": ""})) == (
        "dict",
        [(None, ("int", "1")), ("", ("int", "2"))],
    )
    # values are not copied
    value = [1]
    assert utils.rename({"a": value}, {"a": "b"})["b"] is value


def test_rename_errors():
    with pytest.raises(TypeError) as excinfo:
        utils.rename({"a": 1}, {"a": []})
    assert str(excinfo.value) == "unhashable type: 'list'"

    with pytest.raises(AttributeError) as excinfo:
        utils.rename({"a": 1}, None)
    assert str(excinfo.value) == "'NoneType' object has no attribute 'get'"

    # the translations are only used if there is something to translate
    assert utils.rename({}, None) == {}

    with pytest.raises(AttributeError) as excinfo:
        utils.rename([("a", 1)], {})
    assert str(excinfo.value) == "'list' object has no attribute 'keys'"


# ---------------------------------------------------------------- remove_nesting_layer


def test_remove_nesting_layer():
    mapping = {"a": {"aa": 1, "ab": {"x": 1}}, "b": 2, "c": {}, "d": {"da": [1]}}
    actual = utils.remove_nesting_layer(mapping)
    assert typed(actual) == (
        "dict",
        [
            ("aa", ("int", "1")),
            ("ab", ("dict", [("x", ("int", "1"))])),
            ("b", ("int", "2")),
            ("da", ("list", [("int", "1")])),
        ],
    )
    assert mapping == {"a": {"aa": 1, "ab": {"x": 1}}, "b": 2, "c": {}, "d": {"da": [1]}}
    assert actual["ab"] is mapping["a"]["ab"]
    assert actual["da"] is mapping["d"]["da"]

    assert typed(utils.remove_nesting_layer({})) == ("dict", [])
    result = utils.remove_nesting_layer({"a": 1})
    assert typed(result) == ("dict", [("a", ("int", "1"))])

    flat = {"a": 1}
    assert utils.remove_nesting_layer(flat) is not flat


def test_remove_nesting_layer_collisions():
    # nested key overrides an earlier outer key, but keeps its position
    assert typed(utils.remove_nesting_layer({"a": 1, "b": {"a": 2, "c": 3}})) == (
        "dict",
        [("a", ("int", "2")), ("c", ("int", "3"))],
    )
    # outer key overrides an earlier nested key
    assert typed(utils.remove_nesting_layer({"b": {"a": 2, "c": 3}, "a": 1})) == (
        "dict",
        [("a", ("int", "1")), ("c", ("int", "3"))],
    )
    # two nested keys
    assert typed(utils.remove_nesting_layer({"x": {"k": 1, "l": 0}, "y": {"k": 2}})) == (
        "dict",
        [("k", ("int", "2")), ("l", ("int", "0"))],
    )
    # the name of the removed layer may reappear
    assert typed(utils.remove_nesting_layer({"x": {"x": {"x": 1}}})) == (
        "dict",
        [("x", ("dict", [("x", ("int", "1"))]))],
    )


def test_remove_nesting_layer_types():
    # dict subclasses count as nesting layers, other mappings / sequences do not
    ordered = collections.OrderedDict([("k", 1)])
    assert typed(utils.remove_nesting_layer({"a": ordered, "b": MyDict(l=2)})) == (
        "dict",
        [("k", ("int", "1")), ("l", ("int", "2"))],
    )
    assert typed(utils.remove_nesting_layer(MyDict(a={"b": 1}))) == (
        "dict",
        [("b", ("int", "1"))],
    )
    assert typed(utils.remove_nesting_layer(Container(a=Container(b=1), c=[{"d": 1}]))) == (
        "dict",
        [("b", ("int", "1")), ("c", ("list", [("dict", [("d", ("int", "1"))])]))],
    )

    with pytest.raises(AttributeError) as excinfo:
        utils.remove_nesting_layer([("a", 1)])
    assert str(excinfo.value) == "'list' object has no attribute 'items'"

    with pytest.raises(AttributeError) as excinfo:
        utils.remove_nesting_layer(None)
    assert str(excinfo.value) == "'NoneType' object has no attribute 'items'"


def test_users_of_the_helpers():
    # the way the metadata modules combine the helpers
    from ceos_alos2.volume_directory import metadata as volume_metadata

    assert callable(volume_metadata.rename)
    assert callable(volume_metadata.remove_nesting_layer)

    raw = {"preamble": {"n": 1}, "volume": {"volume_id": "v", "nested": {"q": 1}}, "k": 0}
    flattened = utils.remove_nesting_layer(raw)
    renamed = utils.rename(flattened, {"volume_id": "id", "k": "n"})
    assert typed(renamed) == (
        "dict",
        [
            ("n", ("int", "0")),
            ("id", ("str", "'v'")),
            ("nested", ("dict", [("q", ("int", "1"))])),
        ],
    )


if __name__ == "__main__":
    import sys

    sys.exit(pytest.main(["-q", "-p", "no:cacheprovider", __file__]))
