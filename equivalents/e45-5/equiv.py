"""Equivalence check for refactoring 5: ceos_alos2.sar_leader.metadata.transform_metadata.

EXPECTED was recorded from the unchanged code (HEAD); the script must pass with and
without _eq/5/patch.diff.  Run `python equiv.py` or `pytest equiv.py`.

A complete SAR leader file is synthesized (blank records with the handful of fields that
must not be blank filled in), stored in fsspec's memory file system and opened through
open_sar_leader; further cases feed hand-written mappings to transform_metadata.
"""
import pprint
import sys

import numpy as np

from ceos_alos2.hierarchy import Group, Variable


def canon(obj):
    """Order-, type- and value-preserving description of a result."""
    if isinstance(obj, Group):
        return ("Group", obj.path, obj.url, canon(obj.data), canon(obj.attrs))
    if isinstance(obj, Variable):
        return ("Variable", canon(obj.dims), canon(obj.data), canon(obj.attrs))
    if isinstance(obj, np.ndarray):
        return ("ndarray", str(obj.dtype), obj.shape, [str(v) for v in obj.ravel().tolist()])
    if isinstance(obj, np.generic):
        return (type(obj).__name__, str(obj.dtype), str(obj))
    if isinstance(obj, dict):
        return (type(obj).__name__, [(canon(k), canon(v)) for k, v in obj.items()])
    if isinstance(obj, (list, tuple)):
        return (type(obj).__name__, [canon(v) for v in obj])
    return (type(obj).__name__, repr(obj))


def observe(func, *args, **kwargs):
    try:
        result = func(*args, **kwargs)
    except Exception as e:  # noqa: BLE001
        return ("raises", type(e).__name__, str(e))
    return ("returns", canon(result))


def main(run_cases, expected):
    observed = [repr(o) for o in run_cases()]
    if "--record" in sys.argv:
        pprint.pprint(observed, width=100)
        return
    assert len(observed) == len(expected), (len(observed), len(expected))
    for index, (obs, exp) in enumerate(zip(observed, expected)):
        assert obs == exp, f"case {index}:\n  observed {obs}\n  expected {exp}"
    print(f"equiv OK: {len(observed)} cases")


import fsspec
from construct import Struct

from ceos_alos2.sar_leader import (
    attitude,
    data_quality_summary,
    dataset_summary,
    facility_related_data,
    file_descriptor,
    map_projection,
    metadata,
    platform_position,
    radiometric_data,
)
from ceos_alos2.sar_leader.io import open_sar_leader, parse_data


def offset_of(struct, *path):
    offset = 0
    for sub in struct.subcons:
        if sub.name == path[0]:
            if len(path) == 1:
                return offset, sub.sizeof()
            inner = sub
            while not isinstance(inner, Struct):
                inner = inner.subcon
            inner_offset, size = offset_of(inner, *path[1:])
            return offset + inner_offset, size
        offset += sub.sizeof()
    raise KeyError(path)


def blank_record(size, sequence_number, record_type):
    preamble = (
        sequence_number.to_bytes(4, "big") + bytes([18, record_type, 18, 20]) + size.to_bytes(4, "big")
    )
    return bytearray(preamble + b" " * (size - 12))


def put(buffer, struct, path, text):
    offset, size = offset_of(struct, *path)
    encoded = text.encode("ascii")
    assert len(encoded) <= size, (path, size)
    buffer[offset : offset + size] = encoded.ljust(size)


def attitude_bytes(n):
    body = f"{n:4d}"
    for i in range(n):
        body += f"{100 + i:4d}{86399000 - 500 * i:8d}"
        for scale in (1.0, 0.01):
            body += f"{i % 2:4d}{0:4d}{1:4d}"
            body += "".join(f"{scale * (k + 1) * i:14.6E}" for k in range(3))
    size = 12 + len(body) + 20
    record = blank_record(size, 4, 40)
    record[12 : 12 + len(body)] = body.encode("ascii")
    return record


def platform_position_bytes():
    def f16(v):
        return f"{v:16.7f}"

    def f22(v):
        return f"{v:22.15E}"

    body = "2".ljust(32)
    body += "".join(f16(v) for v in (1.0, 2.0, 3.0, 4.0, 5.0, 6.0))
    body += f"{28:4d}" + "2020  02  29".ljust(12) + f"{60:4d}" + f22(43200.5)
    body += f22(60.0) + "ECR".ljust(64) + f22(12.5)
    body += "".join(f16(v) for v in (0.1, 0.2, 0.3, 0.4, 0.5, 0.6))
    for i in range(28):
        body += "".join(f22(v) for v in (1e6 + i, 2e6 - i, 3e6 + 2 * i, 7e3 - i, -7e3 + i, 0.5 * i))
    body += " " * 18 + "1" + " " * 579
    record = blank_record(4680, 3, 30)
    assert len(body) == 4668, len(body)
    record[12:] = body.encode("ascii")
    return record


def leader_bytes(n_map_projections=1, n_attitude_points=3, designator="UTM-PROJECTION"):
    fd = blank_record(720, 1, 192)
    put(fd, file_descriptor.file_descriptor_record, ("map_projection", "number_of_records"), f"{n_map_projections:6d}")
    summary = blank_record(4096, 2, 10)
    put(summary, dataset_summary.dataset_summary_record, ("scene_center_time",), "20200229120000500")
    put(summary, dataset_summary.dataset_summary_record, ("scene_id",), "ALOS2310000000-200229")
    for name, text in [
        ("base_band_conversion_flag", "YES"),
        ("range_compression_flag", "NO"),
        ("echo_tracker_status", "ON"),
        ("weighting_function_in_azimuth", "1"),
        ("weighting_function_in_range", "1"),
        ("clutter_lock_applied_flag", "OFF"),
        ("auto_focusing_applied_flag", "YES"),
    ]:
        put(summary, dataset_summary.dataset_summary_record, (name,), text)
    projections = []
    for _ in range(n_map_projections):
        proj = blank_record(1620, 3, 20)
        put(proj, map_projection.map_projection_record, ("map_projection_designator",), designator)
        put(proj, map_projection.map_projection_record, ("utm_projection", "type"), "UNIVERSAL TRANSVERSE MERCATOR")
        put(proj, map_projection.map_projection_record, ("map_projection_general_information", "number_of_lines"), f"{25000:16d}")
        projections.append(proj)
    quality = blank_record(1620, 6, 60)
    quality[26:30] = b"   2"
    facility = [blank_record(100 + 10 * i, 7 + i, 200) for i in range(4)]
    facility5 = blank_record(5000, 11, 200)
    parts = [fd, summary, *projections, platform_position_bytes(), attitude_bytes(n_attitude_points),
             blank_record(9860, 5, 50), quality, *facility, facility5]
    return b"".join(bytes(p) for p in parts)


class RecordingMapper(dict):
    def __init__(self, *args, **kwargs):
        super().__init__(*args, **kwargs)
        self.requests = []

    def __getitem__(self, key):
        self.requests.append(key)
        return super().__getitem__(key)


def attitude_points(n):
    return {
        "data_points": [
            {
                "time": {"day_of_year": 224 + 13 * i, "millisecond_of_day": 62631000 + 14169000 * i},
                "attitude": {"pitch_error": i, "pitch": (0.5 * i, {"units": "deg"})},
                "rates": {"yaw_error": 1 - i, "yaw": (0.25 * i, {"units": "deg/s"})},
            }
            for i in range(n)
        ]
    }


POSITION = {
    "preamble": {},
    "datetime_of_first_point": {"date": "1986  05  24", "day_of_year": 144, "seconds_of_day": 60721.0},
    "occurrence_flag_of_a_leap_second": 1,
}
PROJECTION = {
    "preamble": {},
    "map_projection_general_information": {"number_of_pixels_per_line": 10, "number_of_lines": 20},
    "map_projection_designator": "UPS-PROJECTION",
    "utm_projection": {"type": ""},
    "ups_projection": {"type": "UNIVERSAL POLAR STEREOGRAPHIC"},
    "national_system_projection": {"projection_descriptor": ""},
}

DICT_CASES = [
    {},
    {"file_descriptor": {"a": 1}, "facility_related_data_1": {"b": 1}, "facility_related_data_4": {}},
    {"facility_related_data_2": 5, "facility_related_data_3": None, "other": 3},
    {"unknown": {"a": 1}, "also_unknown": [1, 2], "empty": [], "zero": 0, "blank": "", "none": None},
    {"dataset_summary": {}, "map_projection": [], "attitude": {}, "platform_position": None},
    {"dataset_summary": {"scene_center_time": "2020101117213774", "spare1": "", "scene_id": "x"}},
    {"map_projection": [PROJECTION]},
    {"map_projection": [PROJECTION, {"map_projection_designator": "broken"}]},
    {"map_projection": (PROJECTION,)},
    {"map_projection": iter([PROJECTION])},
    {"platform_position": POSITION},
    {"attitude": attitude_points(2)},
    {"attitude": attitude_points(2), "platform_position": POSITION},
    {"platform_position": POSITION, "attitude": attitude_points(1), "zzz": 1},
    {"radiometric_data": {"preamble": {}, "calibration_factor": (-83.0, {"formula": "f"}), "blanks": ""}},
    {"data_quality_summary": {"preamble": {}, "record_number": 1, "number_of_channels": 2}},
    {"facility_related_data_5": {"preamble": {}, "prf_switching_flag": 0, "system_reserve": "x"}},
    {"facility_related_data_5": {"prf_switching_flag": 1}, "transformations": 7},
    {"transformations": 7, "facility_related_data_5": {"prf_switching_flag": 1}},
    # failures inside the record transformers travel up unchanged
    {"dataset_summary": 5},
    {"dataset_summary": {"scene_center_time": "garbage"}},
    {"dataset_summary": {"scene_center_time": 5}},
    {"map_projection": 5},
    {"map_projection": [5]},
    {"map_projection": [{"map_projection_designator": "nodash"}]},
    {"map_projection": iter([])},
    {"platform_position": {"datetime_of_first_point": {"date": "", "seconds_of_day": 0}}},
    {"platform_position": {"datetime_of_first_point": {"date": "2020 01 01", "seconds_of_day": "x"}}},
    {"attitude": {"no_data_points": 1}},
    {"attitude": attitude_points(1), "platform_position": {"leap": 1}},
    {"attitude": [1]},
    {"radiometric_data": {"distortion_matrix": 5}},
    {"data_quality_summary": {"relative_radiometric_quality": {}}},
    {"facility_related_data_5": {"conversion_from_pixel_to_geographic": 5}},
    {"facility_related_data_5": 5},
    {"dataset_summary": np.array([1, 2])},
    None,
    5,
    [("dataset_summary", {})],
]


def run_cases():
    results = []
    for case in DICT_CASES:
        results.append(observe(metadata.transform_metadata, case))

    # key order and the input mapping are preserved
    source = {"attitude": attitude_points(1), "x": 1, "platform_position": dict(POSITION), "map_projection": []}
    snapshot = repr(source)
    group = metadata.transform_metadata(source)
    results.append(("order", list(group.data), repr(source) == snapshot))

    # full files through the memory file system
    fs = fsspec.filesystem("memory")
    variants = {
        "LED-A": leader_bytes(),
        "LED-B": leader_bytes(n_map_projections=0, n_attitude_points=1),
        "LED-C": leader_bytes(n_map_projections=2, n_attitude_points=0),
        "LED-D": leader_bytes(designator="LCC-PROJECTION", n_attitude_points=5),
        "LED-E": leader_bytes(designator="XYZ-SOMETHING"),
        "LED-F": leader_bytes(designator="NODASH"),
        "LED-G": leader_bytes()[:20000],
        "LED-H": b"",
    }
    for name, raw in variants.items():
        fs.pipe(f"/e45-5/{name}", raw)
    mapper = fs.get_mapper("/e45-5")
    for name in [*variants, "LED-missing"]:
        results.append(observe(open_sar_leader, mapper, name))

    recording = RecordingMapper({"LED-A": variants["LED-A"], "LED-H": b""})
    for name in ("LED-A", "nothing", "LED-H"):
        results.append(observe(open_sar_leader, recording, name)[:1] + (list(recording.requests),))

    for name in ("LED-A", "LED-C"):
        results.append(observe(metadata.transform_metadata, parse_data(variants[name])))
    return results


EXPECTED = ["('returns', ('Group', '/', None, ('dict', []), ('dict', [])))",
 "('returns', ('Group', '/', None, ('dict', []), ('dict', [])))",
 '(\'returns\', (\'Group\', \'/\', None, (\'dict\', [((\'str\', "\'other\'"), (\'int\', \'3\'))]), '
 "('dict', [])))",
 '(\'returns\', (\'Group\', \'/\', None, (\'dict\', [((\'str\', "\'unknown\'"), (\'dict\', '
 '[((\'str\', "\'a\'"), (\'int\', \'1\'))])), ((\'str\', "\'also_unknown\'"), (\'list\', '
 "[('int', '1'), ('int', '2')]))]), ('dict', [])))",
 "('returns', ('Group', '/', None, ('dict', []), ('dict', [])))",
 '(\'returns\', (\'Group\', \'/\', None, (\'dict\', [((\'str\', "\'dataset_summary\'"), '
 "('Group', '/dataset_summary', None, ('dict', []), ('dict', [(('str', "
 '"\'scene_center_time\'"), (\'str\', "\'2020-10-11T17:21:37.740000\'")), ((\'str\', '
 '"\'scene_id\'"), (\'str\', "\'x\'"))])))]), (\'dict\', [])))',
 '(\'returns\', (\'Group\', \'/\', None, (\'dict\', [((\'str\', "\'map_projection\'"), (\'Group\', '
 '\'/map_projection\', None, (\'dict\', [((\'str\', "\'general_information\'"), (\'Group\', '
 "'/map_projection/general_information', None, ('dict', []), ('dict', [(('str', "
 '"\'n_columns\'"), (\'int\', \'10\')), ((\'str\', "\'n_rows\'"), (\'int\', \'20\'))]))), '
 '((\'str\', "\'projection\'"), (\'Group\', \'/map_projection/projection\', None, (\'dict\', []), '
 '(\'dict\', [((\'str\', "\'type\'"), (\'str\', "\'UNIVERSAL POLAR STEREOGRAPHIC\'"))])))]), '
 "('dict', [])))]), ('dict', [])))",
 '(\'returns\', (\'Group\', \'/\', None, (\'dict\', [((\'str\', "\'map_projection\'"), (\'Group\', '
 '\'/map_projection\', None, (\'dict\', [((\'str\', "\'general_information\'"), (\'Group\', '
 "'/map_projection/general_information', None, ('dict', []), ('dict', [(('str', "
 '"\'n_columns\'"), (\'int\', \'10\')), ((\'str\', "\'n_rows\'"), (\'int\', \'20\'))]))), '
 '((\'str\', "\'projection\'"), (\'Group\', \'/map_projection/projection\', None, (\'dict\', []), '
 '(\'dict\', [((\'str\', "\'type\'"), (\'str\', "\'UNIVERSAL POLAR STEREOGRAPHIC\'"))])))]), '
 "('dict', [])))]), ('dict', [])))",
 '(\'returns\', (\'Group\', \'/\', None, (\'dict\', [((\'str\', "\'map_projection\'"), (\'Group\', '
 '\'/map_projection\', None, (\'dict\', [((\'str\', "\'general_information\'"), (\'Group\', '
 "'/map_projection/general_information', None, ('dict', []), ('dict', [(('str', "
 '"\'n_columns\'"), (\'int\', \'10\')), ((\'str\', "\'n_rows\'"), (\'int\', \'20\'))]))), '
 '((\'str\', "\'projection\'"), (\'Group\', \'/map_projection/projection\', None, (\'dict\', []), '
 '(\'dict\', [((\'str\', "\'type\'"), (\'str\', "\'UNIVERSAL POLAR STEREOGRAPHIC\'"))])))]), '
 "('dict', [])))]), ('dict', [])))",
 '(\'returns\', (\'Group\', \'/\', None, (\'dict\', [((\'str\', "\'map_projection\'"), (\'Group\', '
 '\'/map_projection\', None, (\'dict\', [((\'str\', "\'general_information\'"), (\'Group\', '
 "'/map_projection/general_information', None, ('dict', []), ('dict', [(('str', "
 '"\'n_columns\'"), (\'int\', \'10\')), ((\'str\', "\'n_rows\'"), (\'int\', \'20\'))]))), '
 '((\'str\', "\'projection\'"), (\'Group\', \'/map_projection/projection\', None, (\'dict\', []), '
 '(\'dict\', [((\'str\', "\'type\'"), (\'str\', "\'UNIVERSAL POLAR STEREOGRAPHIC\'"))])))]), '
 "('dict', [])))]), ('dict', [])))",
 '(\'returns\', (\'Group\', \'/\', None, (\'dict\', [((\'str\', "\'platform_position\'"), '
 "('Group', '/platform_position', None, ('dict', []), ('dict', [(('str', "
 '"\'datetime_of_first_point\'"), (\'str\', "\'1986-05-24T16:52:01\'")), ((\'str\', '
 '"\'leap_second\'"), (\'bool\', \'True\'))])))]), (\'dict\', [])))',
 '(\'returns\', (\'Group\', \'/\', None, (\'dict\', [((\'str\', "\'attitude\'"), (\'Group\', '
 '\'/attitude\', None, (\'dict\', [((\'str\', "\'attitude\'"), (\'Group\', \'/attitude/attitude\', '
 'None, (\'dict\', [((\'str\', "\'pitch_error\'"), (\'Variable\', (\'list\', [(\'str\', '
 '"\'points\'")]), (\'list\', [(\'bool\', \'False\'), (\'bool\', \'True\')]), (\'dict\', []))), '
 '((\'str\', "\'pitch\'"), (\'Variable\', (\'list\', [(\'str\', "\'points\'")]), (\'list\', '
 '[(\'float\', \'0.0\'), (\'float\', \'0.5\')]), (\'dict\', [((\'str\', "\'units\'"), (\'str\', '
 '"\'deg\'"))]))), ((\'str\', "\'time\'"), (\'Variable\', (\'list\', [(\'str\', "\'points\'")]), '
 "('ndarray', 'timedelta64[ns]', (2,), ['19416231000000000', '20553600000000000']), ('dict', "
 '[])))]), (\'dict\', [((\'str\', "\'coordinates\'"), (\'list\', [(\'str\', "\'time\'")]))]))), '
 '((\'str\', "\'rates\'"), (\'Group\', \'/attitude/rates\', None, (\'dict\', [((\'str\', '
 '"\'yaw_error\'"), (\'Variable\', (\'list\', [(\'str\', "\'points\'")]), (\'list\', [(\'bool\', '
 '\'True\'), (\'bool\', \'False\')]), (\'dict\', []))), ((\'str\', "\'yaw\'"), (\'Variable\', '
 '(\'list\', [(\'str\', "\'points\'")]), (\'list\', [(\'float\', \'0.0\'), (\'float\', '
 '\'0.25\')]), (\'dict\', [((\'str\', "\'units\'"), (\'str\', "\'deg/s\'"))]))), ((\'str\', '
 '"\'time\'"), (\'Variable\', (\'list\', [(\'str\', "\'points\'")]), (\'ndarray\', '
 "'timedelta64[ns]', (2,), ['19416231000000000', '20553600000000000']), ('dict', [])))]), ('dict', "
 '[((\'str\', "\'coordinates\'"), (\'list\', [(\'str\', "\'time\'")]))])))]), (\'dict\', [])))]), '
 "('dict', [])))",
 '(\'returns\', (\'Group\', \'/\', None, (\'dict\', [((\'str\', "\'attitude\'"), (\'Group\', '
 '\'/attitude\', None, (\'dict\', [((\'str\', "\'attitude\'"), (\'Group\', \'/attitude/attitude\', '
 'None, (\'dict\', [((\'str\', "\'pitch_error\'"), (\'Variable\', (\'list\', [(\'str\', '
 '"\'points\'")]), (\'list\', [(\'bool\', \'False\'), (\'bool\', \'True\')]), (\'dict\', []))), '
 '((\'str\', "\'pitch\'"), (\'Variable\', (\'list\', [(\'str\', "\'points\'")]), (\'list\', '
 '[(\'float\', \'0.0\'), (\'float\', \'0.5\')]), (\'dict\', [((\'str\', "\'units\'"), (\'str\', '
 '"\'deg\'"))]))), ((\'str\', "\'time\'"), (\'Variable\', (\'list\', [(\'str\', "\'points\'")]), '
 "('ndarray', 'datetime64[ns]', (2,), ['524337831000000000', '525475200000000000']), ('dict', "
 '[])))]), (\'dict\', [((\'str\', "\'coordinates\'"), (\'list\', [(\'str\', "\'time\'")]))]))), '
 '((\'str\', "\'rates\'"), (\'Group\', \'/attitude/rates\', None, (\'dict\', [((\'str\', '
 '"\'yaw_error\'"), (\'Variable\', (\'list\', [(\'str\', "\'points\'")]), (\'list\', [(\'bool\', '
 '\'True\'), (\'bool\', \'False\')]), (\'dict\', []))), ((\'str\', "\'yaw\'"), (\'Variable\', '
 '(\'list\', [(\'str\', "\'points\'")]), (\'list\', [(\'float\', \'0.0\'), (\'float\', '
 '\'0.25\')]), (\'dict\', [((\'str\', "\'units\'"), (\'str\', "\'deg/s\'"))]))), ((\'str\', '
 '"\'time\'"), (\'Variable\', (\'list\', [(\'str\', "\'points\'")]), (\'ndarray\', '
 "'datetime64[ns]', (2,), ['524337831000000000', '525475200000000000']), ('dict', [])))]), "
 '(\'dict\', [((\'str\', "\'coordinates\'"), (\'list\', [(\'str\', "\'time\'")]))])))]), '
 '(\'dict\', []))), ((\'str\', "\'platform_position\'"), (\'Group\', \'/platform_position\', None, '
 '(\'dict\', []), (\'dict\', [((\'str\', "\'datetime_of_first_point\'"), (\'str\', '
 '"\'1986-05-24T16:52:01\'")), ((\'str\', "\'leap_second\'"), (\'bool\', \'True\'))])))]), '
 "('dict', [])))",
 '(\'returns\', (\'Group\', \'/\', None, (\'dict\', [((\'str\', "\'platform_position\'"), '
 "('Group', '/platform_position', None, ('dict', []), ('dict', [(('str', "
 '"\'datetime_of_first_point\'"), (\'str\', "\'1986-05-24T16:52:01\'")), ((\'str\', '
 '"\'leap_second\'"), (\'bool\', \'True\'))]))), ((\'str\', "\'attitude\'"), (\'Group\', '
 '\'/attitude\', None, (\'dict\', [((\'str\', "\'attitude\'"), (\'Group\', \'/attitude/attitude\', '
 'None, (\'dict\', [((\'str\', "\'pitch_error\'"), (\'Variable\', (\'list\', [(\'str\', '
 '"\'points\'")]), (\'list\', [(\'bool\', \'False\')]), (\'dict\', []))), ((\'str\', "\'pitch\'"), '
 '(\'Variable\', (\'list\', [(\'str\', "\'points\'")]), (\'list\', [(\'float\', \'0.0\')]), '
 '(\'dict\', [((\'str\', "\'units\'"), (\'str\', "\'deg\'"))]))), ((\'str\', "\'time\'"), '
 '(\'Variable\', (\'list\', [(\'str\', "\'points\'")]), (\'ndarray\', \'datetime64[ns]\', (1,), '
 '[\'524337831000000000\']), (\'dict\', [])))]), (\'dict\', [((\'str\', "\'coordinates\'"), '
 '(\'list\', [(\'str\', "\'time\'")]))]))), ((\'str\', "\'rates\'"), (\'Group\', '
 '\'/attitude/rates\', None, (\'dict\', [((\'str\', "\'yaw_error\'"), (\'Variable\', (\'list\', '
 '[(\'str\', "\'points\'")]), (\'list\', [(\'bool\', \'True\')]), (\'dict\', []))), ((\'str\', '
 '"\'yaw\'"), (\'Variable\', (\'list\', [(\'str\', "\'points\'")]), (\'list\', [(\'float\', '
 '\'0.0\')]), (\'dict\', [((\'str\', "\'units\'"), (\'str\', "\'deg/s\'"))]))), ((\'str\', '
 '"\'time\'"), (\'Variable\', (\'list\', [(\'str\', "\'points\'")]), (\'ndarray\', '
 "'datetime64[ns]', (1,), ['524337831000000000']), ('dict', [])))]), ('dict', [(('str', "
 '"\'coordinates\'"), (\'list\', [(\'str\', "\'time\'")]))])))]), (\'dict\', []))), ((\'str\', '
 '"\'zzz\'"), (\'int\', \'1\'))]), (\'dict\', [])))',
 '(\'returns\', (\'Group\', \'/\', None, (\'dict\', [((\'str\', "\'radiometric_data\'"), '
 '(\'Group\', \'/radiometric_data\', None, (\'dict\', [((\'str\', "\'calibration_factor\'"), '
 '(\'Variable\', (\'tuple\', []), (\'float\', \'-83.0\'), (\'dict\', [((\'str\', "\'formula\'"), '
 '(\'str\', "\'f\'"))])))]), (\'dict\', [])))]), (\'dict\', [])))',
 '(\'returns\', (\'Group\', \'/\', None, (\'dict\', [((\'str\', "\'data_quality_summary\'"), '
 "('Group', '/data_quality_summary', None, ('dict', []), ('dict', [(('str', "
 '"\'number_of_channels\'"), (\'int\', \'2\'))])))]), (\'dict\', [])))',
 '(\'returns\', (\'Group\', \'/\', None, (\'dict\', [((\'str\', "\'transformations\'"), '
 "('Group', '/transformations', None, ('dict', []), ('dict', [(('str', "
 '"\'prf_switching\'"), (\'bool\', \'False\'))])))]), (\'dict\', [])))',
 '(\'returns\', (\'Group\', \'/\', None, (\'dict\', [((\'str\', "\'transformations\'"), (\'int\', '
 "'7'))]), ('dict', [])))",
 '(\'returns\', (\'Group\', \'/\', None, (\'dict\', [((\'str\', "\'transformations\'"), '
 "('Group', '/transformations', None, ('dict', []), ('dict', [(('str', "
 '"\'prf_switching\'"), (\'bool\', \'True\'))])))]), (\'dict\', [])))',
 '(\'raises\', \'AttributeError\', "\'int\' object has no attribute \'items\'")',
 '(\'raises\', \'ValueError\', "time data \'garbage\' does not match format \'%Y%m%d%H%M%S%f\'")',
 "('raises', 'TypeError', 'strptime() argument 1 must be str, not int')",
 '(\'raises\', \'TypeError\', "\'int\' object is not iterable")',
 '(\'raises\', \'AttributeError\', "\'int\' object has no attribute \'items\'")',
 "('raises', 'ValueError', 'not enough values to unpack (expected 2, got 1)')",
 "('raises', 'StopIteration', '')",
 '(\'raises\', \'ValueError\', "time data \'\' does not match format \'%Y-%m-%d\'")',
 "('raises', 'TypeError', 'unsupported type for timedelta seconds component: str')",
 '(\'raises\', \'KeyError\', "\'data_points\'")',
 '(\'raises\', \'KeyError\', "\'datetime_of_first_point\'")',
 "('raises', 'TypeError', 'list indices must be integers or slices, not str')",
 '(\'raises\', \'AttributeError\', "\'int\' object has no attribute \'keys\'")',
 '(\'raises\', \'KeyError\', "\'nominal_relative_radiometric_calibration_uncertainty\'")',
 "('raises', 'TypeError', 'cannot unpack non-iterable int object')",
 '(\'raises\', \'AttributeError\', "\'int\' object has no attribute \'items\'")',
 "('raises', 'ValueError', 'The truth value of an array with more than one element is ambiguous. "
 "Use a.any() or a.all()')",
 '(\'raises\', \'AttributeError\', "\'NoneType\' object has no attribute \'items\'")',
 '(\'raises\', \'AttributeError\', "\'int\' object has no attribute \'items\'")',
 '(\'raises\', \'AttributeError\', "\'list\' object has no attribute \'items\'")',
 "('order', ['attitude', 'x', 'platform_position'], True)",
 '(\'returns\', (\'Group\', \'/\', None, (\'dict\', [((\'str\', "\'dataset_summary\'"), '
 '(\'Group\', \'/dataset_summary\', None, (\'dict\', [((\'str\', "\'geodetic_latitude\'"), '
 '(\'Variable\', (\'tuple\', []), (\'float\', \'nan\'), (\'dict\', [((\'str\', "\'units\'"), '
 '(\'str\', "\'deg\'"))]))), ((\'str\', "\'geodetic_longitude\'"), (\'Variable\', (\'tuple\', []), '
 '(\'float\', \'nan\'), (\'dict\', [((\'str\', "\'units\'"), (\'str\', "\'deg\'"))]))), ((\'str\', '
 '"\'processed_scene_center_true_heading\'"), (\'Variable\', (\'tuple\', []), (\'float\', '
 '\'nan\'), (\'dict\', [((\'str\', "\'units\'"), (\'str\', "\'deg\'"))]))), ((\'str\', '
 '"\'ellipsoid_semimajor_axis\'"), (\'Variable\', (\'tuple\', []), (\'float\', \'nan\'), '
 '(\'dict\', [((\'str\', "\'units\'"), (\'str\', "\'km\'"))]))), ((\'str\', '
 '"\'ellipsoid_semiminor_axis\'"), (\'Variable\', (\'tuple\', []), (\'float\', \'nan\'), '
 '(\'dict\', [((\'str\', "\'units\'"), (\'str\', "\'km\'"))]))), ((\'str\', "\'earth_mass\'"), '
 '(\'Variable\', (\'tuple\', []), (\'float\', \'nan\'), (\'dict\', [((\'str\', "\'units\'"), '
 '(\'str\', "\'kg\'"))]))), ((\'str\', "\'gravitational_constant\'"), (\'Variable\', (\'tuple\', '
 '[]), (\'float\', \'nan\'), (\'dict\', [((\'str\', "\'units\'"), (\'str\', "\'m^3 / s^2\'"))]))), '
 '((\'str\', "\'sensor_platform_geodetic_latitude_at_nadir_corresponding_to_scene_center\'"), '
 '(\'Variable\', (\'tuple\', []), (\'float\', \'nan\'), (\'dict\', [((\'str\', "\'units\'"), '
 '(\'str\', "\'deg\'"))]))), ((\'str\', '
 '"\'sensor_platform_geodetic_longitude_at_nadir_corresponding_to_scene_center\'"), (\'Variable\', '
 '(\'tuple\', []), (\'float\', \'nan\'), (\'dict\', [((\'str\', "\'units\'"), (\'str\', '
 '"\'deg\'"))]))), ((\'str\', '
 '"\'sensor_platform_heading_at_nadir_corresponding_to_scene_center\'"), (\'Variable\', '
 '(\'tuple\', []), (\'float\', \'nan\'), (\'dict\', [((\'str\', "\'units\'"), (\'str\', '
 '"\'deg\'"))]))), ((\'str\', '
 '"\'sensor_clock_angle_as_measured_relative_to_sensor_platform_flight_direction\'"), '
 '(\'Variable\', (\'tuple\', []), (\'float\', \'nan\'), (\'dict\', [((\'str\', "\'units\'"), '
 '(\'str\', "\'deg\'"))]))), ((\'str\', "\'incidence_angle_at_scene_center\'"), (\'Variable\', '
 '(\'tuple\', []), (\'float\', \'nan\'), (\'dict\', [((\'str\', "\'units\'"), (\'str\', '
 '"\'deg\'"))]))), ((\'str\', "\'nominal_radar_wavelength\'"), (\'Variable\', (\'tuple\', []), '
 '(\'float\', \'nan\'), (\'dict\', [((\'str\', "\'units\'"), (\'str\', "\'m\'"))]))), ((\'str\', '
 '"\'sampling_rate\'"), (\'Variable\', (\'tuple\', []), (\'float\', \'nan\'), (\'dict\', '
 '[((\'str\', "\'units\'"), (\'str\', "\'MHz\'"))]))), ((\'str\', "\'range_gate\'"), '
 '(\'Variable\', (\'tuple\', []), (\'float\', \'nan\'), (\'dict\', [((\'str\', "\'units\'"), '
 '(\'str\', "\'µs\'"))]))), ((\'str\', "\'range_pulse_width\'"), (\'Variable\', (\'tuple\', []), '
 '(\'float\', \'nan\'), (\'dict\', [((\'str\', "\'units\'"), (\'str\', "\'µs\'"))]))), ((\'str\', '
 '"\'prf\'"), (\'Variable\', (\'tuple\', []), (\'float\', \'nan\'), (\'dict\', [((\'str\', '
 '"\'units\'"), (\'str\', "\'mHz\'"))]))), ((\'str\', "\'two_way_antenna_beam_width_elevation\'"), '
 '(\'Variable\', (\'tuple\', []), (\'float\', \'nan\'), (\'dict\', [((\'str\', "\'units\'"), '
 '(\'str\', "\'deg\'"))]))), ((\'str\', "\'two_way_antenna_beam_width_azimuth\'"), (\'Variable\', '
 '(\'tuple\', []), (\'float\', \'nan\'), (\'dict\', [((\'str\', "\'units\'"), (\'str\', '
 '"\'deg\'"))]))), ((\'str\', "\'satellite_clock_increment\'"), (\'Variable\', (\'tuple\', []), '
 '(\'int\', \'-1\'), (\'dict\', [((\'str\', "\'units\'"), (\'str\', "\'ns\'"))]))), ((\'str\', '
 '"\'bandwidth_per_look_in_azimuth\'"), (\'Variable\', (\'tuple\', []), (\'float\', \'nan\'), '
 '(\'dict\', [((\'str\', "\'units\'"), (\'str\', "\'Hz\'"))]))), ((\'str\', '
 '"\'bandwidth_per_look_in_range\'"), (\'Variable\', (\'tuple\', []), (\'float\', \'nan\'), '
 '(\'dict\', [((\'str\', "\'units\'"), (\'str\', "\'Hz\'"))]))), ((\'str\', '
 '"\'bandwidth_in_azimuth\'"), (\'Variable\', (\'tuple\', []), (\'float\', \'nan\'), (\'dict\', '
 '[((\'str\', "\'units\'"), (\'str\', "\'Hz\'"))]))), ((\'str\', "\'bandwidth_in_range\'"), '
 '(\'Variable\', (\'tuple\', []), (\'float\', \'nan\'), (\'dict\', [((\'str\', "\'units\'"), '
 '(\'str\', "\'kHz\'"))]))), ((\'str\', "\'resolution_in_ground_range\'"), (\'Variable\', '
 '(\'tuple\', []), (\'float\', \'nan\'), (\'dict\', [((\'str\', "\'units\'"), (\'str\', '
 '"\'m\'"))]))), ((\'str\', "\'resolution_in_azimuth\'"), (\'Variable\', (\'tuple\', []), '
 '(\'float\', \'nan\'), (\'dict\', [((\'str\', "\'units\'"), (\'str\', "\'m\'"))]))), ((\'str\', '
 '"\'line_spacing\'"), (\'Variable\', (\'tuple\', []), (\'float\', \'nan\'), (\'dict\', '
 '[((\'str\', "\'units\'"), (\'str\', "\'m\'"))]))), ((\'str\', "\'pixel_spacing\'"), '
 '(\'Variable\', (\'tuple\', []), (\'float\', \'nan\'), (\'dict\', [((\'str\', "\'units\'"), '
 '(\'str\', "\'m\'"))]))), ((\'str\', '
 '"\'doppler_frequency_approximately_constant_coefficient_term\'"), (\'Variable\', (\'tuple\', '
 '[]), (\'float\', \'nan\'), (\'dict\', [((\'str\', "\'units\'"), (\'str\', "\'Hz\'"))]))), '
 '((\'str\', "\'doppler_frequency_approximately_linear_coefficient_term\'"), (\'Variable\', '
 '(\'tuple\', []), (\'float\', \'nan\'), (\'dict\', [((\'str\', "\'units\'"), (\'str\', '
 '"\'Hz/km\'"))]))), ((\'str\', "\'direction_of_a_beam_center_in_a_scene_center\'"), '
 '(\'Variable\', (\'tuple\', []), (\'float\', \'nan\'), (\'dict\', [((\'str\', "\'units\'"), '
 '(\'str\', "\'deg\'"))]))), ((\'str\', "\'range_pulse_amplitude_coefficients\'"), (\'Group\', '
 "'/dataset_summary/range_pulse_amplitude_coefficients', None, ('dict', []), ('dict', [(('str', "
 '"\'coefficient_1\'"), (\'float\', \'nan\')), ((\'str\', "\'coefficient_2\'"), (\'float\', '
 '\'nan\')), ((\'str\', "\'coefficient_3\'"), (\'float\', \'nan\')), ((\'str\', '
 '"\'coefficient_4\'"), (\'float\', \'nan\')), ((\'str\', "\'coefficient_5\'"), (\'float\', '
 '\'nan\'))]))), ((\'str\', "\'along_track_doppler_frequency_center\'"), (\'Group\', '
 "'/dataset_summary/along_track_doppler_frequency_center', None, ('dict', [(('str', "
 '"\'constant_term_at_early_edge_of_the_image\'"), (\'Variable\', (\'tuple\', []), (\'float\', '
 '\'nan\'), (\'dict\', [((\'str\', "\'units\'"), (\'str\', "\'Hz\'"))]))), ((\'str\', '
 '"\'linear_coefficient_terms_at_early_edge_of_the_image\'"), (\'Variable\', (\'tuple\', []), '
 '(\'float\', \'nan\'), (\'dict\', [((\'str\', "\'units\'"), (\'str\', "\'Hz/px\'"))]))), '
 '((\'str\', "\'quadratic_coefficient_terms_at_early_edge_of_the_image\'"), (\'Variable\', '
 '(\'tuple\', []), (\'float\', \'nan\'), (\'dict\', [((\'str\', "\'units\'"), (\'str\', '
 '"\'Hz/px^2\'"))])))]), (\'dict\', []))), ((\'str\', "\'cross_track_doppler_frequency_center\'"), '
 "('Group', '/dataset_summary/cross_track_doppler_frequency_center', None, ('dict', [(('str', "
 '"\'constant_term_at_early_edge_of_the_image\'"), (\'Variable\', (\'tuple\', []), (\'float\', '
 '\'nan\'), (\'dict\', [((\'str\', "\'units\'"), (\'str\', "\'Hz\'"))]))), ((\'str\', '
 '"\'linear_coefficient_terms_at_early_edge_of_the_image\'"), (\'Variable\', (\'tuple\', []), '
 '(\'float\', \'nan\'), (\'dict\', [((\'str\', "\'units\'"), (\'str\', "\'Hz/px\'"))]))), '
 '((\'str\', "\'quadratic_coefficient_terms_at_early_edge_of_the_image\'"), (\'Variable\', '
 '(\'tuple\', []), (\'float\', \'nan\'), (\'dict\', [((\'str\', "\'units\'"), (\'str\', '
 '"\'Hz/px^2\'"))])))]), (\'dict\', []))), ((\'str\', "\'along_track_doppler_frequency_rate\'"), '
 "('Group', '/dataset_summary/along_track_doppler_frequency_rate', None, ('dict', [(('str', "
 '"\'constant_terms_at_early_edge_of_the_image\'"), (\'Variable\', (\'tuple\', []), (\'float\', '
 '\'nan\'), (\'dict\', [((\'str\', "\'units\'"), (\'str\', "\'Hz/s\'"))]))), ((\'str\', '
 '"\'linear_coefficient_at_early_edge_of_the_image\'"), (\'Variable\', (\'tuple\', []), '
 '(\'float\', \'nan\'), (\'dict\', [((\'str\', "\'units\'"), (\'str\', "\'Hz/s/px\'"))]))), '
 '((\'str\', "\'quadratic_coefficient_at_early_edge_of_the_image\'"), (\'Variable\', (\'tuple\', '
 '[]), (\'float\', \'nan\'), (\'dict\', [((\'str\', "\'units\'"), (\'str\', '
 '"\'Hz/s/px^2\'"))])))]), (\'dict\', []))), ((\'str\', "\'cross_track_doppler_frequency_rate\'"), '
 "('Group', '/dataset_summary/cross_track_doppler_frequency_rate', None, ('dict', [(('str', "
 '"\'constant_terms_at_early_edge_of_the_image\'"), (\'Variable\', (\'tuple\', []), (\'float\', '
 '\'nan\'), (\'dict\', [((\'str\', "\'units\'"), (\'str\', "\'Hz/s\'"))]))), ((\'str\', '
 '"\'linear_coefficient_at_early_edge_of_the_image\'"), (\'Variable\', (\'tuple\', []), '
 '(\'float\', \'nan\'), (\'dict\', [((\'str\', "\'units\'"), (\'str\', "\'Hz/s/px\'"))]))), '
 '((\'str\', "\'quadratic_coefficient_at_early_edge_of_the_image\'"), (\'Variable\', (\'tuple\', '
 '[]), (\'float\', \'nan\'), (\'dict\', [((\'str\', "\'units\'"), (\'str\', '
 '"\'Hz/s/px^2\'"))])))]), (\'dict\', []))), ((\'str\', "\'calibration_at_the_side_of_start\'"), '
 "('Group', '/dataset_summary/calibration_at_the_side_of_start', None, ('dict', []), ('dict', "
 '[((\'str\', "\'start_line_number\'"), (\'int\', \'-1\')), ((\'str\', "\'end_line_number\'"), '
 '(\'int\', \'-1\'))]))), ((\'str\', "\'calibration_at_the_side_of_end\'"), (\'Group\', '
 "'/dataset_summary/calibration_at_the_side_of_end', None, ('dict', []), ('dict', [(('str', "
 '"\'start_line_number\'"), (\'int\', \'-1\')), ((\'str\', "\'end_line_number\'"), (\'int\', '
 '\'-1\'))]))), ((\'str\', "\'incidence_angle\'"), (\'Group\', '
 '\'/dataset_summary/incidence_angle\', None, (\'dict\', [((\'str\', "\'constant_term\'"), '
 '(\'Variable\', (\'tuple\', []), (\'float\', \'nan\'), (\'dict\', [((\'str\', "\'units\'"), '
 '(\'str\', "\'rad\'"))]))), ((\'str\', "\'linear_term\'"), (\'Variable\', (\'tuple\', []), '
 '(\'float\', \'nan\'), (\'dict\', [((\'str\', "\'units\'"), (\'str\', "\'rad/km\'"))]))), '
 '((\'str\', "\'quadratic_term\'"), (\'Variable\', (\'tuple\', []), (\'float\', \'nan\'), '
 '(\'dict\', [((\'str\', "\'units\'"), (\'str\', "\'rad/km^2\'"))]))), ((\'str\', '
 '"\'cubic_term\'"), (\'Variable\', (\'tuple\', []), (\'float\', \'nan\'), (\'dict\', [((\'str\', '
 '"\'units\'"), (\'str\', "\'rad/km^3\'"))]))), ((\'str\', "\'fourth_term\'"), (\'Variable\', '
 '(\'tuple\', []), (\'float\', \'nan\'), (\'dict\', [((\'str\', "\'units\'"), (\'str\', '
 '"\'rad/km^4\'"))]))), ((\'str\', "\'fifth_term\'"), (\'Variable\', (\'tuple\', []), (\'float\', '
 '\'nan\'), (\'dict\', [((\'str\', "\'units\'"), (\'str\', "\'rad/km^5\'"))])))]), (\'dict\', '
 '[((\'str\', "\'formula\'"), (\'str\', "\'θ = a0 + a1*R + a2*R^2 + a3*R^3 + a4*R^4 + a5*R^5\'")), '
 '((\'str\', "\'theta\'"), (\'str\', "\'incidence angle\'")), ((\'str\', "\'r\'"), (\'str\', '
 '"\'slant range\'"))])))]), (\'dict\', [((\'str\', "\'scene_id\'"), (\'str\', '
 '"\'ALOS2310000000-200229\'")), ((\'str\', "\'scene_center_time\'"), (\'str\', '
 '"\'2020-02-29T12:00:00.500000\'")), ((\'str\', "\'ellipsoid_designator\'"), (\'str\', "\'\'")), '
 '((\'str\', "\'ellipsoid_j2_parameter\'"), (\'float\', \'nan\')), ((\'str\', '
 '"\'ellipsoid_j3_parameter\'"), (\'float\', \'nan\')), ((\'str\', "\'ellipsoid_j4_parameter\'"), '
 '(\'float\', \'nan\')), ((\'str\', "\'scene_center_line_number\'"), (\'int\', \'-1\')), '
 '((\'str\', "\'scene_center_pixel_number\'"), (\'int\', \'-1\')), ((\'str\', '
 '"\'number_of_sar_channel\'"), (\'int\', \'-1\')), ((\'str\', '
 '"\'sensor_platform_mission_identifier\'"), (\'str\', "\'\'")), ((\'str\', '
 '"\'sensor_id_and_operation_mode\'"), (\'str\', "\'\'")), ((\'str\', '
 '"\'orbit_number_or_flight_line_indicator\'"), (\'int\', \'-1\')), ((\'str\', '
 '"\'motion_compensation_indicator\'"), (\'EnumInteger\', \'-1\')), ((\'str\', '
 '"\'range_pulse_code\'"), (\'str\', "\'\'")), ((\'str\', '
 '"\'down_linked_data_chirp_extraction_index\'"), (\'int\', \'-1\')), ((\'str\', '
 '"\'base_band_conversion_flag\'"), (\'str\', "\'yes\'")), ((\'str\', '
 '"\'range_compression_flag\'"), (\'str\', "\'no\'")), ((\'str\', '
 '"\'receiver_gain_for_like_polarized_at_early_edge_at_the_start_of_the_image\'"), (\'float\', '
 "'nan')), (('str', "
 '"\'receiver_gain_for_cross_polarized_at_early_edge_at_the_start_of_the_image\'"), (\'float\', '
 '\'nan\')), ((\'str\', "\'quantization_in_bits_per_channel\'"), (\'int\', \'-1\')), ((\'str\', '
 '"\'quantized_descriptor\'"), (\'str\', "\'\'")), ((\'str\', "\'dc_bias_for_I_component\'"), '
 '(\'float\', \'nan\')), ((\'str\', "\'dc_bias_for_Q_component\'"), (\'float\', \'nan\')), '
 '((\'str\', "\'gain_imbalance_for_I_and_Q\'"), (\'float\', \'nan\')), ((\'str\', '
 '"\'electronic_boresight\'"), (\'float\', \'nan\')), ((\'str\', "\'mechanical_boresight\'"), '
 '(\'float\', \'nan\')), ((\'str\', "\'echo_tracker_status\'"), (\'str\', "\'on\'")), ((\'str\', '
 '"\'satellite_encoded_binary_time_code\'"), (\'int\', \'-1\')), ((\'str\', '
 '"\'satellite_clock_time\'"), (\'str\', "\'\'")), ((\'str\', "\'processing_facility_id\'"), '
 '(\'str\', "\'\'")), ((\'str\', "\'processing_system_id\'"), (\'str\', "\'\'")), ((\'str\', '
 '"\'processing_version_id\'"), (\'str\', "\'\'")), ((\'str\', "\'product_level_code\'"), '
 '(\'str\', "\'\'")), ((\'str\', "\'product_type_specifier\'"), (\'str\', "\'\'")), ((\'str\', '
 '"\'number_of_looks_in_azimuth\'"), (\'float\', \'nan\')), ((\'str\', '
 '"\'number_of_looks_in_range\'"), (\'float\', \'nan\')), ((\'str\', '
 '"\'weighting_function_in_azimuth\'"), (\'str\', "\'rectangle\'")), ((\'str\', '
 '"\'weighting_function_in_range\'"), (\'str\', "\'rectangle\'")), ((\'str\', '
 '"\'data_input_source\'"), (\'str\', "\'\'")), ((\'str\', '
 '"\'time_direction_indicator_along_line_direction\'"), (\'str\', "\'\'")), ((\'str\', '
 '"\'line_content_indicator\'"), (\'str\', "\'\'")), ((\'str\', "\'clutter_lock_applied_flag\'"), '
 '(\'str\', "\'off\'")), ((\'str\', "\'auto_focusing_applied_flag\'"), (\'str\', "\'yes\'")), '
 '((\'str\', "\'processor_range_compression_designator\'"), (\'str\', "\'\'")), ((\'str\', '
 '"\'calibration_mode_data_location_flag\'"), (\'int\', \'-1\')), ((\'str\', '
 '"\'prf_switching_indicator\'"), (\'int\', \'-1\')), ((\'str\', '
 '"\'line_number_of_prf_switching\'"), (\'int\', \'-1\')), ((\'str\', '
 '"\'yaw_steering_mode_flag\'"), (\'int\', \'-1\')), ((\'str\', "\'nominal_off_nadir_angle\'"), '
 '(\'float\', \'nan\')), ((\'str\', "\'antenna_beam_number\'"), (\'int\', \'-1\'))]))), ((\'str\', '
 '"\'map_projection\'"), (\'Group\', \'/map_projection\', None, (\'dict\', [((\'str\', '
 '"\'general_information\'"), (\'Group\', \'/map_projection/general_information\', None, '
 '(\'dict\', [((\'str\', "\'inter_line_distance_in_output_scene\'"), (\'Variable\', (\'tuple\', '
 '[]), (\'float\', \'nan\'), (\'dict\', [((\'str\', "\'units\'"), (\'str\', "\'m\'"))]))), '
 '((\'str\', "\'inter_pixel_distance_in_output_scene\'"), (\'Variable\', (\'tuple\', []), '
 '(\'float\', \'nan\'), (\'dict\', [((\'str\', "\'units\'"), (\'str\', "\'m\'"))]))), ((\'str\', '
 '"\'angle_between_projection_aixs_from_true_north_at_processed_scene_center\'"), (\'Variable\', '
 '(\'tuple\', []), (\'float\', \'nan\'), (\'dict\', [((\'str\', "\'units\'"), (\'str\', '
 '"\'deg\'"))]))), ((\'str\', "\'actual_platform_orbital_inclination\'"), (\'Variable\', '
 '(\'tuple\', []), (\'float\', \'nan\'), (\'dict\', [((\'str\', "\'units\'"), (\'str\', '
 '"\'deg\'"))]))), ((\'str\', "\'actual_ascending_node\'"), (\'Variable\', (\'tuple\', []), '
 '(\'float\', \'nan\'), (\'dict\', [((\'str\', "\'units\'"), (\'str\', "\'deg\'"))]))), ((\'str\', '
 '"\'distance_of_platform_at_input_scene_center_from_geocenter\'"), (\'Variable\', (\'tuple\', '
 '[]), (\'float\', \'nan\'), (\'dict\', [((\'str\', "\'units\'"), (\'str\', "\'m\'"))]))), '
 '((\'str\', "\'geodetic_altitude_of_the_platform_relative_to_the_ellipsoid\'"), (\'Variable\', '
 '(\'tuple\', []), (\'float\', \'nan\'), (\'dict\', [((\'str\', "\'units\'"), (\'str\', '
 '"\'m\'"))]))), ((\'str\', "\'actual_ground_speed_at_nadir_at_input_scene_center_time\'"), '
 '(\'Variable\', (\'tuple\', []), (\'float\', \'nan\'), (\'dict\', [((\'str\', "\'units\'"), '
 '(\'str\', "\'m/s\'"))]))), ((\'str\', "\'platform_headings\'"), (\'Variable\', (\'tuple\', []), '
 '(\'float\', \'nan\'), (\'dict\', [((\'str\', "\'units\'"), (\'str\', "\'deg\'"))])))]), '
 '(\'dict\', [((\'str\', "\'map_projection_type\'"), (\'str\', "\'\'")), ((\'str\', '
 '"\'n_columns\'"), (\'int\', \'-1\')), ((\'str\', "\'n_rows\'"), (\'int\', \'25000\'))]))), '
 '((\'str\', "\'ellipsoid_parameters\'"), (\'Group\', \'/map_projection/ellipsoid_parameters\', '
 'None, (\'dict\', [((\'str\', "\'semimajor_axis\'"), (\'Variable\', (\'tuple\', []), (\'float\', '
 '\'nan\'), (\'dict\', [((\'str\', "\'units\'"), (\'str\', "\'m\'"))]))), ((\'str\', '
 '"\'semiminor_axis\'"), (\'Variable\', (\'tuple\', []), (\'float\', \'nan\'), (\'dict\', '
 '[((\'str\', "\'units\'"), (\'str\', "\'m\'"))])))]), (\'dict\', [((\'str\', '
 '"\'reference_ellipsoid\'"), (\'str\', "\'\'"))]))), ((\'str\', "\'projection\'"), (\'Group\', '
 '\'/map_projection/projection\', None, (\'dict\', [((\'str\', "\'center_of_projection\'"), '
 "('Group', '/map_projection/projection/center_of_projection', None, ('dict', [(('str', "
 '"\'longitude\'"), (\'Variable\', (\'tuple\', []), (\'float\', \'nan\'), (\'dict\', [((\'str\', '
 '"\'units\'"), (\'str\', "\'deg\'"))]))), ((\'str\', "\'latitude\'"), (\'Variable\', (\'tuple\', '
 '[]), (\'float\', \'nan\'), (\'dict\', [((\'str\', "\'units\'"), (\'str\', "\'deg\'"))])))]), '
 '(\'dict\', [])))]), (\'dict\', [((\'str\', "\'type\'"), (\'str\', "\'UNIVERSAL TRANSVERSE '
 'MERCATOR\'")), ((\'str\', "\'zone_number\'"), (\'str\', "\'\'")), ((\'str\', '
 '"\'scale_factor\'"), (\'float\', \'nan\'))]))), ((\'str\', "\'corner_points\'"), (\'Group\', '
 '\'/map_projection/corner_points\', None, (\'dict\', [((\'str\', "\'projected\'"), (\'Group\', '
 '\'/map_projection/corner_points/projected\', None, (\'dict\', [((\'str\', "\'corner\'"), '
 '(\'Variable\', (\'list\', [(\'str\', "\'corner\'")]), (\'list\', [(\'str\', "\'top_left\'"), '
 '(\'str\', "\'top_right\'"), (\'str\', "\'bottom_right\'"), (\'str\', "\'bottom_left\'")]), '
 '(\'dict\', []))), ((\'str\', "\'northing\'"), (\'Variable\', (\'list\', [(\'str\', '
 '"\'corner\'")]), (\'list\', [(\'float\', \'nan\'), (\'float\', \'nan\'), (\'float\', \'nan\'), '
 '(\'float\', \'nan\')]), (\'dict\', [((\'str\', "\'units\'"), (\'str\', "\'km\'"))]))), '
 '((\'str\', "\'easting\'"), (\'Variable\', (\'list\', [(\'str\', "\'corner\'")]), (\'list\', '
 "[('float', 'nan'), ('float', 'nan'), ('float', 'nan'), ('float', 'nan')]), ('dict', [(('str', "
 '"\'units\'"), (\'str\', "\'km\'"))])))]), (\'dict\', []))), ((\'str\', "\'geographic\'"), '
 "('Group', '/map_projection/corner_points/geographic', None, ('dict', [(('str', "
 '"\'corner\'"), (\'Variable\', (\'list\', [(\'str\', "\'corner\'")]), (\'list\', [(\'str\', '
 '"\'top_left\'"), (\'str\', "\'top_right\'"), (\'str\', "\'bottom_right\'"), (\'str\', '
 '"\'bottom_left\'")]), (\'dict\', []))), ((\'str\', "\'latitude\'"), (\'Variable\', (\'list\', '
 '[(\'str\', "\'corner\'")]), (\'list\', [(\'float\', \'nan\'), (\'float\', \'nan\'), (\'float\', '
 '\'nan\'), (\'float\', \'nan\')]), (\'dict\', [((\'str\', "\'units\'"), (\'str\', '
 '"\'deg\'"))]))), ((\'str\', "\'longitude\'"), (\'Variable\', (\'list\', [(\'str\', '
 '"\'corner\'")]), (\'list\', [(\'float\', \'nan\'), (\'float\', \'nan\'), (\'float\', \'nan\'), '
 '(\'float\', \'nan\')]), (\'dict\', [((\'str\', "\'units\'"), (\'str\', "\'deg\'"))])))]), '
 '(\'dict\', [])))]), (\'dict\', []))), ((\'str\', "\'conversion_coefficients\'"), (\'Group\', '
 "'/map_projection/conversion_coefficients', None, ('dict', [(('str', "
 '"\'projected_to_image\'"), (\'Group\', '
 "'/map_projection/conversion_coefficients/projected_to_image', None, ('dict', [(('str', "
 '"\'names\'"), (\'Variable\', (\'list\', [(\'str\', "\'names\'")]), (\'list\', [(\'str\', '
 '"\'A11\'"), (\'str\', "\'A12\'"), (\'str\', "\'A13\'"), (\'str\', "\'A14\'"), (\'str\', '
 '"\'A21\'"), (\'str\', "\'A22\'"), (\'str\', "\'A23\'"), (\'str\', "\'A24\'")]), (\'dict\', '
 '[]))), ((\'str\', "\'coefficients\'"), (\'Variable\', (\'list\', [(\'str\', "\'names\'")]), '
 "('list', [('float', 'nan'), ('float', 'nan'), ('float', 'nan'), ('float', 'nan'), ('float', "
 "'nan'), ('float', 'nan'), ('float', 'nan'), ('float', 'nan')]), ('dict', [])))]), ('dict', "
 '[((\'str\', "\'formula\'"), (\'str\', "\'E = A11 + A12 * R + A13 * C + A14 * R * C; N = A21 + '
 'A22 * R + A23 * C + A24 * R * C\'")), ((\'str\', "\'E\'"), (\'str\', "\'easting\'")), ((\'str\', '
 '"\'N\'"), (\'str\', "\'northing\'")), ((\'str\', "\'R\'"), (\'str\', "\'row (1-based)\'")), '
 '((\'str\', "\'C\'"), (\'str\', "\'column (1-based)\'"))]))), ((\'str\', '
 '"\'image_to_projected\'"), (\'Group\', '
 "'/map_projection/conversion_coefficients/image_to_projected', None, ('dict', [(('str', "
 '"\'names\'"), (\'Variable\', (\'list\', [(\'str\', "\'names\'")]), (\'list\', [(\'str\', '
 '"\'B11\'"), (\'str\', "\'B12\'"), (\'str\', "\'B13\'"), (\'str\', "\'B14\'"), (\'str\', '
 '"\'B21\'"), (\'str\', "\'B22\'"), (\'str\', "\'B23\'"), (\'str\', "\'B24\'")]), (\'dict\', '
 '[]))), ((\'str\', "\'coefficients\'"), (\'Variable\', (\'list\', [(\'str\', "\'names\'")]), '
 "('list', [('float', 'nan'), ('float', 'nan'), ('float', 'nan'), ('float', 'nan'), ('float', "
 "'nan'), ('float', 'nan'), ('float', 'nan'), ('float', 'nan')]), ('dict', [])))]), ('dict', "
 '[((\'str\', "\'formula\'"), (\'str\', "\'R = B11 + B12 * E + B13 * N + B14 * E * N; C = B21 + '
 'B22 * E + B23 * N + B24 * E * N\'")), ((\'str\', "\'E\'"), (\'str\', "\'easting\'")), ((\'str\', '
 '"\'N\'"), (\'str\', "\'northing\'")), ((\'str\', "\'R\'"), (\'str\', "\'row (1-based)\'")), '
 '((\'str\', "\'C\'"), (\'str\', "\'column (1-based)\'"))])))]), (\'dict\', [])))]), (\'dict\', '
 '[]))), ((\'str\', "\'platform_position\'"), (\'Group\', \'/platform_position\', None, (\'dict\', '
 '[((\'str\', "\'sampling_frequency\'"), (\'Variable\', (\'tuple\', []), (\'float\', \'60.0\'), '
 '(\'dict\', [((\'str\', "\'units\'"), (\'str\', "\'s\'"))]))), ((\'str\', '
 '"\'orbital_elements\'"), (\'Group\', \'/platform_position/orbital_elements\', None, (\'dict\', '
 '[((\'str\', "\'position\'"), (\'Group\', \'/platform_position/orbital_elements/position\', None, '
 '(\'dict\', [((\'str\', "\'x\'"), (\'Variable\', (\'tuple\', []), (\'float\', \'1.0\'), '
 '(\'dict\', [((\'str\', "\'units\'"), (\'str\', "\'m\'"))]))), ((\'str\', "\'y\'"), '
 '(\'Variable\', (\'tuple\', []), (\'float\', \'2.0\'), (\'dict\', [((\'str\', "\'units\'"), '
 '(\'str\', "\'m\'"))]))), ((\'str\', "\'z\'"), (\'Variable\', (\'tuple\', []), (\'float\', '
 '\'3.0\'), (\'dict\', [((\'str\', "\'units\'"), (\'str\', "\'m\'"))])))]), (\'dict\', []))), '
 '((\'str\', "\'velocity\'"), (\'Group\', \'/platform_position/orbital_elements/velocity\', None, '
 '(\'dict\', [((\'str\', "\'x\'"), (\'Variable\', (\'tuple\', []), (\'float\', \'4.0\'), '
 '(\'dict\', [((\'str\', "\'units\'"), (\'str\', "\'m/s\'"))]))), ((\'str\', "\'y\'"), '
 '(\'Variable\', (\'tuple\', []), (\'float\', \'5.0\'), (\'dict\', [((\'str\', "\'units\'"), '
 '(\'str\', "\'m/s\'"))]))), ((\'str\', "\'z\'"), (\'Variable\', (\'tuple\', []), (\'float\', '
 '\'6.0\'), (\'dict\', [((\'str\', "\'units\'"), (\'str\', "\'m/s\'"))])))]), (\'dict\', [])))]), '
 '(\'dict\', [((\'str\', "\'type\'"), (\'str\', "\'high_precision\'"))]))), ((\'str\', '
 '"\'nominal_error\'"), (\'Group\', \'/platform_position/nominal_error\', None, (\'dict\', '
 '[((\'str\', "\'position\'"), (\'Group\', \'/platform_position/nominal_error/position\', None, '
 '(\'dict\', [((\'str\', "\'along_track\'"), (\'Variable\', (\'tuple\', []), (\'float\', \'0.1\'), '
 '(\'dict\', [((\'str\', "\'units\'"), (\'str\', "\'m\'"))]))), ((\'str\', "\'across_track\'"), '
 '(\'Variable\', (\'tuple\', []), (\'float\', \'0.2\'), (\'dict\', [((\'str\', "\'units\'"), '
 '(\'str\', "\'m\'"))]))), ((\'str\', "\'radial\'"), (\'Variable\', (\'tuple\', []), (\'float\', '
 '\'0.3\'), (\'dict\', [((\'str\', "\'units\'"), (\'str\', "\'m\'"))])))]), (\'dict\', []))), '
 '((\'str\', "\'velocity\'"), (\'Group\', \'/platform_position/nominal_error/velocity\', None, '
 '(\'dict\', [((\'str\', "\'along_track\'"), (\'Variable\', (\'tuple\', []), (\'float\', \'0.4\'), '
 '(\'dict\', [((\'str\', "\'units\'"), (\'str\', "\'m/s\'"))]))), ((\'str\', "\'across_track\'"), '
 '(\'Variable\', (\'tuple\', []), (\'float\', \'0.5\'), (\'dict\', [((\'str\', "\'units\'"), '
 '(\'str\', "\'m/s\'"))]))), ((\'str\', "\'radial\'"), (\'Variable\', (\'tuple\', []), (\'float\', '
 '\'0.6\'), (\'dict\', [((\'str\', "\'units\'"), (\'str\', "\'m/s\'"))])))]), (\'dict\', [])))]), '
 '(\'dict\', []))), ((\'str\', "\'positions\'"), (\'Group\', \'/platform_position/positions\', '
 'None, (\'dict\', [((\'str\', "\'position\'"), (\'Group\', '
 '\'/platform_position/positions/position\', None, (\'dict\', [((\'str\', "\'x\'"), (\'Variable\', '
 '(\'list\', [(\'str\', "\'positions\'")]), (\'list\', [(\'float\', \'1000000.0\'), (\'float\', '
 "'1000001.0'), ('float', '1000002.0'), ('float', '1000003.0'), ('float', '1000004.0'), ('float', "
 "'1000005.0'), ('float', '1000006.0'), ('float', '1000007.0'), ('float', '1000008.0'), ('float', "
 "'1000009.0'), ('float', '1000010.0'), ('float', '1000011.0'), ('float', '1000012.0'), ('float', "
 "'1000013.0'), ('float', '1000014.0'), ('float', '1000015.0'), ('float', '1000016.0'), ('float', "
 "'1000017.0'), ('float', '1000018.0'), ('float', '1000019.0'), ('float', '1000020.0'), ('float', "
 "'1000021.0'), ('float', '1000022.0'), ('float', '1000023.0'), ('float', '1000024.0'), ('float', "
 "'1000025.0'), ('float', '1000026.0'), ('float', '1000027.0')]), ('dict', [(('str', "
 '"\'units\'"), (\'str\', "\'m\'"))]))), ((\'str\', "\'y\'"), (\'Variable\', (\'list\', [(\'str\', '
 '"\'positions\'")]), (\'list\', [(\'float\', \'2000000.0\'), (\'float\', \'1999999.0\'), '
 "('float', '1999998.0'), ('float', '1999997.0'), ('float', '1999996.0'), ('float', '1999995.0'), "
 "('float', '1999994.0'), ('float', '1999993.0'), ('float', '1999992.0'), ('float', '1999991.0'), "
 "('float', '1999990.0'), ('float', '1999989.0'), ('float', '1999988.0'), ('float', '1999987.0'), "
 "('float', '1999986.0'), ('float', '1999985.0'), ('float', '1999984.0'), ('float', '1999983.0'), "
 "('float', '1999982.0'), ('float', '1999981.0'), ('float', '1999980.0'), ('float', '1999979.0'), "
 "('float', '1999978.0'), ('float', '1999977.0'), ('float', '1999976.0'), ('float', '1999975.0'), "
 '(\'float\', \'1999974.0\'), (\'float\', \'1999973.0\')]), (\'dict\', [((\'str\', "\'units\'"), '
 '(\'str\', "\'m\'"))]))), ((\'str\', "\'z\'"), (\'Variable\', (\'list\', [(\'str\', '
 '"\'positions\'")]), (\'list\', [(\'float\', \'3000000.0\'), (\'float\', \'3000002.0\'), '
 "('float', '3000004.0'), ('float', '3000006.0'), ('float', '3000008.0'), ('float', '3000010.0'), "
 "('float', '3000012.0'), ('float', '3000014.0'), ('float', '3000016.0'), ('float', '3000018.0'), "
 "('float', '3000020.0'), ('float', '3000022.0'), ('float', '3000024.0'), ('float', '3000026.0'), "
 "('float', '3000028.0'), ('float', '3000030.0'), ('float', '3000032.0'), ('float', '3000034.0'), "
 "('float', '3000036.0'), ('float', '3000038.0'), ('float', '3000040.0'), ('float', '3000042.0'), "
 "('float', '3000044.0'), ('float', '3000046.0'), ('float', '3000048.0'), ('float', '3000050.0'), "
 '(\'float\', \'3000052.0\'), (\'float\', \'3000054.0\')]), (\'dict\', [((\'str\', "\'units\'"), '
 '(\'str\', "\'m\'"))])))]), (\'dict\', []))), ((\'str\', "\'velocity\'"), (\'Group\', '
 '\'/platform_position/positions/velocity\', None, (\'dict\', [((\'str\', "\'x\'"), (\'Variable\', '
 '(\'list\', [(\'str\', "\'positions\'")]), (\'list\', [(\'float\', \'7000.0\'), (\'float\', '
 "'6999.0'), ('float', '6998.0'), ('float', '6997.0'), ('float', '6996.0'), ('float', '6995.0'), "
 "('float', '6994.0'), ('float', '6993.0'), ('float', '6992.0'), ('float', '6991.0'), ('float', "
 "'6990.0'), ('float', '6989.0'), ('float', '6988.0'), ('float', '6987.0'), ('float', '6986.0'), "
 "('float', '6985.0'), ('float', '6984.0'), ('float', '6983.0'), ('float', '6982.0'), ('float', "
 "'6981.0'), ('float', '6980.0'), ('float', '6979.0'), ('float', '6978.0'), ('float', '6977.0'), "
 "('float', '6976.0'), ('float', '6975.0'), ('float', '6974.0'), ('float', '6973.0')]), ('dict', "
 '[((\'str\', "\'units\'"), (\'str\', "\'m/s\'"))]))), ((\'str\', "\'y\'"), (\'Variable\', '
 '(\'list\', [(\'str\', "\'positions\'")]), (\'list\', [(\'float\', \'-7000.0\'), (\'float\', '
 "'-6999.0'), ('float', '-6998.0'), ('float', '-6997.0'), ('float', '-6996.0'), ('float', "
 "'-6995.0'), ('float', '-6994.0'), ('float', '-6993.0'), ('float', '-6992.0'), ('float', "
 "'-6991.0'), ('float', '-6990.0'), ('float', '-6989.0'), ('float', '-6988.0'), ('float', "
 "'-6987.0'), ('float', '-6986.0'), ('float', '-6985.0'), ('float', '-6984.0'), ('float', "
 "'-6983.0'), ('float', '-6982.0'), ('float', '-6981.0'), ('float', '-6980.0'), ('float', "
 "'-6979.0'), ('float', '-6978.0'), ('float', '-6977.0'), ('float', '-6976.0'), ('float', "
 "'-6975.0'), ('float', '-6974.0'), ('float', '-6973.0')]), ('dict', [(('str', "
 '"\'units\'"), (\'str\', "\'m/s\'"))]))), ((\'str\', "\'z\'"), (\'Variable\', (\'list\', '
 '[(\'str\', "\'positions\'")]), (\'list\', [(\'float\', \'0.0\'), (\'float\', \'0.5\'), '
 "('float', '1.0'), ('float', '1.5'), ('float', '2.0'), ('float', '2.5'), ('float', '3.0'), "
 "('float', '3.5'), ('float', '4.0'), ('float', '4.5'), ('float', '5.0'), ('float', '5.5'), "
 "('float', '6.0'), ('float', '6.5'), ('float', '7.0'), ('float', '7.5'), ('float', '8.0'), "
 "('float', '8.5'), ('float', '9.0'), ('float', '9.5'), ('float', '10.0'), ('float', '10.5'), "
 "('float', '11.0'), ('float', '11.5'), ('float', '12.0'), ('float', '12.5'), ('float', '13.0'), "
 '(\'float\', \'13.5\')]), (\'dict\', [((\'str\', "\'units\'"), (\'str\', "\'m/s\'"))])))]), '
 '(\'dict\', [])))]), (\'dict\', [])))]), (\'dict\', [((\'str\', "\'datetime_of_first_point\'"), '
 '(\'str\', "\'2020-02-29T12:00:00.500000\'")), ((\'str\', "\'reference_coordinate_system\'"), '
 '(\'str\', "\'ECR\'")), ((\'str\', "\'leap_second\'"), (\'bool\', \'True\'))]))), ((\'str\', '
 '"\'attitude\'"), (\'Group\', \'/attitude\', None, (\'dict\', [((\'str\', "\'attitude\'"), '
 '(\'Group\', \'/attitude/attitude\', None, (\'dict\', [((\'str\', "\'pitch_error\'"), '
 '(\'Variable\', (\'list\', [(\'str\', "\'points\'")]), (\'list\', [(\'bool\', \'False\'), '
 '(\'bool\', \'True\'), (\'bool\', \'False\')]), (\'dict\', []))), ((\'str\', "\'roll_error\'"), '
 '(\'Variable\', (\'list\', [(\'str\', "\'points\'")]), (\'list\', [(\'bool\', \'False\'), '
 '(\'bool\', \'False\'), (\'bool\', \'False\')]), (\'dict\', []))), ((\'str\', "\'yaw_error\'"), '
 '(\'Variable\', (\'list\', [(\'str\', "\'points\'")]), (\'list\', [(\'bool\', \'True\'), '
 '(\'bool\', \'True\'), (\'bool\', \'True\')]), (\'dict\', []))), ((\'str\', "\'pitch\'"), '
 '(\'Variable\', (\'list\', [(\'str\', "\'points\'")]), (\'list\', [(\'float\', \'0.0\'), '
 '(\'float\', \'1.0\'), (\'float\', \'2.0\')]), (\'dict\', [((\'str\', "\'units\'"), (\'str\', '
 '"\'deg\'"))]))), ((\'str\', "\'roll\'"), (\'Variable\', (\'list\', [(\'str\', "\'points\'")]), '
 "('list', [('float', '0.0'), ('float', '2.0'), ('float', '4.0')]), ('dict', [(('str', "
 '"\'units\'"), (\'str\', "\'deg\'"))]))), ((\'str\', "\'yaw\'"), (\'Variable\', (\'list\', '
 '[(\'str\', "\'points\'")]), (\'list\', [(\'float\', \'0.0\'), (\'float\', \'3.0\'), (\'float\', '
 '\'6.0\')]), (\'dict\', [((\'str\', "\'units\'"), (\'str\', "\'deg\'"))]))), ((\'str\', '
 '"\'time\'"), (\'Variable\', (\'list\', [(\'str\', "\'points\'")]), (\'ndarray\', '
 "'datetime64[ns]', (3,), ['1586563199000000000', '1586649598500000000', '1586735998000000000']), "
 '(\'dict\', [])))]), (\'dict\', [((\'str\', "\'coordinates\'"), (\'list\', [(\'str\', '
 '"\'time\'")]))]))), ((\'str\', "\'rates\'"), (\'Group\', \'/attitude/rates\', None, (\'dict\', '
 '[((\'str\', "\'pitch_error\'"), (\'Variable\', (\'list\', [(\'str\', "\'points\'")]), (\'list\', '
 "[('bool', 'False'), ('bool', 'True'), ('bool', 'False')]), ('dict', []))), (('str', "
 '"\'roll_error\'"), (\'Variable\', (\'list\', [(\'str\', "\'points\'")]), (\'list\', [(\'bool\', '
 "'False'), ('bool', 'False'), ('bool', 'False')]), ('dict', []))), (('str', "
 '"\'yaw_error\'"), (\'Variable\', (\'list\', [(\'str\', "\'points\'")]), (\'list\', [(\'bool\', '
 "'True'), ('bool', 'True'), ('bool', 'True')]), ('dict', []))), (('str', "
 '"\'pitch\'"), (\'Variable\', (\'list\', [(\'str\', "\'points\'")]), (\'list\', [(\'float\', '
 '\'0.0\'), (\'float\', \'0.01\'), (\'float\', \'0.02\')]), (\'dict\', [((\'str\', "\'units\'"), '
 '(\'str\', "\'deg/s\'"))]))), ((\'str\', "\'roll\'"), (\'Variable\', (\'list\', [(\'str\', '
 '"\'points\'")]), (\'list\', [(\'float\', \'0.0\'), (\'float\', \'0.02\'), (\'float\', '
 '\'0.04\')]), (\'dict\', [((\'str\', "\'units\'"), (\'str\', "\'deg/s\'"))]))), ((\'str\', '
 '"\'yaw\'"), (\'Variable\', (\'list\', [(\'str\', "\'points\'")]), (\'list\', [(\'float\', '
 '\'0.0\'), (\'float\', \'0.03\'), (\'float\', \'0.06\')]), (\'dict\', [((\'str\', "\'units\'"), '
 '(\'str\', "\'deg/s\'"))]))), ((\'str\', "\'time\'"), (\'Variable\', (\'list\', [(\'str\', '
 '"\'points\'")]), (\'ndarray\', \'datetime64[ns]\', (3,), [\'1586563199000000000\', '
 "'1586649598500000000', '1586735998000000000']), ('dict', [])))]), ('dict', [(('str', "
 '"\'coordinates\'"), (\'list\', [(\'str\', "\'time\'")]))])))]), (\'dict\', []))), ((\'str\', '
 '"\'radiometric_data\'"), (\'Group\', \'/radiometric_data\', None, (\'dict\', [((\'str\', '
 '"\'calibration_factor\'"), (\'Variable\', (\'tuple\', []), (\'float\', \'nan\'), (\'dict\', '
 '[((\'str\', "\'formula\'"), (\'str\', "\'σ⁰=10*log_10<I^2 + Q^2> + CF - 32.0; '
 'σ⁰(level1.5/level3.1)=10*log_10<DN^2> + CF\'")), ((\'str\', "\'I\'"), (\'str\', "\'level 1.1 '
 'real pixel value\'")), ((\'str\', "\'Q\'"), (\'str\', "\'level 1.1 imaginary pixel value\'")), '
 '((\'str\', "\'DN\'"), (\'str\', "\'level 1.5/3.1 pixel value\'"))]))), ((\'str\', '
 '"\'distortion_matrix\'"), (\'Group\', \'/radiometric_data/distortion_matrix\', None, (\'dict\', '
 '[((\'str\', "\'transmission\'"), (\'Variable\', (\'list\', [(\'str\', "\'i\'"), (\'str\', '
 '"\'j\'")]), (\'list\', [(\'list\', [(\'complex\', \'(nan+nanj)\'), (\'complex\', '
 "'(nan+nanj)')]), ('list', [('complex', '(nan+nanj)'), ('complex', '(nan+nanj)')])]), ('dict', "
 '[]))), ((\'str\', "\'reception\'"), (\'Variable\', (\'list\', [(\'str\', "\'i\'"), (\'str\', '
 '"\'j\'")]), (\'list\', [(\'list\', [(\'complex\', \'(nan+nanj)\'), (\'complex\', '
 "'(nan+nanj)')]), ('list', [('complex', '(nan+nanj)'), ('complex', '(nan+nanj)')])]), ('dict', "
 '[]))), ((\'str\', "\'i\'"), (\'Variable\', (\'list\', [(\'str\', "\'i\'")]), (\'list\', '
 '[(\'str\', "\'horizontal\'"), (\'str\', "\'vertical\'")]), (\'dict\', [((\'str\', '
 '"\'long_name\'"), (\'str\', "\'reception polarization\'"))]))), ((\'str\', "\'j\'"), '
 '(\'Variable\', (\'list\', [(\'str\', "\'j\'")]), (\'list\', [(\'str\', "\'horizontal\'"), '
 '(\'str\', "\'vertical\'")]), (\'dict\', [((\'str\', "\'long_name\'"), (\'str\', "\'transmission '
 'polarization\'"))])))]), (\'dict\', [((\'str\', "\'formula\'"), (\'str\', "\'Z = '
 'A*1/r*exp(-4πr/λ) * RST + N\'")), ((\'str\', "\'Z\'"), (\'str\', "\'measurement matrix\'")), '
 '((\'str\', "\'A\'"), (\'str\', "\'amplitude\'")), ((\'str\', "\'r\'"), (\'str\', "\'slant '
 'range\'")), ((\'str\', "\'S\'"), (\'str\', "\'true scattering matrix\'")), ((\'str\', "\'N\'"), '
 '(\'str\', "\'noise component\'")), ((\'str\', "\'R\'"), (\'str\', "\'reception distortion '
 'matrix\'")), ((\'str\', "\'T\'"), (\'str\', "\'transmission distortion matrix\'"))])))]), '
 '(\'dict\', []))), ((\'str\', "\'data_quality_summary\'"), (\'Group\', \'/data_quality_summary\', '
 'None, (\'dict\', [((\'str\', "\'absolute_radiometric_data_quality\'"), (\'Group\', '
 "'/data_quality_summary/absolute_radiometric_data_quality', None, ('dict', [(('str', "
 '"\'islr\'"), (\'Variable\', (\'tuple\', []), (\'float\', \'nan\'), (\'dict\', [((\'str\', '
 '"\'units\'"), (\'str\', "\'dB\'"))]))), ((\'str\', "\'pslr\'"), (\'Variable\', (\'tuple\', []), '
 '(\'float\', \'nan\'), (\'dict\', [((\'str\', "\'units\'"), (\'str\', "\'dB\'"))]))), ((\'str\', '
 '"\'estimate_of_snr\'"), (\'Variable\', (\'tuple\', []), (\'float\', \'nan\'), (\'dict\', '
 '[((\'str\', "\'units\'"), (\'str\', "\'dB\'"))]))), ((\'str\', "\'ber\'"), (\'Variable\', '
 '(\'tuple\', []), (\'float\', \'nan\'), (\'dict\', [((\'str\', "\'units\'"), (\'str\', '
 '"\'dB\'"))]))), ((\'str\', "\'slant_range_resolution\'"), (\'Variable\', (\'tuple\', []), '
 '(\'float\', \'nan\'), (\'dict\', [((\'str\', "\'units\'"), (\'str\', "\'m\'"))]))), ((\'str\', '
 '"\'azimuth_resolution\'"), (\'Variable\', (\'tuple\', []), (\'float\', \'nan\'), (\'dict\', '
 '[((\'str\', "\'units\'"), (\'str\', "\'m\'"))]))), ((\'str\', "\'radiometric_resolution\'"), '
 '(\'Variable\', (\'tuple\', []), (\'float\', \'nan\'), (\'dict\', [((\'str\', "\'units\'"), '
 '(\'str\', "\'dB\'"))]))), ((\'str\', "\'instantaneous_dynamic_range\'"), (\'Variable\', '
 '(\'tuple\', []), (\'float\', \'nan\'), (\'dict\', [((\'str\', "\'units\'"), (\'str\', '
 '"\'dB\'"))]))), ((\'str\', "\'nominal_absolute_radiometric_calibration_uncertainty\'"), '
 "('Group', "
 "'/data_quality_summary/absolute_radiometric_data_quality/nominal_absolute_radiometric_calibration_uncertainty', "
 'None, (\'dict\', [((\'str\', "\'magnitude\'"), (\'Variable\', (\'tuple\', []), (\'float\', '
 '\'nan\'), (\'dict\', [((\'str\', "\'units\'"), (\'str\', "\'dB\'"))]))), ((\'str\', '
 '"\'phase\'"), (\'Variable\', (\'tuple\', []), (\'float\', \'nan\'), (\'dict\', [((\'str\', '
 '"\'units\'"), (\'str\', "\'deg\'"))])))]), (\'dict\', [])))]), (\'dict\', [((\'str\', '
 '"\'azimuth_ambiguity_rate\'"), (\'float\', \'nan\')), ((\'str\', "\'range_ambiguity_rate\'"), '
 '(\'float\', \'nan\'))]))), ((\'str\', "\'relative_radiometric_quality\'"), (\'Group\', '
 "'/data_quality_summary/relative_radiometric_quality', None, ('dict', [(('str', "
 '"\'magnitude\'"), (\'Variable\', (\'list\', [(\'str\', "\'channel\'")]), (\'list\', [(\'float\', '
 '\'nan\'), (\'float\', \'nan\')]), (\'dict\', [((\'str\', "\'units\'"), (\'str\', "\'dB\'"))]))), '
 '((\'str\', "\'phase\'"), (\'Variable\', (\'list\', [(\'str\', "\'channel\'")]), (\'list\', '
 '[(\'float\', \'nan\'), (\'float\', \'nan\')]), (\'dict\', [((\'str\', "\'units\'"), (\'str\', '
 '"\'deg\'"))])))]), (\'dict\', []))), ((\'str\', "\'absolute_geometric_quality\'"), (\'Group\', '
 "'/data_quality_summary/absolute_geometric_quality', None, ('dict', [(('str', "
 '"\'absolute_location_error\'"), (\'Group\', '
 "'/data_quality_summary/absolute_geometric_quality/absolute_location_error', None, ('dict', "
 '[((\'str\', "\'along_track\'"), (\'Variable\', (\'tuple\', []), (\'float\', \'nan\'), (\'dict\', '
 '[((\'str\', "\'units\'"), (\'str\', "\'m\'"))]))), ((\'str\', "\'across_track\'"), '
 '(\'Variable\', (\'tuple\', []), (\'float\', \'nan\'), (\'dict\', [((\'str\', "\'units\'"), '
 '(\'str\', "\'m\'"))])))]), (\'dict\', []))), ((\'str\', "\'geometric_distortion_scale\'"), '
 "('Group', '/data_quality_summary/absolute_geometric_quality/geometric_distortion_scale', None, "
 '(\'dict\', []), (\'dict\', [((\'str\', "\'line_direction\'"), (\'float\', \'nan\')), ((\'str\', '
 '"\'pixel_direction\'"), (\'float\', \'nan\'))])))]), (\'dict\', [((\'str\', '
 '"\'geometric_distortion_skew\'"), (\'float\', \'nan\')), ((\'str\', '
 '"\'scene_orientation_error\'"), (\'float\', \'nan\'))]))), ((\'str\', '
 '"\'relative_geometric_quality\'"), (\'Group\', '
 "'/data_quality_summary/relative_geometric_quality', None, ('dict', [(('str', "
 '"\'along_track\'"), (\'Variable\', (\'list\', [(\'str\', "\'channel\'")]), (\'list\', '
 '[(\'float\', \'nan\'), (\'float\', \'nan\')]), (\'dict\', [((\'str\', "\'units\'"), (\'str\', '
 '"\'m\'"))]))), ((\'str\', "\'across_track\'"), (\'Variable\', (\'list\', [(\'str\', '
 '"\'channel\'")]), (\'list\', [(\'float\', \'nan\'), (\'float\', \'nan\')]), (\'dict\', '
 '[((\'str\', "\'units\'"), (\'str\', "\'m\'"))])))]), (\'dict\', [])))]), (\'dict\', [((\'str\', '
 '"\'sar_channel_id\'"), (\'str\', "\'\'")), ((\'str\', '
 '"\'date_of_the_last_calibration_update\'"), (\'str\', "\'\'")), ((\'str\', '
 '"\'number_of_channels\'"), (\'int\', \'2\'))]))), ((\'str\', "\'transformations\'"), (\'Group\', '
 '\'/transformations\', None, (\'dict\', [((\'str\', "\'projected_to_image\'"), (\'Group\', '
 '\'/transformations/projected_to_image\', None, (\'dict\', [((\'str\', "\'a\'"), (\'Variable\', '
 '(\'list\', [(\'str\', "\'mid_precision_coeffs\'")]), (\'list\', [(\'float\', \'nan\'), '
 "('float', 'nan'), ('float', 'nan'), ('float', 'nan'), ('float', 'nan'), ('float', 'nan'), "
 "('float', 'nan'), ('float', 'nan'), ('float', 'nan'), ('float', 'nan')]), ('dict', []))), "
 '((\'str\', "\'b\'"), (\'Variable\', (\'list\', [(\'str\', "\'mid_precision_coeffs\'")]), '
 "('list', [('float', 'nan'), ('float', 'nan'), ('float', 'nan'), ('float', 'nan'), ('float', "
 "'nan'), ('float', 'nan'), ('float', 'nan'), ('float', 'nan'), ('float', 'nan'), ('float', "
 '\'nan\')]), (\'dict\', [])))]), (\'dict\', [((\'str\', "\'formula\'"), (\'str\', "\'P = a0 + '
 'a1*φ + a2*λ + a3*φ*λ + a4*φ^2 + a5*λ^2 + a6*φ^2*λ + a7*φ*λ^2 + a8*φ^3 + a9*λ^3; L = b0 + b1*φ + '
 'b2*λ + b3*φ*λ + b4*φ^2 + b5*λ^2 + b6*φ^2*λ + b7*φ*λ^2 + b8*φ^3 + b9*λ^3\'"))]))), ((\'str\', '
 '"\'calibration_at_upper_image\'"), (\'Group\', \'/transformations/calibration_at_upper_image\', '
 'None, (\'dict\', []), (\'dict\', [((\'str\', "\'start_line_number\'"), (\'int\', \'-1\')), '
 '((\'str\', "\'end_line_number\'"), (\'int\', \'-1\'))]))), ((\'str\', '
 '"\'calibration_at_bottom_image\'"), (\'Group\', '
 "'/transformations/calibration_at_bottom_image', None, ('dict', []), ('dict', [(('str', "
 '"\'start_line_number\'"), (\'int\', \'-1\')), ((\'str\', "\'end_line_number\'"), (\'int\', '
 '\'-1\'))]))), ((\'str\', "\'number_of_loss_lines\'"), (\'Group\', '
 "'/transformations/number_of_loss_lines', None, ('dict', []), ('dict', [(('str', "
 '"\'level1.0\'"), (\'int\', \'-1\')), ((\'str\', "\'others\'"), (\'int\', \'-1\'))]))), '
 '((\'str\', "\'image_to_geographic\'"), (\'Group\', \'/transformations/image_to_geographic\', '
 'None, (\'dict\', [((\'str\', "\'a\'"), (\'Variable\', (\'list\', [(\'str\', '
 '"\'high_precision_coeffs\'")]), (\'list\', [(\'float\', \'nan\'), (\'float\', \'nan\'), '
 "('float', 'nan'), ('float', 'nan'), ('float', 'nan'), ('float', 'nan'), ('float', 'nan'), "
 "('float', 'nan'), ('float', 'nan'), ('float', 'nan'), ('float', 'nan'), ('float', 'nan'), "
 "('float', 'nan'), ('float', 'nan'), ('float', 'nan'), ('float', 'nan'), ('float', 'nan'), "
 "('float', 'nan'), ('float', 'nan'), ('float', 'nan'), ('float', 'nan'), ('float', 'nan'), "
 "('float', 'nan'), ('float', 'nan'), ('float', 'nan')]), ('dict', []))), (('str', "
 '"\'b\'"), (\'Variable\', (\'list\', [(\'str\', "\'high_precision_coeffs\'")]), (\'list\', '
 "[('float', 'nan'), ('float', 'nan'), ('float', 'nan'), ('float', 'nan'), ('float', 'nan'), "
 "('float', 'nan'), ('float', 'nan'), ('float', 'nan'), ('float', 'nan'), ('float', 'nan'), "
 "('float', 'nan'), ('float', 'nan'), ('float', 'nan'), ('float', 'nan'), ('float', 'nan'), "
 "('float', 'nan'), ('float', 'nan'), ('float', 'nan'), ('float', 'nan'), ('float', 'nan'), "
 "('float', 'nan'), ('float', 'nan'), ('float', 'nan'), ('float', 'nan'), ('float', 'nan')]), "
 '(\'dict\', []))), ((\'str\', "\'origin_pixel\'"), (\'Variable\', (\'tuple\', []), (\'float\', '
 '\'nan\'), (\'dict\', []))), ((\'str\', "\'origin_line\'"), (\'Variable\', (\'tuple\', []), '
 '(\'float\', \'nan\'), (\'dict\', [])))]), (\'dict\', [((\'str\', "\'formula\'"), (\'str\', "\'φ '
 '= a0*L^4*P^4 + a1*L^3*P^4 + a2*L^2*P^4 + a3*L*P^4 + a4*P^4 + a5*L^4*P^3 + a6*L^3*P^3 + '
 'a7*L^2*P^3 + a8*L*P^3 + a9*P^3 + a10*L^4*P^2 + a11*L^3*P^2 + a12*L^2*P^2 + a13*L*P^2 + a14*P^2 + '
 'a15*L^4*P + a16*L^3*P + a17*L^2*P + a18*L*P + a19*P + a20*L^4 + a21*L^3 + a22*L^2 + a23*L + a24; '
 'λ = b0*L^4*P^4 + b1*L^3*P^4 + b2*L^2*P^4 + b3*L*P^4 + b4*P^4 + b5*L^4*P^3 + b6*L^3*P^3 + '
 'b7*L^2*P^3 + b8*L*P^3 + b9*P^3 + b10*L^4*P^2 + b11*L^3*P^2 + b12*L^2*P^2 + b13*L*P^2 + b14*P^2 + '
 'b15*L^4*P + b16*L^3*P + b17*L^2*P + b18*L*P + b19*P + b20*L^4 + b21*L^3 + b22*L^2 + b23*L + '
 'b24\'"))]))), ((\'str\', "\'geographic_to_image\'"), (\'Group\', '
 '\'/transformations/geographic_to_image\', None, (\'dict\', [((\'str\', "\'c\'"), (\'Variable\', '
 '(\'list\', [(\'str\', "\'high_precision_coeffs\'")]), (\'list\', [(\'float\', \'nan\'), '
 "('float', 'nan'), ('float', 'nan'), ('float', 'nan'), ('float', 'nan'), ('float', 'nan'), "
 "('float', 'nan'), ('float', 'nan'), ('float', 'nan'), ('float', 'nan'), ('float', 'nan'), "
 "('float', 'nan'), ('float', 'nan'), ('float', 'nan'), ('float', 'nan'), ('float', 'nan'), "
 "('float', 'nan'), ('float', 'nan'), ('float', 'nan'), ('float', 'nan'), ('float', 'nan'), "
 "('float', 'nan'), ('float', 'nan'), ('float', 'nan'), ('float', 'nan')]), ('dict', []))), "
 '((\'str\', "\'d\'"), (\'Variable\', (\'list\', [(\'str\', "\'high_precision_coeffs\'")]), '
 "('list', [('float', 'nan'), ('float', 'nan'), ('float', 'nan'), ('float', 'nan'), ('float', "
 "'nan'), ('float', 'nan'), ('float', 'nan'), ('float', 'nan'), ('float', 'nan'), ('float', "
 "'nan'), ('float', 'nan'), ('float', 'nan'), ('float', 'nan'), ('float', 'nan'), ('float', "
 "'nan'), ('float', 'nan'), ('float', 'nan'), ('float', 'nan'), ('float', 'nan'), ('float', "
 "'nan'), ('float', 'nan'), ('float', 'nan'), ('float', 'nan'), ('float', 'nan'), ('float', "
 '\'nan\')]), (\'dict\', []))), ((\'str\', "\'origin_latitude\'"), (\'Variable\', (\'tuple\', []), '
 '(\'float\', \'nan\'), (\'dict\', []))), ((\'str\', "\'origin_longitude\'"), (\'Variable\', '
 "('tuple', []), ('float', 'nan'), ('dict', [])))]), ('dict', [(('str', "
 '"\'formula\'"), (\'str\', "\'p = c0*Λ^4*Φ^4 + c1*Λ^3*Φ^4 + c2*Λ^2*Φ^4 + c3*Λ*Φ^4 + c4*Φ^4 + '
 'c5*Λ^4*Φ^3 + c6*Λ^3*Φ^3 + c7*Λ^2*Φ^3 + c8*Λ*Φ^3 + c9*Φ^3 + c10*Λ^4*Φ^2 + c11*Λ^3*Φ^2 + '
 'c12*Λ^2*Φ^2 + c13*Λ*Φ^2 + c14*Φ^2 + c15*Λ^4*Φ + c16*Λ^3*Φ + c17*Λ^2*Φ + c18*Λ*Φ + c19*Φ; l = '
 'd0*Λ^4*Φ^4 + d1*Λ^3*Φ^4 + d2*Λ^2*Φ^4 + d3*Λ*Φ^4 + d4*Φ^4 + d5*Λ^4*Φ^3 + d6*Λ^3*Φ^3 + d7*Λ^2*Φ^3 '
 '+ d8*Λ*Φ^3 + d9*Φ^3 + d10*Λ^4*Φ^2 + d11*Λ^3*Φ^2 + d12*Λ^2*Φ^2 + d13*Λ*Φ^2 + d14*Φ^2 + d15*Λ^4*Φ '
 '+ d16*Λ^3*Φ + d17*Λ^2*Φ + d18*Λ*Φ + d19*Φ + d20*Λ^4 + d21*Λ^3 + d22*Λ^2 + d23*Λ + '
 'd24\'"))])))]), (\'dict\', [((\'str\', "\'calibration_mode_data_location_flag\'"), '
 '(\'EnumInteger\', \'-1\')), ((\'str\', "\'prf_switching\'"), (\'bool\', \'True\')), ((\'str\', '
 '"\'start_line_number_of_prf_switching\'"), (\'int\', \'-1\'))])))]), (\'dict\', [])))',
 '(\'returns\', (\'Group\', \'/\', None, (\'dict\', [((\'str\', "\'dataset_summary\'"), '
 '(\'Group\', \'/dataset_summary\', None, (\'dict\', [((\'str\', "\'geodetic_latitude\'"), '
 '(\'Variable\', (\'tuple\', []), (\'float\', \'nan\'), (\'dict\', [((\'str\', "\'units\'"), '
 '(\'str\', "\'deg\'"))]))), ((\'str\', "\'geodetic_longitude\'"), (\'Variable\', (\'tuple\', []), '
 '(\'float\', \'nan\'), (\'dict\', [((\'str\', "\'units\'"), (\'str\', "\'deg\'"))]))), ((\'str\', '
 '"\'processed_scene_center_true_heading\'"), (\'Variable\', (\'tuple\', []), (\'float\', '
 '\'nan\'), (\'dict\', [((\'str\', "\'units\'"), (\'str\', "\'deg\'"))]))), ((\'str\', '
 '"\'ellipsoid_semimajor_axis\'"), (\'Variable\', (\'tuple\', []), (\'float\', \'nan\'), '
 '(\'dict\', [((\'str\', "\'units\'"), (\'str\', "\'km\'"))]))), ((\'str\', '
 '"\'ellipsoid_semiminor_axis\'"), (\'Variable\', (\'tuple\', []), (\'float\', \'nan\'), '
 '(\'dict\', [((\'str\', "\'units\'"), (\'str\', "\'km\'"))]))), ((\'str\', "\'earth_mass\'"), '
 '(\'Variable\', (\'tuple\', []), (\'float\', \'nan\'), (\'dict\', [((\'str\', "\'units\'"), '
 '(\'str\', "\'kg\'"))]))), ((\'str\', "\'gravitational_constant\'"), (\'Variable\', (\'tuple\', '
 '[]), (\'float\', \'nan\'), (\'dict\', [((\'str\', "\'units\'"), (\'str\', "\'m^3 / s^2\'"))]))), '
 '((\'str\', "\'sensor_platform_geodetic_latitude_at_nadir_corresponding_to_scene_center\'"), '
 '(\'Variable\', (\'tuple\', []), (\'float\', \'nan\'), (\'dict\', [((\'str\', "\'units\'"), '
 '(\'str\', "\'deg\'"))]))), ((\'str\', '
 '"\'sensor_platform_geodetic_longitude_at_nadir_corresponding_to_scene_center\'"), (\'Variable\', '
 '(\'tuple\', []), (\'float\', \'nan\'), (\'dict\', [((\'str\', "\'units\'"), (\'str\', '
 '"\'deg\'"))]))), ((\'str\', '
 '"\'sensor_platform_heading_at_nadir_corresponding_to_scene_center\'"), (\'Variable\', '
 '(\'tuple\', []), (\'float\', \'nan\'), (\'dict\', [((\'str\', "\'units\'"), (\'str\', '
 '"\'deg\'"))]))), ((\'str\', '
 '"\'sensor_clock_angle_as_measured_relative_to_sensor_platform_flight_direction\'"), '
 '(\'Variable\', (\'tuple\', []), (\'float\', \'nan\'), (\'dict\', [((\'str\', "\'units\'"), '
 '(\'str\', "\'deg\'"))]))), ((\'str\', "\'incidence_angle_at_scene_center\'"), (\'Variable\', '
 '(\'tuple\', []), (\'float\', \'nan\'), (\'dict\', [((\'str\', "\'units\'"), (\'str\', '
 '"\'deg\'"))]))), ((\'str\', "\'nominal_radar_wavelength\'"), (\'Variable\', (\'tuple\', []), '
 '(\'float\', \'nan\'), (\'dict\', [((\'str\', "\'units\'"), (\'str\', "\'m\'"))]))), ((\'str\', '
 '"\'sampling_rate\'"), (\'Variable\', (\'tuple\', []), (\'float\', \'nan\'), (\'dict\', '
 '[((\'str\', "\'units\'"), (\'str\', "\'MHz\'"))]))), ((\'str\', "\'range_gate\'"), '
 '(\'Variable\', (\'tuple\', []), (\'float\', \'nan\'), (\'dict\', [((\'str\', "\'units\'"), '
 '(\'str\', "\'µs\'"))]))), ((\'str\', "\'range_pulse_width\'"), (\'Variable\', (\'tuple\', []), '
 '(\'float\', \'nan\'), (\'dict\', [((\'str\', "\'units\'"), (\'str\', "\'µs\'"))]))), ((\'str\', '
 '"\'prf\'"), (\'Variable\', (\'tuple\', []), (\'float\', \'nan\'), (\'dict\', [((\'str\', '
 '"\'units\'"), (\'str\', "\'mHz\'"))]))), ((\'str\', "\'two_way_antenna_beam_width_elevation\'"), '
 '(\'Variable\', (\'tuple\', []), (\'float\', \'nan\'), (\'dict\', [((\'str\', "\'units\'"), '
 '(\'str\', "\'deg\'"))]))), ((\'str\', "\'two_way_antenna_beam_width_azimuth\'"), (\'Variable\', '
 '(\'tuple\', []), (\'float\', \'nan\'), (\'dict\', [((\'str\', "\'units\'"), (\'str\', '
 '"\'deg\'"))]))), ((\'str\', "\'satellite_clock_increment\'"), (\'Variable\', (\'tuple\', []), '
 '(\'int\', \'-1\'), (\'dict\', [((\'str\', "\'units\'"), (\'str\', "\'ns\'"))]))), ((\'str\', '
 '"\'bandwidth_per_look_in_azimuth\'"), (\'Variable\', (\'tuple\', []), (\'float\', \'nan\'), '
 '(\'dict\', [((\'str\', "\'units\'"), (\'str\', "\'Hz\'"))]))), ((\'str\', '
 '"\'bandwidth_per_look_in_range\'"), (\'Variable\', (\'tuple\', []), (\'float\', \'nan\'), '
 '(\'dict\', [((\'str\', "\'units\'"), (\'str\', "\'Hz\'"))]))), ((\'str\', '
 '"\'bandwidth_in_azimuth\'"), (\'Variable\', (\'tuple\', []), (\'float\', \'nan\'), (\'dict\', '
 '[((\'str\', "\'units\'"), (\'str\', "\'Hz\'"))]))), ((\'str\', "\'bandwidth_in_range\'"), '
 '(\'Variable\', (\'tuple\', []), (\'float\', \'nan\'), (\'dict\', [((\'str\', "\'units\'"), '
 '(\'str\', "\'kHz\'"))]))), ((\'str\', "\'resolution_in_ground_range\'"), (\'Variable\', '
 '(\'tuple\', []), (\'float\', \'nan\'), (\'dict\', [((\'str\', "\'units\'"), (\'str\', '
 '"\'m\'"))]))), ((\'str\', "\'resolution_in_azimuth\'"), (\'Variable\', (\'tuple\', []), '
 '(\'float\', \'nan\'), (\'dict\', [((\'str\', "\'units\'"), (\'str\', "\'m\'"))]))), ((\'str\', '
 '"\'line_spacing\'"), (\'Variable\', (\'tuple\', []), (\'float\', \'nan\'), (\'dict\', '
 '[((\'str\', "\'units\'"), (\'str\', "\'m\'"))]))), ((\'str\', "\'pixel_spacing\'"), '
 '(\'Variable\', (\'tuple\', []), (\'float\', \'nan\'), (\'dict\', [((\'str\', "\'units\'"), '
 '(\'str\', "\'m\'"))]))), ((\'str\', '
 '"\'doppler_frequency_approximately_constant_coefficient_term\'"), (\'Variable\', (\'tuple\', '
 '[]), (\'float\', \'nan\'), (\'dict\', [((\'str\', "\'units\'"), (\'str\', "\'Hz\'"))]))), '
 '((\'str\', "\'doppler_frequency_approximately_linear_coefficient_term\'"), (\'Variable\', '
 '(\'tuple\', []), (\'float\', \'nan\'), (\'dict\', [((\'str\', "\'units\'"), (\'str\', '
 '"\'Hz/km\'"))]))), ((\'str\', "\'direction_of_a_beam_center_in_a_scene_center\'"), '
 '(\'Variable\', (\'tuple\', []), (\'float\', \'nan\'), (\'dict\', [((\'str\', "\'units\'"), '
 '(\'str\', "\'deg\'"))]))), ((\'str\', "\'range_pulse_amplitude_coefficients\'"), (\'Group\', '
 "'/dataset_summary/range_pulse_amplitude_coefficients', None, ('dict', []), ('dict', [(('str', "
 '"\'coefficient_1\'"), (\'float\', \'nan\')), ((\'str\', "\'coefficient_2\'"), (\'float\', '
 '\'nan\')), ((\'str\', "\'coefficient_3\'"), (\'float\', \'nan\')), ((\'str\', '
 '"\'coefficient_4\'"), (\'float\', \'nan\')), ((\'str\', "\'coefficient_5\'"), (\'float\', '
 '\'nan\'))]))), ((\'str\', "\'along_track_doppler_frequency_center\'"), (\'Group\', '
 "'/dataset_summary/along_track_doppler_frequency_center', None, ('dict', [(('str', "
 '"\'constant_term_at_early_edge_of_the_image\'"), (\'Variable\', (\'tuple\', []), (\'float\', '
 '\'nan\'), (\'dict\', [((\'str\', "\'units\'"), (\'str\', "\'Hz\'"))]))), ((\'str\', '
 '"\'linear_coefficient_terms_at_early_edge_of_the_image\'"), (\'Variable\', (\'tuple\', []), '
 '(\'float\', \'nan\'), (\'dict\', [((\'str\', "\'units\'"), (\'str\', "\'Hz/px\'"))]))), '
 '((\'str\', "\'quadratic_coefficient_terms_at_early_edge_of_the_image\'"), (\'Variable\', '
 '(\'tuple\', []), (\'float\', \'nan\'), (\'dict\', [((\'str\', "\'units\'"), (\'str\', '
 '"\'Hz/px^2\'"))])))]), (\'dict\', []))), ((\'str\', "\'cross_track_doppler_frequency_center\'"), '
 "('Group', '/dataset_summary/cross_track_doppler_frequency_center', None, ('dict', [(('str', "
 '"\'constant_term_at_early_edge_of_the_image\'"), (\'Variable\', (\'tuple\', []), (\'float\', '
 '\'nan\'), (\'dict\', [((\'str\', "\'units\'"), (\'str\', "\'Hz\'"))]))), ((\'str\', '
 '"\'linear_coefficient_terms_at_early_edge_of_the_image\'"), (\'Variable\', (\'tuple\', []), '
 '(\'float\', \'nan\'), (\'dict\', [((\'str\', "\'units\'"), (\'str\', "\'Hz/px\'"))]))), '
 '((\'str\', "\'quadratic_coefficient_terms_at_early_edge_of_the_image\'"), (\'Variable\', '
 '(\'tuple\', []), (\'float\', \'nan\'), (\'dict\', [((\'str\', "\'units\'"), (\'str\', '
 '"\'Hz/px^2\'"))])))]), (\'dict\', []))), ((\'str\', "\'along_track_doppler_frequency_rate\'"), '
 "('Group', '/dataset_summary/along_track_doppler_frequency_rate', None, ('dict', [(('str', "
 '"\'constant_terms_at_early_edge_of_the_image\'"), (\'Variable\', (\'tuple\', []), (\'float\', '
 '\'nan\'), (\'dict\', [((\'str\', "\'units\'"), (\'str\', "\'Hz/s\'"))]))), ((\'str\', '
 '"\'linear_coefficient_at_early_edge_of_the_image\'"), (\'Variable\', (\'tuple\', []), '
 '(\'float\', \'nan\'), (\'dict\', [((\'str\', "\'units\'"), (\'str\', "\'Hz/s/px\'"))]))), '
 '((\'str\', "\'quadratic_coefficient_at_early_edge_of_the_image\'"), (\'Variable\', (\'tuple\', '
 '[]), (\'float\', \'nan\'), (\'dict\', [((\'str\', "\'units\'"), (\'str\', '
 '"\'Hz/s/px^2\'"))])))]), (\'dict\', []))), ((\'str\', "\'cross_track_doppler_frequency_rate\'"), '
 "('Group', '/dataset_summary/cross_track_doppler_frequency_rate', None, ('dict', [(('str', "
 '"\'constant_terms_at_early_edge_of_the_image\'"), (\'Variable\', (\'tuple\', []), (\'float\', '
 '\'nan\'), (\'dict\', [((\'str\', "\'units\'"), (\'str\', "\'Hz/s\'"))]))), ((\'str\', '
 '"\'linear_coefficient_at_early_edge_of_the_image\'"), (\'Variable\', (\'tuple\', []), '
 '(\'float\', \'nan\'), (\'dict\', [((\'str\', "\'units\'"), (\'str\', "\'Hz/s/px\'"))]))), '
 '((\'str\', "\'quadratic_coefficient_at_early_edge_of_the_image\'"), (\'Variable\', (\'tuple\', '
 '[]), (\'float\', \'nan\'), (\'dict\', [((\'str\', "\'units\'"), (\'str\', '
 '"\'Hz/s/px^2\'"))])))]), (\'dict\', []))), ((\'str\', "\'calibration_at_the_side_of_start\'"), '
 "('Group', '/dataset_summary/calibration_at_the_side_of_start', None, ('dict', []), ('dict', "
 '[((\'str\', "\'start_line_number\'"), (\'int\', \'-1\')), ((\'str\', "\'end_line_number\'"), '
 '(\'int\', \'-1\'))]))), ((\'str\', "\'calibration_at_the_side_of_end\'"), (\'Group\', '
 "'/dataset_summary/calibration_at_the_side_of_end', None, ('dict', []), ('dict', [(('str', "
 '"\'start_line_number\'"), (\'int\', \'-1\')), ((\'str\', "\'end_line_number\'"), (\'int\', '
 '\'-1\'))]))), ((\'str\', "\'incidence_angle\'"), (\'Group\', '
 '\'/dataset_summary/incidence_angle\', None, (\'dict\', [((\'str\', "\'constant_term\'"), '
 '(\'Variable\', (\'tuple\', []), (\'float\', \'nan\'), (\'dict\', [((\'str\', "\'units\'"), '
 '(\'str\', "\'rad\'"))]))), ((\'str\', "\'linear_term\'"), (\'Variable\', (\'tuple\', []), '
 '(\'float\', \'nan\'), (\'dict\', [((\'str\', "\'units\'"), (\'str\', "\'rad/km\'"))]))), '
 '((\'str\', "\'quadratic_term\'"), (\'Variable\', (\'tuple\', []), (\'float\', \'nan\'), '
 '(\'dict\', [((\'str\', "\'units\'"), (\'str\', "\'rad/km^2\'"))]))), ((\'str\', '
 '"\'cubic_term\'"), (\'Variable\', (\'tuple\', []), (\'float\', \'nan\'), (\'dict\', [((\'str\', '
 '"\'units\'"), (\'str\', "\'rad/km^3\'"))]))), ((\'str\', "\'fourth_term\'"), (\'Variable\', '
 '(\'tuple\', []), (\'float\', \'nan\'), (\'dict\', [((\'str\', "\'units\'"), (\'str\', '
 '"\'rad/km^4\'"))]))), ((\'str\', "\'fifth_term\'"), (\'Variable\', (\'tuple\', []), (\'float\', '
 '\'nan\'), (\'dict\', [((\'str\', "\'units\'"), (\'str\', "\'rad/km^5\'"))])))]), (\'dict\', '
 '[((\'str\', "\'formula\'"), (\'str\', "\'θ = a0 + a1*R + a2*R^2 + a3*R^3 + a4*R^4 + a5*R^5\'")), '
 '((\'str\', "\'theta\'"), (\'str\', "\'incidence angle\'")), ((\'str\', "\'r\'"), (\'str\', '
 '"\'slant range\'"))])))]), (\'dict\', [((\'str\', "\'scene_id\'"), (\'str\', '
 '"\'ALOS2310000000-200229\'")), ((\'str\', "\'scene_center_time\'"), (\'str\', '
 '"\'2020-02-29T12:00:00.500000\'")), ((\'str\', "\'ellipsoid_designator\'"), (\'str\', "\'\'")), '
 '((\'str\', "\'ellipsoid_j2_parameter\'"), (\'float\', \'nan\')), ((\'str\', '
 '"\'ellipsoid_j3_parameter\'"), (\'float\', \'nan\')), ((\'str\', "\'ellipsoid_j4_parameter\'"), '
 '(\'float\', \'nan\')), ((\'str\', "\'scene_center_line_number\'"), (\'int\', \'-1\')), '
 '((\'str\', "\'scene_center_pixel_number\'"), (\'int\', \'-1\')), ((\'str\', '
 '"\'number_of_sar_channel\'"), (\'int\', \'-1\')), ((\'str\', '
 '"\'sensor_platform_mission_identifier\'"), (\'str\', "\'\'")), ((\'str\', '
 '"\'sensor_id_and_operation_mode\'"), (\'str\', "\'\'")), ((\'str\', '
 '"\'orbit_number_or_flight_line_indicator\'"), (\'int\', \'-1\')), ((\'str\', '
 '"\'motion_compensation_indicator\'"), (\'EnumInteger\', \'-1\')), ((\'str\', '
 '"\'range_pulse_code\'"), (\'str\', "\'\'")), ((\'str\', '
 '"\'down_linked_data_chirp_extraction_index\'"), (\'int\', \'-1\')), ((\'str\', '
 '"\'base_band_conversion_flag\'"), (\'str\', "\'yes\'")), ((\'str\', '
 '"\'range_compression_flag\'"), (\'str\', "\'no\'")), ((\'str\', '
 '"\'receiver_gain_for_like_polarized_at_early_edge_at_the_start_of_the_image\'"), (\'float\', '
 "'nan')), (('str', "
 '"\'receiver_gain_for_cross_polarized_at_early_edge_at_the_start_of_the_image\'"), (\'float\', '
 '\'nan\')), ((\'str\', "\'quantization_in_bits_per_channel\'"), (\'int\', \'-1\')), ((\'str\', '
 '"\'quantized_descriptor\'"), (\'str\', "\'\'")), ((\'str\', "\'dc_bias_for_I_component\'"), '
 '(\'float\', \'nan\')), ((\'str\', "\'dc_bias_for_Q_component\'"), (\'float\', \'nan\')), '
 '((\'str\', "\'gain_imbalance_for_I_and_Q\'"), (\'float\', \'nan\')), ((\'str\', '
 '"\'electronic_boresight\'"), (\'float\', \'nan\')), ((\'str\', "\'mechanical_boresight\'"), '
 '(\'float\', \'nan\')), ((\'str\', "\'echo_tracker_status\'"), (\'str\', "\'on\'")), ((\'str\', '
 '"\'satellite_encoded_binary_time_code\'"), (\'int\', \'-1\')), ((\'str\', '
 '"\'satellite_clock_time\'"), (\'str\', "\'\'")), ((\'str\', "\'processing_facility_id\'"), '
 '(\'str\', "\'\'")), ((\'str\', "\'processing_system_id\'"), (\'str\', "\'\'")), ((\'str\', '
 '"\'processing_version_id\'"), (\'str\', "\'\'")), ((\'str\', "\'product_level_code\'"), '
 '(\'str\', "\'\'")), ((\'str\', "\'product_type_specifier\'"), (\'str\', "\'\'")), ((\'str\', '
 '"\'number_of_looks_in_azimuth\'"), (\'float\', \'nan\')), ((\'str\', '
 '"\'number_of_looks_in_range\'"), (\'float\', \'nan\')), ((\'str\', '
 '"\'weighting_function_in_azimuth\'"), (\'str\', "\'rectangle\'")), ((\'str\', '
 '"\'weighting_function_in_range\'"), (\'str\', "\'rectangle\'")), ((\'str\', '
 '"\'data_input_source\'"), (\'str\', "\'\'")), ((\'str\', '
 '"\'time_direction_indicator_along_line_direction\'"), (\'str\', "\'\'")), ((\'str\', '
 '"\'line_content_indicator\'"), (\'str\', "\'\'")), ((\'str\', "\'clutter_lock_applied_flag\'"), '
 '(\'str\', "\'off\'")), ((\'str\', "\'auto_focusing_applied_flag\'"), (\'str\', "\'yes\'")), '
 '((\'str\', "\'processor_range_compression_designator\'"), (\'str\', "\'\'")), ((\'str\', '
 '"\'calibration_mode_data_location_flag\'"), (\'int\', \'-1\')), ((\'str\', '
 '"\'prf_switching_indicator\'"), (\'int\', \'-1\')), ((\'str\', '
 '"\'line_number_of_prf_switching\'"), (\'int\', \'-1\')), ((\'str\', '
 '"\'yaw_steering_mode_flag\'"), (\'int\', \'-1\')), ((\'str\', "\'nominal_off_nadir_angle\'"), '
 '(\'float\', \'nan\')), ((\'str\', "\'antenna_beam_number\'"), (\'int\', \'-1\'))]))), ((\'str\', '
 '"\'platform_position\'"), (\'Group\', \'/platform_position\', None, (\'dict\', [((\'str\', '
 '"\'sampling_frequency\'"), (\'Variable\', (\'tuple\', []), (\'float\', \'60.0\'), (\'dict\', '
 '[((\'str\', "\'units\'"), (\'str\', "\'s\'"))]))), ((\'str\', "\'orbital_elements\'"), '
 "('Group', '/platform_position/orbital_elements', None, ('dict', [(('str', "
 '"\'position\'"), (\'Group\', \'/platform_position/orbital_elements/position\', None, (\'dict\', '
 '[((\'str\', "\'x\'"), (\'Variable\', (\'tuple\', []), (\'float\', \'1.0\'), (\'dict\', '
 '[((\'str\', "\'units\'"), (\'str\', "\'m\'"))]))), ((\'str\', "\'y\'"), (\'Variable\', '
 '(\'tuple\', []), (\'float\', \'2.0\'), (\'dict\', [((\'str\', "\'units\'"), (\'str\', '
 '"\'m\'"))]))), ((\'str\', "\'z\'"), (\'Variable\', (\'tuple\', []), (\'float\', \'3.0\'), '
 '(\'dict\', [((\'str\', "\'units\'"), (\'str\', "\'m\'"))])))]), (\'dict\', []))), ((\'str\', '
 '"\'velocity\'"), (\'Group\', \'/platform_position/orbital_elements/velocity\', None, (\'dict\', '
 '[((\'str\', "\'x\'"), (\'Variable\', (\'tuple\', []), (\'float\', \'4.0\'), (\'dict\', '
 '[((\'str\', "\'units\'"), (\'str\', "\'m/s\'"))]))), ((\'str\', "\'y\'"), (\'Variable\', '
 '(\'tuple\', []), (\'float\', \'5.0\'), (\'dict\', [((\'str\', "\'units\'"), (\'str\', '
 '"\'m/s\'"))]))), ((\'str\', "\'z\'"), (\'Variable\', (\'tuple\', []), (\'float\', \'6.0\'), '
 '(\'dict\', [((\'str\', "\'units\'"), (\'str\', "\'m/s\'"))])))]), (\'dict\', [])))]), (\'dict\', '
 '[((\'str\', "\'type\'"), (\'str\', "\'high_precision\'"))]))), ((\'str\', "\'nominal_error\'"), '
 '(\'Group\', \'/platform_position/nominal_error\', None, (\'dict\', [((\'str\', "\'position\'"), '
 "('Group', '/platform_position/nominal_error/position', None, ('dict', [(('str', "
 '"\'along_track\'"), (\'Variable\', (\'tuple\', []), (\'float\', \'0.1\'), (\'dict\', [((\'str\', '
 '"\'units\'"), (\'str\', "\'m\'"))]))), ((\'str\', "\'across_track\'"), (\'Variable\', '
 '(\'tuple\', []), (\'float\', \'0.2\'), (\'dict\', [((\'str\', "\'units\'"), (\'str\', '
 '"\'m\'"))]))), ((\'str\', "\'radial\'"), (\'Variable\', (\'tuple\', []), (\'float\', \'0.3\'), '
 '(\'dict\', [((\'str\', "\'units\'"), (\'str\', "\'m\'"))])))]), (\'dict\', []))), ((\'str\', '
 '"\'velocity\'"), (\'Group\', \'/platform_position/nominal_error/velocity\', None, (\'dict\', '
 '[((\'str\', "\'along_track\'"), (\'Variable\', (\'tuple\', []), (\'float\', \'0.4\'), (\'dict\', '
 '[((\'str\', "\'units\'"), (\'str\', "\'m/s\'"))]))), ((\'str\', "\'across_track\'"), '
 '(\'Variable\', (\'tuple\', []), (\'float\', \'0.5\'), (\'dict\', [((\'str\', "\'units\'"), '
 '(\'str\', "\'m/s\'"))]))), ((\'str\', "\'radial\'"), (\'Variable\', (\'tuple\', []), (\'float\', '
 '\'0.6\'), (\'dict\', [((\'str\', "\'units\'"), (\'str\', "\'m/s\'"))])))]), (\'dict\', [])))]), '
 '(\'dict\', []))), ((\'str\', "\'positions\'"), (\'Group\', \'/platform_position/positions\', '
 'None, (\'dict\', [((\'str\', "\'position\'"), (\'Group\', '
 '\'/platform_position/positions/position\', None, (\'dict\', [((\'str\', "\'x\'"), (\'Variable\', '
 '(\'list\', [(\'str\', "\'positions\'")]), (\'list\', [(\'float\', \'1000000.0\'), (\'float\', '
 "'1000001.0'), ('float', '1000002.0'), ('float', '1000003.0'), ('float', '1000004.0'), ('float', "
 "'1000005.0'), ('float', '1000006.0'), ('float', '1000007.0'), ('float', '1000008.0'), ('float', "
 "'1000009.0'), ('float', '1000010.0'), ('float', '1000011.0'), ('float', '1000012.0'), ('float', "
 "'1000013.0'), ('float', '1000014.0'), ('float', '1000015.0'), ('float', '1000016.0'), ('float', "
 "'1000017.0'), ('float', '1000018.0'), ('float', '1000019.0'), ('float', '1000020.0'), ('float', "
 "'1000021.0'), ('float', '1000022.0'), ('float', '1000023.0'), ('float', '1000024.0'), ('float', "
 "'1000025.0'), ('float', '1000026.0'), ('float', '1000027.0')]), ('dict', [(('str', "
 '"\'units\'"), (\'str\', "\'m\'"))]))), ((\'str\', "\'y\'"), (\'Variable\', (\'list\', [(\'str\', '
 '"\'positions\'")]), (\'list\', [(\'float\', \'2000000.0\'), (\'float\', \'1999999.0\'), '
 "('float', '1999998.0'), ('float', '1999997.0'), ('float', '1999996.0'), ('float', '1999995.0'), "
 "('float', '1999994.0'), ('float', '1999993.0'), ('float', '1999992.0'), ('float', '1999991.0'), "
 "('float', '1999990.0'), ('float', '1999989.0'), ('float', '1999988.0'), ('float', '1999987.0'), "
 "('float', '1999986.0'), ('float', '1999985.0'), ('float', '1999984.0'), ('float', '1999983.0'), "
 "('float', '1999982.0'), ('float', '1999981.0'), ('float', '1999980.0'), ('float', '1999979.0'), "
 "('float', '1999978.0'), ('float', '1999977.0'), ('float', '1999976.0'), ('float', '1999975.0'), "
 '(\'float\', \'1999974.0\'), (\'float\', \'1999973.0\')]), (\'dict\', [((\'str\', "\'units\'"), '
 '(\'str\', "\'m\'"))]))), ((\'str\', "\'z\'"), (\'Variable\', (\'list\', [(\'str\', '
 '"\'positions\'")]), (\'list\', [(\'float\', \'3000000.0\'), (\'float\', \'3000002.0\'), '
 "('float', '3000004.0'), ('float', '3000006.0'), ('float', '3000008.0'), ('float', '3000010.0'), "
 "('float', '3000012.0'), ('float', '3000014.0'), ('float', '3000016.0'), ('float', '3000018.0'), "
 "('float', '3000020.0'), ('float', '3000022.0'), ('float', '3000024.0'), ('float', '3000026.0'), "
 "('float', '3000028.0'), ('float', '3000030.0'), ('float', '3000032.0'), ('float', '3000034.0'), "
 "('float', '3000036.0'), ('float', '3000038.0'), ('float', '3000040.0'), ('float', '3000042.0'), "
 "('float', '3000044.0'), ('float', '3000046.0'), ('float', '3000048.0'), ('float', '3000050.0'), "
 '(\'float\', \'3000052.0\'), (\'float\', \'3000054.0\')]), (\'dict\', [((\'str\', "\'units\'"), '
 '(\'str\', "\'m\'"))])))]), (\'dict\', []))), ((\'str\', "\'velocity\'"), (\'Group\', '
 '\'/platform_position/positions/velocity\', None, (\'dict\', [((\'str\', "\'x\'"), (\'Variable\', '
 '(\'list\', [(\'str\', "\'positions\'")]), (\'list\', [(\'float\', \'7000.0\'), (\'float\', '
 "'6999.0'), ('float', '6998.0'), ('float', '6997.0'), ('float', '6996.0'), ('float', '6995.0'), "
 "('float', '6994.0'), ('float', '6993.0'), ('float', '6992.0'), ('float', '6991.0'), ('float', "
 "'6990.0'), ('float', '6989.0'), ('float', '6988.0'), ('float', '6987.0'), ('float', '6986.0'), "
 "('float', '6985.0'), ('float', '6984.0'), ('float', '6983.0'), ('float', '6982.0'), ('float', "
 "'6981.0'), ('float', '6980.0'), ('float', '6979.0'), ('float', '6978.0'), ('float', '6977.0'), "
 "('float', '6976.0'), ('float', '6975.0'), ('float', '6974.0'), ('float', '6973.0')]), ('dict', "
 '[((\'str\', "\'units\'"), (\'str\', "\'m/s\'"))]))), ((\'str\', "\'y\'"), (\'Variable\', '
 '(\'list\', [(\'str\', "\'positions\'")]), (\'list\', [(\'float\', \'-7000.0\'), (\'float\', '
 "'-6999.0'), ('float', '-6998.0'), ('float', '-6997.0'), ('float', '-6996.0'), ('float', "
 "'-6995.0'), ('float', '-6994.0'), ('float', '-6993.0'), ('float', '-6992.0'), ('float', "
 "'-6991.0'), ('float', '-6990.0'), ('float', '-6989.0'), ('float', '-6988.0'), ('float', "
 "'-6987.0'), ('float', '-6986.0'), ('float', '-6985.0'), ('float', '-6984.0'), ('float', "
 "'-6983.0'), ('float', '-6982.0'), ('float', '-6981.0'), ('float', '-6980.0'), ('float', "
 "'-6979.0'), ('float', '-6978.0'), ('float', '-6977.0'), ('float', '-6976.0'), ('float', "
 "'-6975.0'), ('float', '-6974.0'), ('float', '-6973.0')]), ('dict', [(('str', "
 '"\'units\'"), (\'str\', "\'m/s\'"))]))), ((\'str\', "\'z\'"), (\'Variable\', (\'list\', '
 '[(\'str\', "\'positions\'")]), (\'list\', [(\'float\', \'0.0\'), (\'float\', \'0.5\'), '
 "('float', '1.0'), ('float', '1.5'), ('float', '2.0'), ('float', '2.5'), ('float', '3.0'), "
 "('float', '3.5'), ('float', '4.0'), ('float', '4.5'), ('float', '5.0'), ('float', '5.5'), "
 "('float', '6.0'), ('float', '6.5'), ('float', '7.0'), ('float', '7.5'), ('float', '8.0'), "
 "('float', '8.5'), ('float', '9.0'), ('float', '9.5'), ('float', '10.0'), ('float', '10.5'), "
 "('float', '11.0'), ('float', '11.5'), ('float', '12.0'), ('float', '12.5'), ('float', '13.0'), "
 '(\'float\', \'13.5\')]), (\'dict\', [((\'str\', "\'units\'"), (\'str\', "\'m/s\'"))])))]), '
 '(\'dict\', [])))]), (\'dict\', [])))]), (\'dict\', [((\'str\', "\'datetime_of_first_point\'"), '
 '(\'str\', "\'2020-02-29T12:00:00.500000\'")), ((\'str\', "\'reference_coordinate_system\'"), '
 '(\'str\', "\'ECR\'")), ((\'str\', "\'leap_second\'"), (\'bool\', \'True\'))]))), ((\'str\', '
 '"\'attitude\'"), (\'Group\', \'/attitude\', None, (\'dict\', [((\'str\', "\'attitude\'"), '
 '(\'Group\', \'/attitude/attitude\', None, (\'dict\', [((\'str\', "\'pitch_error\'"), '
 '(\'Variable\', (\'list\', [(\'str\', "\'points\'")]), (\'list\', [(\'bool\', \'False\')]), '
 '(\'dict\', []))), ((\'str\', "\'roll_error\'"), (\'Variable\', (\'list\', [(\'str\', '
 '"\'points\'")]), (\'list\', [(\'bool\', \'False\')]), (\'dict\', []))), ((\'str\', '
 '"\'yaw_error\'"), (\'Variable\', (\'list\', [(\'str\', "\'points\'")]), (\'list\', [(\'bool\', '
 '\'True\')]), (\'dict\', []))), ((\'str\', "\'pitch\'"), (\'Variable\', (\'list\', [(\'str\', '
 '"\'points\'")]), (\'list\', [(\'float\', \'0.0\')]), (\'dict\', [((\'str\', "\'units\'"), '
 '(\'str\', "\'deg\'"))]))), ((\'str\', "\'roll\'"), (\'Variable\', (\'list\', [(\'str\', '
 '"\'points\'")]), (\'list\', [(\'float\', \'0.0\')]), (\'dict\', [((\'str\', "\'units\'"), '
 '(\'str\', "\'deg\'"))]))), ((\'str\', "\'yaw\'"), (\'Variable\', (\'list\', [(\'str\', '
 '"\'points\'")]), (\'list\', [(\'float\', \'0.0\')]), (\'dict\', [((\'str\', "\'units\'"), '
 '(\'str\', "\'deg\'"))]))), ((\'str\', "\'time\'"), (\'Variable\', (\'list\', [(\'str\', '
 '"\'points\'")]), (\'ndarray\', \'datetime64[ns]\', (1,), [\'1586563199000000000\']), (\'dict\', '
 '[])))]), (\'dict\', [((\'str\', "\'coordinates\'"), (\'list\', [(\'str\', "\'time\'")]))]))), '
 '((\'str\', "\'rates\'"), (\'Group\', \'/attitude/rates\', None, (\'dict\', [((\'str\', '
 '"\'pitch_error\'"), (\'Variable\', (\'list\', [(\'str\', "\'points\'")]), (\'list\', [(\'bool\', '
 '\'False\')]), (\'dict\', []))), ((\'str\', "\'roll_error\'"), (\'Variable\', (\'list\', '
 '[(\'str\', "\'points\'")]), (\'list\', [(\'bool\', \'False\')]), (\'dict\', []))), ((\'str\', '
 '"\'yaw_error\'"), (\'Variable\', (\'list\', [(\'str\', "\'points\'")]), (\'list\', [(\'bool\', '
 '\'True\')]), (\'dict\', []))), ((\'str\', "\'pitch\'"), (\'Variable\', (\'list\', [(\'str\', '
 '"\'points\'")]), (\'list\', [(\'float\', \'0.0\')]), (\'dict\', [((\'str\', "\'units\'"), '
 '(\'str\', "\'deg/s\'"))]))), ((\'str\', "\'roll\'"), (\'Variable\', (\'list\', [(\'str\', '
 '"\'points\'")]), (\'list\', [(\'float\', \'0.0\')]), (\'dict\', [((\'str\', "\'units\'"), '
 '(\'str\', "\'deg/s\'"))]))), ((\'str\', "\'yaw\'"), (\'Variable\', (\'list\', [(\'str\', '
 '"\'points\'")]), (\'list\', [(\'float\', \'0.0\')]), (\'dict\', [((\'str\', "\'units\'"), '
 '(\'str\', "\'deg/s\'"))]))), ((\'str\', "\'time\'"), (\'Variable\', (\'list\', [(\'str\', '
 '"\'points\'")]), (\'ndarray\', \'datetime64[ns]\', (1,), [\'1586563199000000000\']), (\'dict\', '
 '[])))]), (\'dict\', [((\'str\', "\'coordinates\'"), (\'list\', [(\'str\', "\'time\'")]))])))]), '
 '(\'dict\', []))), ((\'str\', "\'radiometric_data\'"), (\'Group\', \'/radiometric_data\', None, '
 '(\'dict\', [((\'str\', "\'calibration_factor\'"), (\'Variable\', (\'tuple\', []), (\'float\', '
 '\'nan\'), (\'dict\', [((\'str\', "\'formula\'"), (\'str\', "\'σ⁰=10*log_10<I^2 + Q^2> + CF - '
 '32.0; σ⁰(level1.5/level3.1)=10*log_10<DN^2> + CF\'")), ((\'str\', "\'I\'"), (\'str\', "\'level '
 '1.1 real pixel value\'")), ((\'str\', "\'Q\'"), (\'str\', "\'level 1.1 imaginary pixel '
 'value\'")), ((\'str\', "\'DN\'"), (\'str\', "\'level 1.5/3.1 pixel value\'"))]))), ((\'str\', '
 '"\'distortion_matrix\'"), (\'Group\', \'/radiometric_data/distortion_matrix\', None, (\'dict\', '
 '[((\'str\', "\'transmission\'"), (\'Variable\', (\'list\', [(\'str\', "\'i\'"), (\'str\', '
 '"\'j\'")]), (\'list\', [(\'list\', [(\'complex\', \'(nan+nanj)\'), (\'complex\', '
 "'(nan+nanj)')]), ('list', [('complex', '(nan+nanj)'), ('complex', '(nan+nanj)')])]), ('dict', "
 '[]))), ((\'str\', "\'reception\'"), (\'Variable\', (\'list\', [(\'str\', "\'i\'"), (\'str\', '
 '"\'j\'")]), (\'list\', [(\'list\', [(\'complex\', \'(nan+nanj)\'), (\'complex\', '
 "'(nan+nanj)')]), ('list', [('complex', '(nan+nanj)'), ('complex', '(nan+nanj)')])]), ('dict', "
 '[]))), ((\'str\', "\'i\'"), (\'Variable\', (\'list\', [(\'str\', "\'i\'")]), (\'list\', '
 '[(\'str\', "\'horizontal\'"), (\'str\', "\'vertical\'")]), (\'dict\', [((\'str\', '
 '"\'long_name\'"), (\'str\', "\'reception polarization\'"))]))), ((\'str\', "\'j\'"), '
 '(\'Variable\', (\'list\', [(\'str\', "\'j\'")]), (\'list\', [(\'str\', "\'horizontal\'"), '
 '(\'str\', "\'vertical\'")]), (\'dict\', [((\'str\', "\'long_name\'"), (\'str\', "\'transmission '
 'polarization\'"))])))]), (\'dict\', [((\'str\', "\'formula\'"), (\'str\', "\'Z = '
 'A*1/r*exp(-4πr/λ) * RST + N\'")), ((\'str\', "\'Z\'"), (\'str\', "\'measurement matrix\'")), '
 '((\'str\', "\'A\'"), (\'str\', "\'amplitude\'")), ((\'str\', "\'r\'"), (\'str\', "\'slant '
 'range\'")), ((\'str\', "\'S\'"), (\'str\', "\'true scattering matrix\'")), ((\'str\', "\'N\'"), '
 '(\'str\', "\'noise component\'")), ((\'str\', "\'R\'"), (\'str\', "\'reception distortion '
 'matrix\'")), ((\'str\', "\'T\'"), (\'str\', "\'transmission distortion matrix\'"))])))]), '
 '(\'dict\', []))), ((\'str\', "\'data_quality_summary\'"), (\'Group\', \'/data_quality_summary\', '
 'None, (\'dict\', [((\'str\', "\'absolute_radiometric_data_quality\'"), (\'Group\', '
 "'/data_quality_summary/absolute_radiometric_data_quality', None, ('dict', [(('str', "
 '"\'islr\'"), (\'Variable\', (\'tuple\', []), (\'float\', \'nan\'), (\'dict\', [((\'str\', '
 '"\'units\'"), (\'str\', "\'dB\'"))]))), ((\'str\', "\'pslr\'"), (\'Variable\', (\'tuple\', []), '
 '(\'float\', \'nan\'), (\'dict\', [((\'str\', "\'units\'"), (\'str\', "\'dB\'"))]))), ((\'str\', '
 '"\'estimate_of_snr\'"), (\'Variable\', (\'tuple\', []), (\'float\', \'nan\'), (\'dict\', '
 '[((\'str\', "\'units\'"), (\'str\', "\'dB\'"))]))), ((\'str\', "\'ber\'"), (\'Variable\', '
 '(\'tuple\', []), (\'float\', \'nan\'), (\'dict\', [((\'str\', "\'units\'"), (\'str\', '
 '"\'dB\'"))]))), ((\'str\', "\'slant_range_resolution\'"), (\'Variable\', (\'tuple\', []), '
 '(\'float\', \'nan\'), (\'dict\', [((\'str\', "\'units\'"), (\'str\', "\'m\'"))]))), ((\'str\', '
 '"\'azimuth_resolution\'"), (\'Variable\', (\'tuple\', []), (\'float\', \'nan\'), (\'dict\', '
 '[((\'str\', "\'units\'"), (\'str\', "\'m\'"))]))), ((\'str\', "\'radiometric_resolution\'"), '
 '(\'Variable\', (\'tuple\', []), (\'float\', \'nan\'), (\'dict\', [((\'str\', "\'units\'"), '
 '(\'str\', "\'dB\'"))]))), ((\'str\', "\'instantaneous_dynamic_range\'"), (\'Variable\', '
 '(\'tuple\', []), (\'float\', \'nan\'), (\'dict\', [((\'str\', "\'units\'"), (\'str\', '
 '"\'dB\'"))]))), ((\'str\', "\'nominal_absolute_radiometric_calibration_uncertainty\'"), '
 "('Group', "
 "'/data_quality_summary/absolute_radiometric_data_quality/nominal_absolute_radiometric_calibration_uncertainty', "
 'None, (\'dict\', [((\'str\', "\'magnitude\'"), (\'Variable\', (\'tuple\', []), (\'float\', '
 '\'nan\'), (\'dict\', [((\'str\', "\'units\'"), (\'str\', "\'dB\'"))]))), ((\'str\', '
 '"\'phase\'"), (\'Variable\', (\'tuple\', []), (\'float\', \'nan\'), (\'dict\', [((\'str\', '
 '"\'units\'"), (\'str\', "\'deg\'"))])))]), (\'dict\', [])))]), (\'dict\', [((\'str\', '
 '"\'azimuth_ambiguity_rate\'"), (\'float\', \'nan\')), ((\'str\', "\'range_ambiguity_rate\'"), '
 '(\'float\', \'nan\'))]))), ((\'str\', "\'relative_radiometric_quality\'"), (\'Group\', '
 "'/data_quality_summary/relative_radiometric_quality', None, ('dict', [(('str', "
 '"\'magnitude\'"), (\'Variable\', (\'list\', [(\'str\', "\'channel\'")]), (\'list\', [(\'float\', '
 '\'nan\'), (\'float\', \'nan\')]), (\'dict\', [((\'str\', "\'units\'"), (\'str\', "\'dB\'"))]))), '
 '((\'str\', "\'phase\'"), (\'Variable\', (\'list\', [(\'str\', "\'channel\'")]), (\'list\', '
 '[(\'float\', \'nan\'), (\'float\', \'nan\')]), (\'dict\', [((\'str\', "\'units\'"), (\'str\', '
 '"\'deg\'"))])))]), (\'dict\', []))), ((\'str\', "\'absolute_geometric_quality\'"), (\'Group\', '
 "'/data_quality_summary/absolute_geometric_quality', None, ('dict', [(('str', "
 '"\'absolute_location_error\'"), (\'Group\', '
 "'/data_quality_summary/absolute_geometric_quality/absolute_location_error', None, ('dict', "
 '[((\'str\', "\'along_track\'"), (\'Variable\', (\'tuple\', []), (\'float\', \'nan\'), (\'dict\', '
 '[((\'str\', "\'units\'"), (\'str\', "\'m\'"))]))), ((\'str\', "\'across_track\'"), '
 '(\'Variable\', (\'tuple\', []), (\'float\', \'nan\'), (\'dict\', [((\'str\', "\'units\'"), '
 '(\'str\', "\'m\'"))])))]), (\'dict\', []))), ((\'str\', "\'geometric_distortion_scale\'"), '
 "('Group', '/data_quality_summary/absolute_geometric_quality/geometric_distortion_scale', None, "
 '(\'dict\', []), (\'dict\', [((\'str\', "\'line_direction\'"), (\'float\', \'nan\')), ((\'str\', '
 '"\'pixel_direction\'"), (\'float\', \'nan\'))])))]), (\'dict\', [((\'str\', '
 '"\'geometric_distortion_skew\'"), (\'float\', \'nan\')), ((\'str\', '
 '"\'scene_orientation_error\'"), (\'float\', \'nan\'))]))), ((\'str\', '
 '"\'relative_geometric_quality\'"), (\'Group\', '
 "'/data_quality_summary/relative_geometric_quality', None, ('dict', [(('str', "
 '"\'along_track\'"), (\'Variable\', (\'list\', [(\'str\', "\'channel\'")]), (\'list\', '
 '[(\'float\', \'nan\'), (\'float\', \'nan\')]), (\'dict\', [((\'str\', "\'units\'"), (\'str\', '
 '"\'m\'"))]))), ((\'str\', "\'across_track\'"), (\'Variable\', (\'list\', [(\'str\', '
 '"\'channel\'")]), (\'list\', [(\'float\', \'nan\'), (\'float\', \'nan\')]), (\'dict\', '
 '[((\'str\', "\'units\'"), (\'str\', "\'m\'"))])))]), (\'dict\', [])))]), (\'dict\', [((\'str\', '
 '"\'sar_channel_id\'"), (\'str\', "\'\'")), ((\'str\', '
 '"\'date_of_the_last_calibration_update\'"), (\'str\', "\'\'")), ((\'str\', '
 '"\'number_of_channels\'"), (\'int\', \'2\'))]))), ((\'str\', "\'transformations\'"), (\'Group\', '
 '\'/transformations\', None, (\'dict\', [((\'str\', "\'projected_to_image\'"), (\'Group\', '
 '\'/transformations/projected_to_image\', None, (\'dict\', [((\'str\', "\'a\'"), (\'Variable\', '
 '(\'list\', [(\'str\', "\'mid_precision_coeffs\'")]), (\'list\', [(\'float\', \'nan\'), '
 "('float', 'nan'), ('float', 'nan'), ('float', 'nan'), ('float', 'nan'), ('float', 'nan'), "
 "('float', 'nan'), ('float', 'nan'), ('float', 'nan'), ('float', 'nan')]), ('dict', []))), "
 '((\'str\', "\'b\'"), (\'Variable\', (\'list\', [(\'str\', "\'mid_precision_coeffs\'")]), '
 "('list', [('float', 'nan'), ('float', 'nan'), ('float', 'nan'), ('float', 'nan'), ('float', "
 "'nan'), ('float', 'nan'), ('float', 'nan'), ('float', 'nan'), ('float', 'nan'), ('float', "
 '\'nan\')]), (\'dict\', [])))]), (\'dict\', [((\'str\', "\'formula\'"), (\'str\', "\'P = a0 + '
 'a1*φ + a2*λ + a3*φ*λ + a4*φ^2 + a5*λ^2 + a6*φ^2*λ + a7*φ*λ^2 + a8*φ^3 + a9*λ^3; L = b0 + b1*φ + '
 'b2*λ + b3*φ*λ + b4*φ^2 + b5*λ^2 + b6*φ^2*λ + b7*φ*λ^2 + b8*φ^3 + b9*λ^3\'"))]))), ((\'str\', '
 '"\'calibration_at_upper_image\'"), (\'Group\', \'/transformations/calibration_at_upper_image\', '
 'None, (\'dict\', []), (\'dict\', [((\'str\', "\'start_line_number\'"), (\'int\', \'-1\')), '
 '((\'str\', "\'end_line_number\'"), (\'int\', \'-1\'))]))), ((\'str\', '
 '"\'calibration_at_bottom_image\'"), (\'Group\', '
 "'/transformations/calibration_at_bottom_image', None, ('dict', []), ('dict', [(('str', "
 '"\'start_line_number\'"), (\'int\', \'-1\')), ((\'str\', "\'end_line_number\'"), (\'int\', '
 '\'-1\'))]))), ((\'str\', "\'number_of_loss_lines\'"), (\'Group\', '
 "'/transformations/number_of_loss_lines', None, ('dict', []), ('dict', [(('str', "
 '"\'level1.0\'"), (\'int\', \'-1\')), ((\'str\', "\'others\'"), (\'int\', \'-1\'))]))), '
 '((\'str\', "\'image_to_geographic\'"), (\'Group\', \'/transformations/image_to_geographic\', '
 'None, (\'dict\', [((\'str\', "\'a\'"), (\'Variable\', (\'list\', [(\'str\', '
 '"\'high_precision_coeffs\'")]), (\'list\', [(\'float\', \'nan\'), (\'float\', \'nan\'), '
 "('float', 'nan'), ('float', 'nan'), ('float', 'nan'), ('float', 'nan'), ('float', 'nan'), "
 "('float', 'nan'), ('float', 'nan'), ('float', 'nan'), ('float', 'nan'), ('float', 'nan'), "
 "('float', 'nan'), ('float', 'nan'), ('float', 'nan'), ('float', 'nan'), ('float', 'nan'), "
 "('float', 'nan'), ('float', 'nan'), ('float', 'nan'), ('float', 'nan'), ('float', 'nan'), "
 "('float', 'nan'), ('float', 'nan'), ('float', 'nan')]), ('dict', []))), (('str', "
 '"\'b\'"), (\'Variable\', (\'list\', [(\'str\', "\'high_precision_coeffs\'")]), (\'list\', '
 "[('float', 'nan'), ('float', 'nan'), ('float', 'nan'), ('float', 'nan'), ('float', 'nan'), "
 "('float', 'nan'), ('float', 'nan'), ('float', 'nan'), ('float', 'nan'), ('float', 'nan'), "
 "('float', 'nan'), ('float', 'nan'), ('float', 'nan'), ('float', 'nan'), ('float', 'nan'), "
 "('float', 'nan'), ('float', 'nan'), ('float', 'nan'), ('float', 'nan'), ('float', 'nan'), "
 "('float', 'nan'), ('float', 'nan'), ('float', 'nan'), ('float', 'nan'), ('float', 'nan')]), "
 '(\'dict\', []))), ((\'str\', "\'origin_pixel\'"), (\'Variable\', (\'tuple\', []), (\'float\', '
 '\'nan\'), (\'dict\', []))), ((\'str\', "\'origin_line\'"), (\'Variable\', (\'tuple\', []), '
 '(\'float\', \'nan\'), (\'dict\', [])))]), (\'dict\', [((\'str\', "\'formula\'"), (\'str\', "\'φ '
 '= a0*L^4*P^4 + a1*L^3*P^4 + a2*L^2*P^4 + a3*L*P^4 + a4*P^4 + a5*L^4*P^3 + a6*L^3*P^3 + '
 'a7*L^2*P^3 + a8*L*P^3 + a9*P^3 + a10*L^4*P^2 + a11*L^3*P^2 + a12*L^2*P^2 + a13*L*P^2 + a14*P^2 + '
 'a15*L^4*P + a16*L^3*P + a17*L^2*P + a18*L*P + a19*P + a20*L^4 + a21*L^3 + a22*L^2 + a23*L + a24; '
 'λ = b0*L^4*P^4 + b1*L^3*P^4 + b2*L^2*P^4 + b3*L*P^4 + b4*P^4 + b5*L^4*P^3 + b6*L^3*P^3 + '
 'b7*L^2*P^3 + b8*L*P^3 + b9*P^3 + b10*L^4*P^2 + b11*L^3*P^2 + b12*L^2*P^2 + b13*L*P^2 + b14*P^2 + '
 'b15*L^4*P + b16*L^3*P + b17*L^2*P + b18*L*P + b19*P + b20*L^4 + b21*L^3 + b22*L^2 + b23*L + '
 'b24\'"))]))), ((\'str\', "\'geographic_to_image\'"), (\'Group\', '
 '\'/transformations/geographic_to_image\', None, (\'dict\', [((\'str\', "\'c\'"), (\'Variable\', '
 '(\'list\', [(\'str\', "\'high_precision_coeffs\'")]), (\'list\', [(\'float\', \'nan\'), '
 "('float', 'nan'), ('float', 'nan'), ('float', 'nan'), ('float', 'nan'), ('float', 'nan'), "
 "('float', 'nan'), ('float', 'nan'), ('float', 'nan'), ('float', 'nan'), ('float', 'nan'), "
 "('float', 'nan'), ('float', 'nan'), ('float', 'nan'), ('float', 'nan'), ('float', 'nan'), "
 "('float', 'nan'), ('float', 'nan'), ('float', 'nan'), ('float', 'nan'), ('float', 'nan'), "
 "('float', 'nan'), ('float', 'nan'), ('float', 'nan'), ('float', 'nan')]), ('dict', []))), "
 '((\'str\', "\'d\'"), (\'Variable\', (\'list\', [(\'str\', "\'high_precision_coeffs\'")]), '
 "('list', [('float', 'nan'), ('float', 'nan'), ('float', 'nan'), ('float', 'nan'), ('float', "
 "'nan'), ('float', 'nan'), ('float', 'nan'), ('float', 'nan'), ('float', 'nan'), ('float', "
 "'nan'), ('float', 'nan'), ('float', 'nan'), ('float', 'nan'), ('float', 'nan'), ('float', "
 "'nan'), ('float', 'nan'), ('float', 'nan'), ('float', 'nan'), ('float', 'nan'), ('float', "
 "'nan'), ('float', 'nan'), ('float', 'nan'), ('float', 'nan'), ('float', 'nan'), ('float', "
 '\'nan\')]), (\'dict\', []))), ((\'str\', "\'origin_latitude\'"), (\'Variable\', (\'tuple\', []), '
 '(\'float\', \'nan\'), (\'dict\', []))), ((\'str\', "\'origin_longitude\'"), (\'Variable\', '
 "('tuple', []), ('float', 'nan'), ('dict', [])))]), ('dict', [(('str', "
 '"\'formula\'"), (\'str\', "\'p = c0*Λ^4*Φ^4 + c1*Λ^3*Φ^4 + c2*Λ^2*Φ^4 + c3*Λ*Φ^4 + c4*Φ^4 + '
 'c5*Λ^4*Φ^3 + c6*Λ^3*Φ^3 + c7*Λ^2*Φ^3 + c8*Λ*Φ^3 + c9*Φ^3 + c10*Λ^4*Φ^2 + c11*Λ^3*Φ^2 + '
 'c12*Λ^2*Φ^2 + c13*Λ*Φ^2 + c14*Φ^2 + c15*Λ^4*Φ + c16*Λ^3*Φ + c17*Λ^2*Φ + c18*Λ*Φ + c19*Φ; l = '
 'd0*Λ^4*Φ^4 + d1*Λ^3*Φ^4 + d2*Λ^2*Φ^4 + d3*Λ*Φ^4 + d4*Φ^4 + d5*Λ^4*Φ^3 + d6*Λ^3*Φ^3 + d7*Λ^2*Φ^3 '
 '+ d8*Λ*Φ^3 + d9*Φ^3 + d10*Λ^4*Φ^2 + d11*Λ^3*Φ^2 + d12*Λ^2*Φ^2 + d13*Λ*Φ^2 + d14*Φ^2 + d15*Λ^4*Φ '
 '+ d16*Λ^3*Φ + d17*Λ^2*Φ + d18*Λ*Φ + d19*Φ + d20*Λ^4 + d21*Λ^3 + d22*Λ^2 + d23*Λ + '
 'd24\'"))])))]), (\'dict\', [((\'str\', "\'calibration_mode_data_location_flag\'"), '
 '(\'EnumInteger\', \'-1\')), ((\'str\', "\'prf_switching\'"), (\'bool\', \'True\')), ((\'str\', '
 '"\'start_line_number_of_prf_switching\'"), (\'int\', \'-1\'))])))]), (\'dict\', [])))',
 '(\'raises\', \'AttributeError\', "\'list\' object has no attribute \'keys\'")',
 '(\'returns\', (\'Group\', \'/\', None, (\'dict\', [((\'str\', "\'dataset_summary\'"), '
 '(\'Group\', \'/dataset_summary\', None, (\'dict\', [((\'str\', "\'geodetic_latitude\'"), '
 '(\'Variable\', (\'tuple\', []), (\'float\', \'nan\'), (\'dict\', [((\'str\', "\'units\'"), '
 '(\'str\', "\'deg\'"))]))), ((\'str\', "\'geodetic_longitude\'"), (\'Variable\', (\'tuple\', []), '
 '(\'float\', \'nan\'), (\'dict\', [((\'str\', "\'units\'"), (\'str\', "\'deg\'"))]))), ((\'str\', '
 '"\'processed_scene_center_true_heading\'"), (\'Variable\', (\'tuple\', []), (\'float\', '
 '\'nan\'), (\'dict\', [((\'str\', "\'units\'"), (\'str\', "\'deg\'"))]))), ((\'str\', '
 '"\'ellipsoid_semimajor_axis\'"), (\'Variable\', (\'tuple\', []), (\'float\', \'nan\'), '
 '(\'dict\', [((\'str\', "\'units\'"), (\'str\', "\'km\'"))]))), ((\'str\', '
 '"\'ellipsoid_semiminor_axis\'"), (\'Variable\', (\'tuple\', []), (\'float\', \'nan\'), '
 '(\'dict\', [((\'str\', "\'units\'"), (\'str\', "\'km\'"))]))), ((\'str\', "\'earth_mass\'"), '
 '(\'Variable\', (\'tuple\', []), (\'float\', \'nan\'), (\'dict\', [((\'str\', "\'units\'"), '
 '(\'str\', "\'kg\'"))]))), ((\'str\', "\'gravitational_constant\'"), (\'Variable\', (\'tuple\', '
 '[]), (\'float\', \'nan\'), (\'dict\', [((\'str\', "\'units\'"), (\'str\', "\'m^3 / s^2\'"))]))), '
 '((\'str\', "\'sensor_platform_geodetic_latitude_at_nadir_corresponding_to_scene_center\'"), '
 '(\'Variable\', (\'tuple\', []), (\'float\', \'nan\'), (\'dict\', [((\'str\', "\'units\'"), '
 '(\'str\', "\'deg\'"))]))), ((\'str\', '
 '"\'sensor_platform_geodetic_longitude_at_nadir_corresponding_to_scene_center\'"), (\'Variable\', '
 '(\'tuple\', []), (\'float\', \'nan\'), (\'dict\', [((\'str\', "\'units\'"), (\'str\', '
 '"\'deg\'"))]))), ((\'str\', '
 '"\'sensor_platform_heading_at_nadir_corresponding_to_scene_center\'"), (\'Variable\', '
 '(\'tuple\', []), (\'float\', \'nan\'), (\'dict\', [((\'str\', "\'units\'"), (\'str\', '
 '"\'deg\'"))]))), ((\'str\', '
 '"\'sensor_clock_angle_as_measured_relative_to_sensor_platform_flight_direction\'"), '
 '(\'Variable\', (\'tuple\', []), (\'float\', \'nan\'), (\'dict\', [((\'str\', "\'units\'"), '
 '(\'str\', "\'deg\'"))]))), ((\'str\', "\'incidence_angle_at_scene_center\'"), (\'Variable\', '
 '(\'tuple\', []), (\'float\', \'nan\'), (\'dict\', [((\'str\', "\'units\'"), (\'str\', '
 '"\'deg\'"))]))), ((\'str\', "\'nominal_radar_wavelength\'"), (\'Variable\', (\'tuple\', []), '
 '(\'float\', \'nan\'), (\'dict\', [((\'str\', "\'units\'"), (\'str\', "\'m\'"))]))), ((\'str\', '
 '"\'sampling_rate\'"), (\'Variable\', (\'tuple\', []), (\'float\', \'nan\'), (\'dict\', '
 '[((\'str\', "\'units\'"), (\'str\', "\'MHz\'"))]))), ((\'str\', "\'range_gate\'"), '
 '(\'Variable\', (\'tuple\', []), (\'float\', \'nan\'), (\'dict\', [((\'str\', "\'units\'"), '
 '(\'str\', "\'µs\'"))]))), ((\'str\', "\'range_pulse_width\'"), (\'Variable\', (\'tuple\', []), '
 '(\'float\', \'nan\'), (\'dict\', [((\'str\', "\'units\'"), (\'str\', "\'µs\'"))]))), ((\'str\', '
 '"\'prf\'"), (\'Variable\', (\'tuple\', []), (\'float\', \'nan\'), (\'dict\', [((\'str\', '
 '"\'units\'"), (\'str\', "\'mHz\'"))]))), ((\'str\', "\'two_way_antenna_beam_width_elevation\'"), '
 '(\'Variable\', (\'tuple\', []), (\'float\', \'nan\'), (\'dict\', [((\'str\', "\'units\'"), '
 '(\'str\', "\'deg\'"))]))), ((\'str\', "\'two_way_antenna_beam_width_azimuth\'"), (\'Variable\', '
 '(\'tuple\', []), (\'float\', \'nan\'), (\'dict\', [((\'str\', "\'units\'"), (\'str\', '
 '"\'deg\'"))]))), ((\'str\', "\'satellite_clock_increment\'"), (\'Variable\', (\'tuple\', []), '
 '(\'int\', \'-1\'), (\'dict\', [((\'str\', "\'units\'"), (\'str\', "\'ns\'"))]))), ((\'str\', '
 '"\'bandwidth_per_look_in_azimuth\'"), (\'Variable\', (\'tuple\', []), (\'float\', \'nan\'), '
 '(\'dict\', [((\'str\', "\'units\'"), (\'str\', "\'Hz\'"))]))), ((\'str\', '
 '"\'bandwidth_per_look_in_range\'"), (\'Variable\', (\'tuple\', []), (\'float\', \'nan\'), '
 '(\'dict\', [((\'str\', "\'units\'"), (\'str\', "\'Hz\'"))]))), ((\'str\', '
 '"\'bandwidth_in_azimuth\'"), (\'Variable\', (\'tuple\', []), (\'float\', \'nan\'), (\'dict\', '
 '[((\'str\', "\'units\'"), (\'str\', "\'Hz\'"))]))), ((\'str\', "\'bandwidth_in_range\'"), '
 '(\'Variable\', (\'tuple\', []), (\'float\', \'nan\'), (\'dict\', [((\'str\', "\'units\'"), '
 '(\'str\', "\'kHz\'"))]))), ((\'str\', "\'resolution_in_ground_range\'"), (\'Variable\', '
 '(\'tuple\', []), (\'float\', \'nan\'), (\'dict\', [((\'str\', "\'units\'"), (\'str\', '
 '"\'m\'"))]))), ((\'str\', "\'resolution_in_azimuth\'"), (\'Variable\', (\'tuple\', []), '
 '(\'float\', \'nan\'), (\'dict\', [((\'str\', "\'units\'"), (\'str\', "\'m\'"))]))), ((\'str\', '
 '"\'line_spacing\'"), (\'Variable\', (\'tuple\', []), (\'float\', \'nan\'), (\'dict\', '
 '[((\'str\', "\'units\'"), (\'str\', "\'m\'"))]))), ((\'str\', "\'pixel_spacing\'"), '
 '(\'Variable\', (\'tuple\', []), (\'float\', \'nan\'), (\'dict\', [((\'str\', "\'units\'"), '
 '(\'str\', "\'m\'"))]))), ((\'str\', '
 '"\'doppler_frequency_approximately_constant_coefficient_term\'"), (\'Variable\', (\'tuple\', '
 '[]), (\'float\', \'nan\'), (\'dict\', [((\'str\', "\'units\'"), (\'str\', "\'Hz\'"))]))), '
 '((\'str\', "\'doppler_frequency_approximately_linear_coefficient_term\'"), (\'Variable\', '
 '(\'tuple\', []), (\'float\', \'nan\'), (\'dict\', [((\'str\', "\'units\'"), (\'str\', '
 '"\'Hz/km\'"))]))), ((\'str\', "\'direction_of_a_beam_center_in_a_scene_center\'"), '
 '(\'Variable\', (\'tuple\', []), (\'float\', \'nan\'), (\'dict\', [((\'str\', "\'units\'"), '
 '(\'str\', "\'deg\'"))]))), ((\'str\', "\'range_pulse_amplitude_coefficients\'"), (\'Group\', '
 "'/dataset_summary/range_pulse_amplitude_coefficients', None, ('dict', []), ('dict', [(('str', "
 '"\'coefficient_1\'"), (\'float\', \'nan\')), ((\'str\', "\'coefficient_2\'"), (\'float\', '
 '\'nan\')), ((\'str\', "\'coefficient_3\'"), (\'float\', \'nan\')), ((\'str\', '
 '"\'coefficient_4\'"), (\'float\', \'nan\')), ((\'str\', "\'coefficient_5\'"), (\'float\', '
 '\'nan\'))]))), ((\'str\', "\'along_track_doppler_frequency_center\'"), (\'Group\', '
 "'/dataset_summary/along_track_doppler_frequency_center', None, ('dict', [(('str', "
 '"\'constant_term_at_early_edge_of_the_image\'"), (\'Variable\', (\'tuple\', []), (\'float\', '
 '\'nan\'), (\'dict\', [((\'str\', "\'units\'"), (\'str\', "\'Hz\'"))]))), ((\'str\', '
 '"\'linear_coefficient_terms_at_early_edge_of_the_image\'"), (\'Variable\', (\'tuple\', []), '
 '(\'float\', \'nan\'), (\'dict\', [((\'str\', "\'units\'"), (\'str\', "\'Hz/px\'"))]))), '
 '((\'str\', "\'quadratic_coefficient_terms_at_early_edge_of_the_image\'"), (\'Variable\', '
 '(\'tuple\', []), (\'float\', \'nan\'), (\'dict\', [((\'str\', "\'units\'"), (\'str\', '
 '"\'Hz/px^2\'"))])))]), (\'dict\', []))), ((\'str\', "\'cross_track_doppler_frequency_center\'"), '
 "('Group', '/dataset_summary/cross_track_doppler_frequency_center', None, ('dict', [(('str', "
 '"\'constant_term_at_early_edge_of_the_image\'"), (\'Variable\', (\'tuple\', []), (\'float\', '
 '\'nan\'), (\'dict\', [((\'str\', "\'units\'"), (\'str\', "\'Hz\'"))]))), ((\'str\', '
 '"\'linear_coefficient_terms_at_early_edge_of_the_image\'"), (\'Variable\', (\'tuple\', []), '
 '(\'float\', \'nan\'), (\'dict\', [((\'str\', "\'units\'"), (\'str\', "\'Hz/px\'"))]))), '
 '((\'str\', "\'quadratic_coefficient_terms_at_early_edge_of_the_image\'"), (\'Variable\', '
 '(\'tuple\', []), (\'float\', \'nan\'), (\'dict\', [((\'str\', "\'units\'"), (\'str\', '
 '"\'Hz/px^2\'"))])))]), (\'dict\', []))), ((\'str\', "\'along_track_doppler_frequency_rate\'"), '
 "('Group', '/dataset_summary/along_track_doppler_frequency_rate', None, ('dict', [(('str', "
 '"\'constant_terms_at_early_edge_of_the_image\'"), (\'Variable\', (\'tuple\', []), (\'float\', '
 '\'nan\'), (\'dict\', [((\'str\', "\'units\'"), (\'str\', "\'Hz/s\'"))]))), ((\'str\', '
 '"\'linear_coefficient_at_early_edge_of_the_image\'"), (\'Variable\', (\'tuple\', []), '
 '(\'float\', \'nan\'), (\'dict\', [((\'str\', "\'units\'"), (\'str\', "\'Hz/s/px\'"))]))), '
 '((\'str\', "\'quadratic_coefficient_at_early_edge_of_the_image\'"), (\'Variable\', (\'tuple\', '
 '[]), (\'float\', \'nan\'), (\'dict\', [((\'str\', "\'units\'"), (\'str\', '
 '"\'Hz/s/px^2\'"))])))]), (\'dict\', []))), ((\'str\', "\'cross_track_doppler_frequency_rate\'"), '
 "('Group', '/dataset_summary/cross_track_doppler_frequency_rate', None, ('dict', [(('str', "
 '"\'constant_terms_at_early_edge_of_the_image\'"), (\'Variable\', (\'tuple\', []), (\'float\', '
 '\'nan\'), (\'dict\', [((\'str\', "\'units\'"), (\'str\', "\'Hz/s\'"))]))), ((\'str\', '
 '"\'linear_coefficient_at_early_edge_of_the_image\'"), (\'Variable\', (\'tuple\', []), '
 '(\'float\', \'nan\'), (\'dict\', [((\'str\', "\'units\'"), (\'str\', "\'Hz/s/px\'"))]))), '
 '((\'str\', "\'quadratic_coefficient_at_early_edge_of_the_image\'"), (\'Variable\', (\'tuple\', '
 '[]), (\'float\', \'nan\'), (\'dict\', [((\'str\', "\'units\'"), (\'str\', '
 '"\'Hz/s/px^2\'"))])))]), (\'dict\', []))), ((\'str\', "\'calibration_at_the_side_of_start\'"), '
 "('Group', '/dataset_summary/calibration_at_the_side_of_start', None, ('dict', []), ('dict', "
 '[((\'str\', "\'start_line_number\'"), (\'int\', \'-1\')), ((\'str\', "\'end_line_number\'"), '
 '(\'int\', \'-1\'))]))), ((\'str\', "\'calibration_at_the_side_of_end\'"), (\'Group\', '
 "'/dataset_summary/calibration_at_the_side_of_end', None, ('dict', []), ('dict', [(('str', "
 '"\'start_line_number\'"), (\'int\', \'-1\')), ((\'str\', "\'end_line_number\'"), (\'int\', '
 '\'-1\'))]))), ((\'str\', "\'incidence_angle\'"), (\'Group\', '
 '\'/dataset_summary/incidence_angle\', None, (\'dict\', [((\'str\', "\'constant_term\'"), '
 '(\'Variable\', (\'tuple\', []), (\'float\', \'nan\'), (\'dict\', [((\'str\', "\'units\'"), '
 '(\'str\', "\'rad\'"))]))), ((\'str\', "\'linear_term\'"), (\'Variable\', (\'tuple\', []), '
 '(\'float\', \'nan\'), (\'dict\', [((\'str\', "\'units\'"), (\'str\', "\'rad/km\'"))]))), '
 '((\'str\', "\'quadratic_term\'"), (\'Variable\', (\'tuple\', []), (\'float\', \'nan\'), '
 '(\'dict\', [((\'str\', "\'units\'"), (\'str\', "\'rad/km^2\'"))]))), ((\'str\', '
 '"\'cubic_term\'"), (\'Variable\', (\'tuple\', []), (\'float\', \'nan\'), (\'dict\', [((\'str\', '
 '"\'units\'"), (\'str\', "\'rad/km^3\'"))]))), ((\'str\', "\'fourth_term\'"), (\'Variable\', '
 '(\'tuple\', []), (\'float\', \'nan\'), (\'dict\', [((\'str\', "\'units\'"), (\'str\', '
 '"\'rad/km^4\'"))]))), ((\'str\', "\'fifth_term\'"), (\'Variable\', (\'tuple\', []), (\'float\', '
 '\'nan\'), (\'dict\', [((\'str\', "\'units\'"), (\'str\', "\'rad/km^5\'"))])))]), (\'dict\', '
 '[((\'str\', "\'formula\'"), (\'str\', "\'θ = a0 + a1*R + a2*R^2 + a3*R^3 + a4*R^4 + a5*R^5\'")), '
 '((\'str\', "\'theta\'"), (\'str\', "\'incidence angle\'")), ((\'str\', "\'r\'"), (\'str\', '
 '"\'slant range\'"))])))]), (\'dict\', [((\'str\', "\'scene_id\'"), (\'str\', '
 '"\'ALOS2310000000-200229\'")), ((\'str\', "\'scene_center_time\'"), (\'str\', '
 '"\'2020-02-29T12:00:00.500000\'")), ((\'str\', "\'ellipsoid_designator\'"), (\'str\', "\'\'")), '
 '((\'str\', "\'ellipsoid_j2_parameter\'"), (\'float\', \'nan\')), ((\'str\', '
 '"\'ellipsoid_j3_parameter\'"), (\'float\', \'nan\')), ((\'str\', "\'ellipsoid_j4_parameter\'"), '
 '(\'float\', \'nan\')), ((\'str\', "\'scene_center_line_number\'"), (\'int\', \'-1\')), '
 '((\'str\', "\'scene_center_pixel_number\'"), (\'int\', \'-1\')), ((\'str\', '
 '"\'number_of_sar_channel\'"), (\'int\', \'-1\')), ((\'str\', '
 '"\'sensor_platform_mission_identifier\'"), (\'str\', "\'\'")), ((\'str\', '
 '"\'sensor_id_and_operation_mode\'"), (\'str\', "\'\'")), ((\'str\', '
 '"\'orbit_number_or_flight_line_indicator\'"), (\'int\', \'-1\')), ((\'str\', '
 '"\'motion_compensation_indicator\'"), (\'EnumInteger\', \'-1\')), ((\'str\', '
 '"\'range_pulse_code\'"), (\'str\', "\'\'")), ((\'str\', '
 '"\'down_linked_data_chirp_extraction_index\'"), (\'int\', \'-1\')), ((\'str\', '
 '"\'base_band_conversion_flag\'"), (\'str\', "\'yes\'")), ((\'str\', '
 '"\'range_compression_flag\'"), (\'str\', "\'no\'")), ((\'str\', '
 '"\'receiver_gain_for_like_polarized_at_early_edge_at_the_start_of_the_image\'"), (\'float\', '
 "'nan')), (('str', "
 '"\'receiver_gain_for_cross_polarized_at_early_edge_at_the_start_of_the_image\'"), (\'float\', '
 '\'nan\')), ((\'str\', "\'quantization_in_bits_per_channel\'"), (\'int\', \'-1\')), ((\'str\', '
 '"\'quantized_descriptor\'"), (\'str\', "\'\'")), ((\'str\', "\'dc_bias_for_I_component\'"), '
 '(\'float\', \'nan\')), ((\'str\', "\'dc_bias_for_Q_component\'"), (\'float\', \'nan\')), '
 '((\'str\', "\'gain_imbalance_for_I_and_Q\'"), (\'float\', \'nan\')), ((\'str\', '
 '"\'electronic_boresight\'"), (\'float\', \'nan\')), ((\'str\', "\'mechanical_boresight\'"), '
 '(\'float\', \'nan\')), ((\'str\', "\'echo_tracker_status\'"), (\'str\', "\'on\'")), ((\'str\', '
 '"\'satellite_encoded_binary_time_code\'"), (\'int\', \'-1\')), ((\'str\', '
 '"\'satellite_clock_time\'"), (\'str\', "\'\'")), ((\'str\', "\'processing_facility_id\'"), '
 '(\'str\', "\'\'")), ((\'str\', "\'processing_system_id\'"), (\'str\', "\'\'")), ((\'str\', '
 '"\'processing_version_id\'"), (\'str\', "\'\'")), ((\'str\', "\'product_level_code\'"), '
 '(\'str\', "\'\'")), ((\'str\', "\'product_type_specifier\'"), (\'str\', "\'\'")), ((\'str\', '
 '"\'number_of_looks_in_azimuth\'"), (\'float\', \'nan\')), ((\'str\', '
 '"\'number_of_looks_in_range\'"), (\'float\', \'nan\')), ((\'str\', '
 '"\'weighting_function_in_azimuth\'"), (\'str\', "\'rectangle\'")), ((\'str\', '
 '"\'weighting_function_in_range\'"), (\'str\', "\'rectangle\'")), ((\'str\', '
 '"\'data_input_source\'"), (\'str\', "\'\'")), ((\'str\', '
 '"\'time_direction_indicator_along_line_direction\'"), (\'str\', "\'\'")), ((\'str\', '
 '"\'line_content_indicator\'"), (\'str\', "\'\'")), ((\'str\', "\'clutter_lock_applied_flag\'"), '
 '(\'str\', "\'off\'")), ((\'str\', "\'auto_focusing_applied_flag\'"), (\'str\', "\'yes\'")), '
 '((\'str\', "\'processor_range_compression_designator\'"), (\'str\', "\'\'")), ((\'str\', '
 '"\'calibration_mode_data_location_flag\'"), (\'int\', \'-1\')), ((\'str\', '
 '"\'prf_switching_indicator\'"), (\'int\', \'-1\')), ((\'str\', '
 '"\'line_number_of_prf_switching\'"), (\'int\', \'-1\')), ((\'str\', '
 '"\'yaw_steering_mode_flag\'"), (\'int\', \'-1\')), ((\'str\', "\'nominal_off_nadir_angle\'"), '
 '(\'float\', \'nan\')), ((\'str\', "\'antenna_beam_number\'"), (\'int\', \'-1\'))]))), ((\'str\', '
 '"\'map_projection\'"), (\'Group\', \'/map_projection\', None, (\'dict\', [((\'str\', '
 '"\'general_information\'"), (\'Group\', \'/map_projection/general_information\', None, '
 '(\'dict\', [((\'str\', "\'inter_line_distance_in_output_scene\'"), (\'Variable\', (\'tuple\', '
 '[]), (\'float\', \'nan\'), (\'dict\', [((\'str\', "\'units\'"), (\'str\', "\'m\'"))]))), '
 '((\'str\', "\'inter_pixel_distance_in_output_scene\'"), (\'Variable\', (\'tuple\', []), '
 '(\'float\', \'nan\'), (\'dict\', [((\'str\', "\'units\'"), (\'str\', "\'m\'"))]))), ((\'str\', '
 '"\'angle_between_projection_aixs_from_true_north_at_processed_scene_center\'"), (\'Variable\', '
 '(\'tuple\', []), (\'float\', \'nan\'), (\'dict\', [((\'str\', "\'units\'"), (\'str\', '
 '"\'deg\'"))]))), ((\'str\', "\'actual_platform_orbital_inclination\'"), (\'Variable\', '
 '(\'tuple\', []), (\'float\', \'nan\'), (\'dict\', [((\'str\', "\'units\'"), (\'str\', '
 '"\'deg\'"))]))), ((\'str\', "\'actual_ascending_node\'"), (\'Variable\', (\'tuple\', []), '
 '(\'float\', \'nan\'), (\'dict\', [((\'str\', "\'units\'"), (\'str\', "\'deg\'"))]))), ((\'str\', '
 '"\'distance_of_platform_at_input_scene_center_from_geocenter\'"), (\'Variable\', (\'tuple\', '
 '[]), (\'float\', \'nan\'), (\'dict\', [((\'str\', "\'units\'"), (\'str\', "\'m\'"))]))), '
 '((\'str\', "\'geodetic_altitude_of_the_platform_relative_to_the_ellipsoid\'"), (\'Variable\', '
 '(\'tuple\', []), (\'float\', \'nan\'), (\'dict\', [((\'str\', "\'units\'"), (\'str\', '
 '"\'m\'"))]))), ((\'str\', "\'actual_ground_speed_at_nadir_at_input_scene_center_time\'"), '
 '(\'Variable\', (\'tuple\', []), (\'float\', \'nan\'), (\'dict\', [((\'str\', "\'units\'"), '
 '(\'str\', "\'m/s\'"))]))), ((\'str\', "\'platform_headings\'"), (\'Variable\', (\'tuple\', []), '
 '(\'float\', \'nan\'), (\'dict\', [((\'str\', "\'units\'"), (\'str\', "\'deg\'"))])))]), '
 '(\'dict\', [((\'str\', "\'map_projection_type\'"), (\'str\', "\'\'")), ((\'str\', '
 '"\'n_columns\'"), (\'int\', \'-1\')), ((\'str\', "\'n_rows\'"), (\'int\', \'25000\'))]))), '
 '((\'str\', "\'ellipsoid_parameters\'"), (\'Group\', \'/map_projection/ellipsoid_parameters\', '
 'None, (\'dict\', [((\'str\', "\'semimajor_axis\'"), (\'Variable\', (\'tuple\', []), (\'float\', '
 '\'nan\'), (\'dict\', [((\'str\', "\'units\'"), (\'str\', "\'m\'"))]))), ((\'str\', '
 '"\'semiminor_axis\'"), (\'Variable\', (\'tuple\', []), (\'float\', \'nan\'), (\'dict\', '
 '[((\'str\', "\'units\'"), (\'str\', "\'m\'"))])))]), (\'dict\', [((\'str\', '
 '"\'reference_ellipsoid\'"), (\'str\', "\'\'"))]))), ((\'str\', "\'projection\'"), (\'Group\', '
 '\'/map_projection/projection\', None, (\'dict\', [((\'str\', "\'center_of_projection\'"), '
 "('Group', '/map_projection/projection/center_of_projection', None, ('dict', [(('str', "
 '"\'longitude\'"), (\'Variable\', (\'tuple\', []), (\'float\', \'nan\'), (\'dict\', [((\'str\', '
 '"\'units\'"), (\'str\', "\'deg\'"))]))), ((\'str\', "\'latitude\'"), (\'Variable\', (\'tuple\', '
 '[]), (\'float\', \'nan\'), (\'dict\', [((\'str\', "\'units\'"), (\'str\', "\'deg\'"))])))]), '
 '(\'dict\', []))), ((\'str\', "\'standard_parallel\'"), (\'Group\', '
 '\'/map_projection/projection/standard_parallel\', None, (\'dict\', [((\'str\', "\'phi1\'"), '
 '(\'Variable\', (\'tuple\', []), (\'float\', \'nan\'), (\'dict\', [((\'str\', "\'units\'"), '
 '(\'str\', "\'deg\'"))]))), ((\'str\', "\'phi2\'"), (\'Variable\', (\'tuple\', []), (\'float\', '
 '\'nan\'), (\'dict\', [((\'str\', "\'units\'"), (\'str\', "\'deg\'"))])))]), (\'dict\', [])))]), '
 '(\'dict\', [((\'str\', "\'projection_descriptor\'"), (\'str\', "\'\'"))]))), ((\'str\', '
 '"\'corner_points\'"), (\'Group\', \'/map_projection/corner_points\', None, (\'dict\', '
 '[((\'str\', "\'projected\'"), (\'Group\', \'/map_projection/corner_points/projected\', None, '
 '(\'dict\', [((\'str\', "\'corner\'"), (\'Variable\', (\'list\', [(\'str\', "\'corner\'")]), '
 '(\'list\', [(\'str\', "\'top_left\'"), (\'str\', "\'top_right\'"), (\'str\', '
 '"\'bottom_right\'"), (\'str\', "\'bottom_left\'")]), (\'dict\', []))), ((\'str\', '
 '"\'northing\'"), (\'Variable\', (\'list\', [(\'str\', "\'corner\'")]), (\'list\', [(\'float\', '
 "'nan'), ('float', 'nan'), ('float', 'nan'), ('float', 'nan')]), ('dict', [(('str', "
 '"\'units\'"), (\'str\', "\'km\'"))]))), ((\'str\', "\'easting\'"), (\'Variable\', (\'list\', '
 '[(\'str\', "\'corner\'")]), (\'list\', [(\'float\', \'nan\'), (\'float\', \'nan\'), (\'float\', '
 '\'nan\'), (\'float\', \'nan\')]), (\'dict\', [((\'str\', "\'units\'"), (\'str\', '
 '"\'km\'"))])))]), (\'dict\', []))), ((\'str\', "\'geographic\'"), (\'Group\', '
 '\'/map_projection/corner_points/geographic\', None, (\'dict\', [((\'str\', "\'corner\'"), '
 '(\'Variable\', (\'list\', [(\'str\', "\'corner\'")]), (\'list\', [(\'str\', "\'top_left\'"), '
 '(\'str\', "\'top_right\'"), (\'str\', "\'bottom_right\'"), (\'str\', "\'bottom_left\'")]), '
 '(\'dict\', []))), ((\'str\', "\'latitude\'"), (\'Variable\', (\'list\', [(\'str\', '
 '"\'corner\'")]), (\'list\', [(\'float\', \'nan\'), (\'float\', \'nan\'), (\'float\', \'nan\'), '
 '(\'float\', \'nan\')]), (\'dict\', [((\'str\', "\'units\'"), (\'str\', "\'deg\'"))]))), '
 '((\'str\', "\'longitude\'"), (\'Variable\', (\'list\', [(\'str\', "\'corner\'")]), (\'list\', '
 "[('float', 'nan'), ('float', 'nan'), ('float', 'nan'), ('float', 'nan')]), ('dict', [(('str', "
 '"\'units\'"), (\'str\', "\'deg\'"))])))]), (\'dict\', [])))]), (\'dict\', []))), ((\'str\', '
 '"\'conversion_coefficients\'"), (\'Group\', \'/map_projection/conversion_coefficients\', None, '
 '(\'dict\', [((\'str\', "\'projected_to_image\'"), (\'Group\', '
 "'/map_projection/conversion_coefficients/projected_to_image', None, ('dict', [(('str', "
 '"\'names\'"), (\'Variable\', (\'list\', [(\'str\', "\'names\'")]), (\'list\', [(\'str\', '
 '"\'A11\'"), (\'str\', "\'A12\'"), (\'str\', "\'A13\'"), (\'str\', "\'A14\'"), (\'str\', '
 '"\'A21\'"), (\'str\', "\'A22\'"), (\'str\', "\'A23\'"), (\'str\', "\'A24\'")]), (\'dict\', '
 '[]))), ((\'str\', "\'coefficients\'"), (\'Variable\', (\'list\', [(\'str\', "\'names\'")]), '
 "('list', [('float', 'nan'), ('float', 'nan'), ('float', 'nan'), ('float', 'nan'), ('float', "
 "'nan'), ('float', 'nan'), ('float', 'nan'), ('float', 'nan')]), ('dict', [])))]), ('dict', "
 '[((\'str\', "\'formula\'"), (\'str\', "\'E = A11 + A12 * R + A13 * C + A14 * R * C; N = A21 + '
 'A22 * R + A23 * C + A24 * R * C\'")), ((\'str\', "\'E\'"), (\'str\', "\'easting\'")), ((\'str\', '
 '"\'N\'"), (\'str\', "\'northing\'")), ((\'str\', "\'R\'"), (\'str\', "\'row (1-based)\'")), '
 '((\'str\', "\'C\'"), (\'str\', "\'column (1-based)\'"))]))), ((\'str\', '
 '"\'image_to_projected\'"), (\'Group\', '
 "'/map_projection/conversion_coefficients/image_to_projected', None, ('dict', [(('str', "
 '"\'names\'"), (\'Variable\', (\'list\', [(\'str\', "\'names\'")]), (\'list\', [(\'str\', '
 '"\'B11\'"), (\'str\', "\'B12\'"), (\'str\', "\'B13\'"), (\'str\', "\'B14\'"), (\'str\', '
 '"\'B21\'"), (\'str\', "\'B22\'"), (\'str\', "\'B23\'"), (\'str\', "\'B24\'")]), (\'dict\', '
 '[]))), ((\'str\', "\'coefficients\'"), (\'Variable\', (\'list\', [(\'str\', "\'names\'")]), '
 "('list', [('float', 'nan'), ('float', 'nan'), ('float', 'nan'), ('float', 'nan'), ('float', "
 "'nan'), ('float', 'nan'), ('float', 'nan'), ('float', 'nan')]), ('dict', [])))]), ('dict', "
 '[((\'str\', "\'formula\'"), (\'str\', "\'R = B11 + B12 * E + B13 * N + B14 * E * N; C = B21 + '
 'B22 * E + B23 * N + B24 * E * N\'")), ((\'str\', "\'E\'"), (\'str\', "\'easting\'")), ((\'str\', '
 '"\'N\'"), (\'str\', "\'northing\'")), ((\'str\', "\'R\'"), (\'str\', "\'row (1-based)\'")), '
 '((\'str\', "\'C\'"), (\'str\', "\'column (1-based)\'"))])))]), (\'dict\', [])))]), (\'dict\', '
 '[]))), ((\'str\', "\'platform_position\'"), (\'Group\', \'/platform_position\', None, (\'dict\', '
 '[((\'str\', "\'sampling_frequency\'"), (\'Variable\', (\'tuple\', []), (\'float\', \'60.0\'), '
 '(\'dict\', [((\'str\', "\'units\'"), (\'str\', "\'s\'"))]))), ((\'str\', '
 '"\'orbital_elements\'"), (\'Group\', \'/platform_position/orbital_elements\', None, (\'dict\', '
 '[((\'str\', "\'position\'"), (\'Group\', \'/platform_position/orbital_elements/position\', None, '
 '(\'dict\', [((\'str\', "\'x\'"), (\'Variable\', (\'tuple\', []), (\'float\', \'1.0\'), '
 '(\'dict\', [((\'str\', "\'units\'"), (\'str\', "\'m\'"))]))), ((\'str\', "\'y\'"), '
 '(\'Variable\', (\'tuple\', []), (\'float\', \'2.0\'), (\'dict\', [((\'str\', "\'units\'"), '
 '(\'str\', "\'m\'"))]))), ((\'str\', "\'z\'"), (\'Variable\', (\'tuple\', []), (\'float\', '
 '\'3.0\'), (\'dict\', [((\'str\', "\'units\'"), (\'str\', "\'m\'"))])))]), (\'dict\', []))), '
 '((\'str\', "\'velocity\'"), (\'Group\', \'/platform_position/orbital_elements/velocity\', None, '
 '(\'dict\', [((\'str\', "\'x\'"), (\'Variable\', (\'tuple\', []), (\'float\', \'4.0\'), '
 '(\'dict\', [((\'str\', "\'units\'"), (\'str\', "\'m/s\'"))]))), ((\'str\', "\'y\'"), '
 '(\'Variable\', (\'tuple\', []), (\'float\', \'5.0\'), (\'dict\', [((\'str\', "\'units\'"), '
 '(\'str\', "\'m/s\'"))]))), ((\'str\', "\'z\'"), (\'Variable\', (\'tuple\', []), (\'float\', '
 '\'6.0\'), (\'dict\', [((\'str\', "\'units\'"), (\'str\', "\'m/s\'"))])))]), (\'dict\', [])))]), '
 '(\'dict\', [((\'str\', "\'type\'"), (\'str\', "\'high_precision\'"))]))), ((\'str\', '
 '"\'nominal_error\'"), (\'Group\', \'/platform_position/nominal_error\', None, (\'dict\', '
 '[((\'str\', "\'position\'"), (\'Group\', \'/platform_position/nominal_error/position\', None, '
 '(\'dict\', [((\'str\', "\'along_track\'"), (\'Variable\', (\'tuple\', []), (\'float\', \'0.1\'), '
 '(\'dict\', [((\'str\', "\'units\'"), (\'str\', "\'m\'"))]))), ((\'str\', "\'across_track\'"), '
 '(\'Variable\', (\'tuple\', []), (\'float\', \'0.2\'), (\'dict\', [((\'str\', "\'units\'"), '
 '(\'str\', "\'m\'"))]))), ((\'str\', "\'radial\'"), (\'Variable\', (\'tuple\', []), (\'float\', '
 '\'0.3\'), (\'dict\', [((\'str\', "\'units\'"), (\'str\', "\'m\'"))])))]), (\'dict\', []))), '
 '((\'str\', "\'velocity\'"), (\'Group\', \'/platform_position/nominal_error/velocity\', None, '
 '(\'dict\', [((\'str\', "\'along_track\'"), (\'Variable\', (\'tuple\', []), (\'float\', \'0.4\'), '
 '(\'dict\', [((\'str\', "\'units\'"), (\'str\', "\'m/s\'"))]))), ((\'str\', "\'across_track\'"), '
 '(\'Variable\', (\'tuple\', []), (\'float\', \'0.5\'), (\'dict\', [((\'str\', "\'units\'"), '
 '(\'str\', "\'m/s\'"))]))), ((\'str\', "\'radial\'"), (\'Variable\', (\'tuple\', []), (\'float\', '
 '\'0.6\'), (\'dict\', [((\'str\', "\'units\'"), (\'str\', "\'m/s\'"))])))]), (\'dict\', [])))]), '
 '(\'dict\', []))), ((\'str\', "\'positions\'"), (\'Group\', \'/platform_position/positions\', '
 'None, (\'dict\', [((\'str\', "\'position\'"), (\'Group\', '
 '\'/platform_position/positions/position\', None, (\'dict\', [((\'str\', "\'x\'"), (\'Variable\', '
 '(\'list\', [(\'str\', "\'positions\'")]), (\'list\', [(\'float\', \'1000000.0\'), (\'float\', '
 "'1000001.0'), ('float', '1000002.0'), ('float', '1000003.0'), ('float', '1000004.0'), ('float', "
 "'1000005.0'), ('float', '1000006.0'), ('float', '1000007.0'), ('float', '1000008.0'), ('float', "
 "'1000009.0'), ('float', '1000010.0'), ('float', '1000011.0'), ('float', '1000012.0'), ('float', "
 "'1000013.0'), ('float', '1000014.0'), ('float', '1000015.0'), ('float', '1000016.0'), ('float', "
 "'1000017.0'), ('float', '1000018.0'), ('float', '1000019.0'), ('float', '1000020.0'), ('float', "
 "'1000021.0'), ('float', '1000022.0'), ('float', '1000023.0'), ('float', '1000024.0'), ('float', "
 "'1000025.0'), ('float', '1000026.0'), ('float', '1000027.0')]), ('dict', [(('str', "
 '"\'units\'"), (\'str\', "\'m\'"))]))), ((\'str\', "\'y\'"), (\'Variable\', (\'list\', [(\'str\', '
 '"\'positions\'")]), (\'list\', [(\'float\', \'2000000.0\'), (\'float\', \'1999999.0\'), '
 "('float', '1999998.0'), ('float', '1999997.0'), ('float', '1999996.0'), ('float', '1999995.0'), "
 "('float', '1999994.0'), ('float', '1999993.0'), ('float', '1999992.0'), ('float', '1999991.0'), "
 "('float', '1999990.0'), ('float', '1999989.0'), ('float', '1999988.0'), ('float', '1999987.0'), "
 "('float', '1999986.0'), ('float', '1999985.0'), ('float', '1999984.0'), ('float', '1999983.0'), "
 "('float', '1999982.0'), ('float', '1999981.0'), ('float', '1999980.0'), ('float', '1999979.0'), "
 "('float', '1999978.0'), ('float', '1999977.0'), ('float', '1999976.0'), ('float', '1999975.0'), "
 '(\'float\', \'1999974.0\'), (\'float\', \'1999973.0\')]), (\'dict\', [((\'str\', "\'units\'"), '
 '(\'str\', "\'m\'"))]))), ((\'str\', "\'z\'"), (\'Variable\', (\'list\', [(\'str\', '
 '"\'positions\'")]), (\'list\', [(\'float\', \'3000000.0\'), (\'float\', \'3000002.0\'), '
 "('float', '3000004.0'), ('float', '3000006.0'), ('float', '3000008.0'), ('float', '3000010.0'), "
 "('float', '3000012.0'), ('float', '3000014.0'), ('float', '3000016.0'), ('float', '3000018.0'), "
 "('float', '3000020.0'), ('float', '3000022.0'), ('float', '3000024.0'), ('float', '3000026.0'), "
 "('float', '3000028.0'), ('float', '3000030.0'), ('float', '3000032.0'), ('float', '3000034.0'), "
 "('float', '3000036.0'), ('float', '3000038.0'), ('float', '3000040.0'), ('float', '3000042.0'), "
 "('float', '3000044.0'), ('float', '3000046.0'), ('float', '3000048.0'), ('float', '3000050.0'), "
 '(\'float\', \'3000052.0\'), (\'float\', \'3000054.0\')]), (\'dict\', [((\'str\', "\'units\'"), '
 '(\'str\', "\'m\'"))])))]), (\'dict\', []))), ((\'str\', "\'velocity\'"), (\'Group\', '
 '\'/platform_position/positions/velocity\', None, (\'dict\', [((\'str\', "\'x\'"), (\'Variable\', '
 '(\'list\', [(\'str\', "\'positions\'")]), (\'list\', [(\'float\', \'7000.0\'), (\'float\', '
 "'6999.0'), ('float', '6998.0'), ('float', '6997.0'), ('float', '6996.0'), ('float', '6995.0'), "
 "('float', '6994.0'), ('float', '6993.0'), ('float', '6992.0'), ('float', '6991.0'), ('float', "
 "'6990.0'), ('float', '6989.0'), ('float', '6988.0'), ('float', '6987.0'), ('float', '6986.0'), "
 "('float', '6985.0'), ('float', '6984.0'), ('float', '6983.0'), ('float', '6982.0'), ('float', "
 "'6981.0'), ('float', '6980.0'), ('float', '6979.0'), ('float', '6978.0'), ('float', '6977.0'), "
 "('float', '6976.0'), ('float', '6975.0'), ('float', '6974.0'), ('float', '6973.0')]), ('dict', "
 '[((\'str\', "\'units\'"), (\'str\', "\'m/s\'"))]))), ((\'str\', "\'y\'"), (\'Variable\', '
 '(\'list\', [(\'str\', "\'positions\'")]), (\'list\', [(\'float\', \'-7000.0\'), (\'float\', '
 "'-6999.0'), ('float', '-6998.0'), ('float', '-6997.0'), ('float', '-6996.0'), ('float', "
 "'-6995.0'), ('float', '-6994.0'), ('float', '-6993.0'), ('float', '-6992.0'), ('float', "
 "'-6991.0'), ('float', '-6990.0'), ('float', '-6989.0'), ('float', '-6988.0'), ('float', "
 "'-6987.0'), ('float', '-6986.0'), ('float', '-6985.0'), ('float', '-6984.0'), ('float', "
 "'-6983.0'), ('float', '-6982.0'), ('float', '-6981.0'), ('float', '-6980.0'), ('float', "
 "'-6979.0'), ('float', '-6978.0'), ('float', '-6977.0'), ('float', '-6976.0'), ('float', "
 "'-6975.0'), ('float', '-6974.0'), ('float', '-6973.0')]), ('dict', [(('str', "
 '"\'units\'"), (\'str\', "\'m/s\'"))]))), ((\'str\', "\'z\'"), (\'Variable\', (\'list\', '
 '[(\'str\', "\'positions\'")]), (\'list\', [(\'float\', \'0.0\'), (\'float\', \'0.5\'), '
 "('float', '1.0'), ('float', '1.5'), ('float', '2.0'), ('float', '2.5'), ('float', '3.0'), "
 "('float', '3.5'), ('float', '4.0'), ('float', '4.5'), ('float', '5.0'), ('float', '5.5'), "
 "('float', '6.0'), ('float', '6.5'), ('float', '7.0'), ('float', '7.5'), ('float', '8.0'), "
 "('float', '8.5'), ('float', '9.0'), ('float', '9.5'), ('float', '10.0'), ('float', '10.5'), "
 "('float', '11.0'), ('float', '11.5'), ('float', '12.0'), ('float', '12.5'), ('float', '13.0'), "
 '(\'float\', \'13.5\')]), (\'dict\', [((\'str\', "\'units\'"), (\'str\', "\'m/s\'"))])))]), '
 '(\'dict\', [])))]), (\'dict\', [])))]), (\'dict\', [((\'str\', "\'datetime_of_first_point\'"), '
 '(\'str\', "\'2020-02-29T12:00:00.500000\'")), ((\'str\', "\'reference_coordinate_system\'"), '
 '(\'str\', "\'ECR\'")), ((\'str\', "\'leap_second\'"), (\'bool\', \'True\'))]))), ((\'str\', '
 '"\'attitude\'"), (\'Group\', \'/attitude\', None, (\'dict\', [((\'str\', "\'attitude\'"), '
 '(\'Group\', \'/attitude/attitude\', None, (\'dict\', [((\'str\', "\'pitch_error\'"), '
 '(\'Variable\', (\'list\', [(\'str\', "\'points\'")]), (\'list\', [(\'bool\', \'False\'), '
 "('bool', 'True'), ('bool', 'False'), ('bool', 'True'), ('bool', 'False')]), ('dict', []))), "
 '((\'str\', "\'roll_error\'"), (\'Variable\', (\'list\', [(\'str\', "\'points\'")]), (\'list\', '
 "[('bool', 'False'), ('bool', 'False'), ('bool', 'False'), ('bool', 'False'), ('bool', "
 '\'False\')]), (\'dict\', []))), ((\'str\', "\'yaw_error\'"), (\'Variable\', (\'list\', '
 '[(\'str\', "\'points\'")]), (\'list\', [(\'bool\', \'True\'), (\'bool\', \'True\'), (\'bool\', '
 "'True'), ('bool', 'True'), ('bool', 'True')]), ('dict', []))), (('str', "
 '"\'pitch\'"), (\'Variable\', (\'list\', [(\'str\', "\'points\'")]), (\'list\', [(\'float\', '
 "'0.0'), ('float', '1.0'), ('float', '2.0'), ('float', '3.0'), ('float', '4.0')]), ('dict', "
 '[((\'str\', "\'units\'"), (\'str\', "\'deg\'"))]))), ((\'str\', "\'roll\'"), (\'Variable\', '
 '(\'list\', [(\'str\', "\'points\'")]), (\'list\', [(\'float\', \'0.0\'), (\'float\', \'2.0\'), '
 "('float', '4.0'), ('float', '6.0'), ('float', '8.0')]), ('dict', [(('str', "
 '"\'units\'"), (\'str\', "\'deg\'"))]))), ((\'str\', "\'yaw\'"), (\'Variable\', (\'list\', '
 '[(\'str\', "\'points\'")]), (\'list\', [(\'float\', \'0.0\'), (\'float\', \'3.0\'), (\'float\', '
 '\'6.0\'), (\'float\', \'9.0\'), (\'float\', \'12.0\')]), (\'dict\', [((\'str\', "\'units\'"), '
 '(\'str\', "\'deg\'"))]))), ((\'str\', "\'time\'"), (\'Variable\', (\'list\', [(\'str\', '
 '"\'points\'")]), (\'ndarray\', \'datetime64[ns]\', (5,), [\'1586563199000000000\', '
 "'1586649598500000000', '1586735998000000000', '1586822397500000000', '1586908797000000000']), "
 '(\'dict\', [])))]), (\'dict\', [((\'str\', "\'coordinates\'"), (\'list\', [(\'str\', '
 '"\'time\'")]))]))), ((\'str\', "\'rates\'"), (\'Group\', \'/attitude/rates\', None, (\'dict\', '
 '[((\'str\', "\'pitch_error\'"), (\'Variable\', (\'list\', [(\'str\', "\'points\'")]), (\'list\', '
 "[('bool', 'False'), ('bool', 'True'), ('bool', 'False'), ('bool', 'True'), ('bool', 'False')]), "
 '(\'dict\', []))), ((\'str\', "\'roll_error\'"), (\'Variable\', (\'list\', [(\'str\', '
 '"\'points\'")]), (\'list\', [(\'bool\', \'False\'), (\'bool\', \'False\'), (\'bool\', '
 "'False'), ('bool', 'False'), ('bool', 'False')]), ('dict', []))), (('str', "
 '"\'yaw_error\'"), (\'Variable\', (\'list\', [(\'str\', "\'points\'")]), (\'list\', [(\'bool\', '
 "'True'), ('bool', 'True'), ('bool', 'True'), ('bool', 'True'), ('bool', 'True')]), ('dict', "
 '[]))), ((\'str\', "\'pitch\'"), (\'Variable\', (\'list\', [(\'str\', "\'points\'")]), (\'list\', '
 "[('float', '0.0'), ('float', '0.01'), ('float', '0.02'), ('float', '0.03'), ('float', '0.04')]), "
 '(\'dict\', [((\'str\', "\'units\'"), (\'str\', "\'deg/s\'"))]))), ((\'str\', "\'roll\'"), '
 '(\'Variable\', (\'list\', [(\'str\', "\'points\'")]), (\'list\', [(\'float\', \'0.0\'), '
 "('float', '0.02'), ('float', '0.04'), ('float', '0.06'), ('float', '0.08')]), ('dict', [(('str', "
 '"\'units\'"), (\'str\', "\'deg/s\'"))]))), ((\'str\', "\'yaw\'"), (\'Variable\', (\'list\', '
 '[(\'str\', "\'points\'")]), (\'list\', [(\'float\', \'0.0\'), (\'float\', \'0.03\'), (\'float\', '
 '\'0.06\'), (\'float\', \'0.09\'), (\'float\', \'0.12\')]), (\'dict\', [((\'str\', "\'units\'"), '
 '(\'str\', "\'deg/s\'"))]))), ((\'str\', "\'time\'"), (\'Variable\', (\'list\', [(\'str\', '
 '"\'points\'")]), (\'ndarray\', \'datetime64[ns]\', (5,), [\'1586563199000000000\', '
 "'1586649598500000000', '1586735998000000000', '1586822397500000000', '1586908797000000000']), "
 '(\'dict\', [])))]), (\'dict\', [((\'str\', "\'coordinates\'"), (\'list\', [(\'str\', '
 '"\'time\'")]))])))]), (\'dict\', []))), ((\'str\', "\'radiometric_data\'"), (\'Group\', '
 '\'/radiometric_data\', None, (\'dict\', [((\'str\', "\'calibration_factor\'"), (\'Variable\', '
 '(\'tuple\', []), (\'float\', \'nan\'), (\'dict\', [((\'str\', "\'formula\'"), (\'str\', '
 '"\'σ⁰=10*log_10<I^2 + Q^2> + CF - 32.0; σ⁰(level1.5/level3.1)=10*log_10<DN^2> + CF\'")), '
 '((\'str\', "\'I\'"), (\'str\', "\'level 1.1 real pixel value\'")), ((\'str\', "\'Q\'"), '
 '(\'str\', "\'level 1.1 imaginary pixel value\'")), ((\'str\', "\'DN\'"), (\'str\', "\'level '
 '1.5/3.1 pixel value\'"))]))), ((\'str\', "\'distortion_matrix\'"), (\'Group\', '
 '\'/radiometric_data/distortion_matrix\', None, (\'dict\', [((\'str\', "\'transmission\'"), '
 '(\'Variable\', (\'list\', [(\'str\', "\'i\'"), (\'str\', "\'j\'")]), (\'list\', [(\'list\', '
 "[('complex', '(nan+nanj)'), ('complex', '(nan+nanj)')]), ('list', [('complex', '(nan+nanj)'), "
 '(\'complex\', \'(nan+nanj)\')])]), (\'dict\', []))), ((\'str\', "\'reception\'"), (\'Variable\', '
 '(\'list\', [(\'str\', "\'i\'"), (\'str\', "\'j\'")]), (\'list\', [(\'list\', [(\'complex\', '
 "'(nan+nanj)'), ('complex', '(nan+nanj)')]), ('list', [('complex', '(nan+nanj)'), ('complex', "
 '\'(nan+nanj)\')])]), (\'dict\', []))), ((\'str\', "\'i\'"), (\'Variable\', (\'list\', [(\'str\', '
 '"\'i\'")]), (\'list\', [(\'str\', "\'horizontal\'"), (\'str\', "\'vertical\'")]), (\'dict\', '
 '[((\'str\', "\'long_name\'"), (\'str\', "\'reception polarization\'"))]))), ((\'str\', "\'j\'"), '
 '(\'Variable\', (\'list\', [(\'str\', "\'j\'")]), (\'list\', [(\'str\', "\'horizontal\'"), '
 '(\'str\', "\'vertical\'")]), (\'dict\', [((\'str\', "\'long_name\'"), (\'str\', "\'transmission '
 'polarization\'"))])))]), (\'dict\', [((\'str\', "\'formula\'"), (\'str\', "\'Z = '
 'A*1/r*exp(-4πr/λ) * RST + N\'")), ((\'str\', "\'Z\'"), (\'str\', "\'measurement matrix\'")), '
 '((\'str\', "\'A\'"), (\'str\', "\'amplitude\'")), ((\'str\', "\'r\'"), (\'str\', "\'slant '
 'range\'")), ((\'str\', "\'S\'"), (\'str\', "\'true scattering matrix\'")), ((\'str\', "\'N\'"), '
 '(\'str\', "\'noise component\'")), ((\'str\', "\'R\'"), (\'str\', "\'reception distortion '
 'matrix\'")), ((\'str\', "\'T\'"), (\'str\', "\'transmission distortion matrix\'"))])))]), '
 '(\'dict\', []))), ((\'str\', "\'data_quality_summary\'"), (\'Group\', \'/data_quality_summary\', '
 'None, (\'dict\', [((\'str\', "\'absolute_radiometric_data_quality\'"), (\'Group\', '
 "'/data_quality_summary/absolute_radiometric_data_quality', None, ('dict', [(('str', "
 '"\'islr\'"), (\'Variable\', (\'tuple\', []), (\'float\', \'nan\'), (\'dict\', [((\'str\', '
 '"\'units\'"), (\'str\', "\'dB\'"))]))), ((\'str\', "\'pslr\'"), (\'Variable\', (\'tuple\', []), '
 '(\'float\', \'nan\'), (\'dict\', [((\'str\', "\'units\'"), (\'str\', "\'dB\'"))]))), ((\'str\', '
 '"\'estimate_of_snr\'"), (\'Variable\', (\'tuple\', []), (\'float\', \'nan\'), (\'dict\', '
 '[((\'str\', "\'units\'"), (\'str\', "\'dB\'"))]))), ((\'str\', "\'ber\'"), (\'Variable\', '
 '(\'tuple\', []), (\'float\', \'nan\'), (\'dict\', [((\'str\', "\'units\'"), (\'str\', '
 '"\'dB\'"))]))), ((\'str\', "\'slant_range_resolution\'"), (\'Variable\', (\'tuple\', []), '
 '(\'float\', \'nan\'), (\'dict\', [((\'str\', "\'units\'"), (\'str\', "\'m\'"))]))), ((\'str\', '
 '"\'azimuth_resolution\'"), (\'Variable\', (\'tuple\', []), (\'float\', \'nan\'), (\'dict\', '
 '[((\'str\', "\'units\'"), (\'str\', "\'m\'"))]))), ((\'str\', "\'radiometric_resolution\'"), '
 '(\'Variable\', (\'tuple\', []), (\'float\', \'nan\'), (\'dict\', [((\'str\', "\'units\'"), '
 '(\'str\', "\'dB\'"))]))), ((\'str\', "\'instantaneous_dynamic_range\'"), (\'Variable\', '
 '(\'tuple\', []), (\'float\', \'nan\'), (\'dict\', [((\'str\', "\'units\'"), (\'str\', '
 '"\'dB\'"))]))), ((\'str\', "\'nominal_absolute_radiometric_calibration_uncertainty\'"), '
 "('Group', "
 "'/data_quality_summary/absolute_radiometric_data_quality/nominal_absolute_radiometric_calibration_uncertainty', "
 'None, (\'dict\', [((\'str\', "\'magnitude\'"), (\'Variable\', (\'tuple\', []), (\'float\', '
 '\'nan\'), (\'dict\', [((\'str\', "\'units\'"), (\'str\', "\'dB\'"))]))), ((\'str\', '
 '"\'phase\'"), (\'Variable\', (\'tuple\', []), (\'float\', \'nan\'), (\'dict\', [((\'str\', '
 '"\'units\'"), (\'str\', "\'deg\'"))])))]), (\'dict\', [])))]), (\'dict\', [((\'str\', '
 '"\'azimuth_ambiguity_rate\'"), (\'float\', \'nan\')), ((\'str\', "\'range_ambiguity_rate\'"), '
 '(\'float\', \'nan\'))]))), ((\'str\', "\'relative_radiometric_quality\'"), (\'Group\', '
 "'/data_quality_summary/relative_radiometric_quality', None, ('dict', [(('str', "
 '"\'magnitude\'"), (\'Variable\', (\'list\', [(\'str\', "\'channel\'")]), (\'list\', [(\'float\', '
 '\'nan\'), (\'float\', \'nan\')]), (\'dict\', [((\'str\', "\'units\'"), (\'str\', "\'dB\'"))]))), '
 '((\'str\', "\'phase\'"), (\'Variable\', (\'list\', [(\'str\', "\'channel\'")]), (\'list\', '
 '[(\'float\', \'nan\'), (\'float\', \'nan\')]), (\'dict\', [((\'str\', "\'units\'"), (\'str\', '
 '"\'deg\'"))])))]), (\'dict\', []))), ((\'str\', "\'absolute_geometric_quality\'"), (\'Group\', '
 "'/data_quality_summary/absolute_geometric_quality', None, ('dict', [(('str', "
 '"\'absolute_location_error\'"), (\'Group\', '
 "'/data_quality_summary/absolute_geometric_quality/absolute_location_error', None, ('dict', "
 '[((\'str\', "\'along_track\'"), (\'Variable\', (\'tuple\', []), (\'float\', \'nan\'), (\'dict\', '
 '[((\'str\', "\'units\'"), (\'str\', "\'m\'"))]))), ((\'str\', "\'across_track\'"), '
 '(\'Variable\', (\'tuple\', []), (\'float\', \'nan\'), (\'dict\', [((\'str\', "\'units\'"), '
 '(\'str\', "\'m\'"))])))]), (\'dict\', []))), ((\'str\', "\'geometric_distortion_scale\'"), '
 "('Group', '/data_quality_summary/absolute_geometric_quality/geometric_distortion_scale', None, "
 '(\'dict\', []), (\'dict\', [((\'str\', "\'line_direction\'"), (\'float\', \'nan\')), ((\'str\', '
 '"\'pixel_direction\'"), (\'float\', \'nan\'))])))]), (\'dict\', [((\'str\', '
 '"\'geometric_distortion_skew\'"), (\'float\', \'nan\')), ((\'str\', '
 '"\'scene_orientation_error\'"), (\'float\', \'nan\'))]))), ((\'str\', '
 '"\'relative_geometric_quality\'"), (\'Group\', '
 "'/data_quality_summary/relative_geometric_quality', None, ('dict', [(('str', "
 '"\'along_track\'"), (\'Variable\', (\'list\', [(\'str\', "\'channel\'")]), (\'list\', '
 '[(\'float\', \'nan\'), (\'float\', \'nan\')]), (\'dict\', [((\'str\', "\'units\'"), (\'str\', '
 '"\'m\'"))]))), ((\'str\', "\'across_track\'"), (\'Variable\', (\'list\', [(\'str\', '
 '"\'channel\'")]), (\'list\', [(\'float\', \'nan\'), (\'float\', \'nan\')]), (\'dict\', '
 '[((\'str\', "\'units\'"), (\'str\', "\'m\'"))])))]), (\'dict\', [])))]), (\'dict\', [((\'str\', '
 '"\'sar_channel_id\'"), (\'str\', "\'\'")), ((\'str\', '
 '"\'date_of_the_last_calibration_update\'"), (\'str\', "\'\'")), ((\'str\', '
 '"\'number_of_channels\'"), (\'int\', \'2\'))]))), ((\'str\', "\'transformations\'"), (\'Group\', '
 '\'/transformations\', None, (\'dict\', [((\'str\', "\'projected_to_image\'"), (\'Group\', '
 '\'/transformations/projected_to_image\', None, (\'dict\', [((\'str\', "\'a\'"), (\'Variable\', '
 '(\'list\', [(\'str\', "\'mid_precision_coeffs\'")]), (\'list\', [(\'float\', \'nan\'), '
 "('float', 'nan'), ('float', 'nan'), ('float', 'nan'), ('float', 'nan'), ('float', 'nan'), "
 "('float', 'nan'), ('float', 'nan'), ('float', 'nan'), ('float', 'nan')]), ('dict', []))), "
 '((\'str\', "\'b\'"), (\'Variable\', (\'list\', [(\'str\', "\'mid_precision_coeffs\'")]), '
 "('list', [('float', 'nan'), ('float', 'nan'), ('float', 'nan'), ('float', 'nan'), ('float', "
 "'nan'), ('float', 'nan'), ('float', 'nan'), ('float', 'nan'), ('float', 'nan'), ('float', "
 '\'nan\')]), (\'dict\', [])))]), (\'dict\', [((\'str\', "\'formula\'"), (\'str\', "\'P = a0 + '
 'a1*φ + a2*λ + a3*φ*λ + a4*φ^2 + a5*λ^2 + a6*φ^2*λ + a7*φ*λ^2 + a8*φ^3 + a9*λ^3; L = b0 + b1*φ + '
 'b2*λ + b3*φ*λ + b4*φ^2 + b5*λ^2 + b6*φ^2*λ + b7*φ*λ^2 + b8*φ^3 + b9*λ^3\'"))]))), ((\'str\', '
 '"\'calibration_at_upper_image\'"), (\'Group\', \'/transformations/calibration_at_upper_image\', '
 'None, (\'dict\', []), (\'dict\', [((\'str\', "\'start_line_number\'"), (\'int\', \'-1\')), '
 '((\'str\', "\'end_line_number\'"), (\'int\', \'-1\'))]))), ((\'str\', '
 '"\'calibration_at_bottom_image\'"), (\'Group\', '
 "'/transformations/calibration_at_bottom_image', None, ('dict', []), ('dict', [(('str', "
 '"\'start_line_number\'"), (\'int\', \'-1\')), ((\'str\', "\'end_line_number\'"), (\'int\', '
 '\'-1\'))]))), ((\'str\', "\'number_of_loss_lines\'"), (\'Group\', '
 "'/transformations/number_of_loss_lines', None, ('dict', []), ('dict', [(('str', "
 '"\'level1.0\'"), (\'int\', \'-1\')), ((\'str\', "\'others\'"), (\'int\', \'-1\'))]))), '
 '((\'str\', "\'image_to_geographic\'"), (\'Group\', \'/transformations/image_to_geographic\', '
 'None, (\'dict\', [((\'str\', "\'a\'"), (\'Variable\', (\'list\', [(\'str\', '
 '"\'high_precision_coeffs\'")]), (\'list\', [(\'float\', \'nan\'), (\'float\', \'nan\'), '
 "('float', 'nan'), ('float', 'nan'), ('float', 'nan'), ('float', 'nan'), ('float', 'nan'), "
 "('float', 'nan'), ('float', 'nan'), ('float', 'nan'), ('float', 'nan'), ('float', 'nan'), "
 "('float', 'nan'), ('float', 'nan'), ('float', 'nan'), ('float', 'nan'), ('float', 'nan'), "
 "('float', 'nan'), ('float', 'nan'), ('float', 'nan'), ('float', 'nan'), ('float', 'nan'), "
 "('float', 'nan'), ('float', 'nan'), ('float', 'nan')]), ('dict', []))), (('str', "
 '"\'b\'"), (\'Variable\', (\'list\', [(\'str\', "\'high_precision_coeffs\'")]), (\'list\', '
 "[('float', 'nan'), ('float', 'nan'), ('float', 'nan'), ('float', 'nan'), ('float', 'nan'), "
 "('float', 'nan'), ('float', 'nan'), ('float', 'nan'), ('float', 'nan'), ('float', 'nan'), "
 "('float', 'nan'), ('float', 'nan'), ('float', 'nan'), ('float', 'nan'), ('float', 'nan'), "
 "('float', 'nan'), ('float', 'nan'), ('float', 'nan'), ('float', 'nan'), ('float', 'nan'), "
 "('float', 'nan'), ('float', 'nan'), ('float', 'nan'), ('float', 'nan'), ('float', 'nan')]), "
 '(\'dict\', []))), ((\'str\', "\'origin_pixel\'"), (\'Variable\', (\'tuple\', []), (\'float\', '
 '\'nan\'), (\'dict\', []))), ((\'str\', "\'origin_line\'"), (\'Variable\', (\'tuple\', []), '
 '(\'float\', \'nan\'), (\'dict\', [])))]), (\'dict\', [((\'str\', "\'formula\'"), (\'str\', "\'φ '
 '= a0*L^4*P^4 + a1*L^3*P^4 + a2*L^2*P^4 + a3*L*P^4 + a4*P^4 + a5*L^4*P^3 + a6*L^3*P^3 + '
 'a7*L^2*P^3 + a8*L*P^3 + a9*P^3 + a10*L^4*P^2 + a11*L^3*P^2 + a12*L^2*P^2 + a13*L*P^2 + a14*P^2 + '
 'a15*L^4*P + a16*L^3*P + a17*L^2*P + a18*L*P + a19*P + a20*L^4 + a21*L^3 + a22*L^2 + a23*L + a24; '
 'λ = b0*L^4*P^4 + b1*L^3*P^4 + b2*L^2*P^4 + b3*L*P^4 + b4*P^4 + b5*L^4*P^3 + b6*L^3*P^3 + '
 'b7*L^2*P^3 + b8*L*P^3 + b9*P^3 + b10*L^4*P^2 + b11*L^3*P^2 + b12*L^2*P^2 + b13*L*P^2 + b14*P^2 + '
 'b15*L^4*P + b16*L^3*P + b17*L^2*P + b18*L*P + b19*P + b20*L^4 + b21*L^3 + b22*L^2 + b23*L + '
 'b24\'"))]))), ((\'str\', "\'geographic_to_image\'"), (\'Group\', '
 '\'/transformations/geographic_to_image\', None, (\'dict\', [((\'str\', "\'c\'"), (\'Variable\', '
 '(\'list\', [(\'str\', "\'high_precision_coeffs\'")]), (\'list\', [(\'float\', \'nan\'), '
 "('float', 'nan'), ('float', 'nan'), ('float', 'nan'), ('float', 'nan'), ('float', 'nan'), "
 "('float', 'nan'), ('float', 'nan'), ('float', 'nan'), ('float', 'nan'), ('float', 'nan'), "
 "('float', 'nan'), ('float', 'nan'), ('float', 'nan'), ('float', 'nan'), ('float', 'nan'), "
 "('float', 'nan'), ('float', 'nan'), ('float', 'nan'), ('float', 'nan'), ('float', 'nan'), "
 "('float', 'nan'), ('float', 'nan'), ('float', 'nan'), ('float', 'nan')]), ('dict', []))), "
 '((\'str\', "\'d\'"), (\'Variable\', (\'list\', [(\'str\', "\'high_precision_coeffs\'")]), '
 "('list', [('float', 'nan'), ('float', 'nan'), ('float', 'nan'), ('float', 'nan'), ('float', "
 "'nan'), ('float', 'nan'), ('float', 'nan'), ('float', 'nan'), ('float', 'nan'), ('float', "
 "'nan'), ('float', 'nan'), ('float', 'nan'), ('float', 'nan'), ('float', 'nan'), ('float', "
 "'nan'), ('float', 'nan'), ('float', 'nan'), ('float', 'nan'), ('float', 'nan'), ('float', "
 "'nan'), ('float', 'nan'), ('float', 'nan'), ('float', 'nan'), ('float', 'nan'), ('float', "
 '\'nan\')]), (\'dict\', []))), ((\'str\', "\'origin_latitude\'"), (\'Variable\', (\'tuple\', []), '
 '(\'float\', \'nan\'), (\'dict\', []))), ((\'str\', "\'origin_longitude\'"), (\'Variable\', '
 "('tuple', []), ('float', 'nan'), ('dict', [])))]), ('dict', [(('str', "
 '"\'formula\'"), (\'str\', "\'p = c0*Λ^4*Φ^4 + c1*Λ^3*Φ^4 + c2*Λ^2*Φ^4 + c3*Λ*Φ^4 + c4*Φ^4 + '
 'c5*Λ^4*Φ^3 + c6*Λ^3*Φ^3 + c7*Λ^2*Φ^3 + c8*Λ*Φ^3 + c9*Φ^3 + c10*Λ^4*Φ^2 + c11*Λ^3*Φ^2 + '
 'c12*Λ^2*Φ^2 + c13*Λ*Φ^2 + c14*Φ^2 + c15*Λ^4*Φ + c16*Λ^3*Φ + c17*Λ^2*Φ + c18*Λ*Φ + c19*Φ; l = '
 'd0*Λ^4*Φ^4 + d1*Λ^3*Φ^4 + d2*Λ^2*Φ^4 + d3*Λ*Φ^4 + d4*Φ^4 + d5*Λ^4*Φ^3 + d6*Λ^3*Φ^3 + d7*Λ^2*Φ^3 '
 '+ d8*Λ*Φ^3 + d9*Φ^3 + d10*Λ^4*Φ^2 + d11*Λ^3*Φ^2 + d12*Λ^2*Φ^2 + d13*Λ*Φ^2 + d14*Φ^2 + d15*Λ^4*Φ '
 '+ d16*Λ^3*Φ + d17*Λ^2*Φ + d18*Λ*Φ + d19*Φ + d20*Λ^4 + d21*Λ^3 + d22*Λ^2 + d23*Λ + '
 'd24\'"))])))]), (\'dict\', [((\'str\', "\'calibration_mode_data_location_flag\'"), '
 '(\'EnumInteger\', \'-1\')), ((\'str\', "\'prf_switching\'"), (\'bool\', \'True\')), ((\'str\', '
 '"\'start_line_number_of_prf_switching\'"), (\'int\', \'-1\'))])))]), (\'dict\', [])))',
 '(\'returns\', (\'Group\', \'/\', None, (\'dict\', [((\'str\', "\'dataset_summary\'"), '
 '(\'Group\', \'/dataset_summary\', None, (\'dict\', [((\'str\', "\'geodetic_latitude\'"), '
 '(\'Variable\', (\'tuple\', []), (\'float\', \'nan\'), (\'dict\', [((\'str\', "\'units\'"), '
 '(\'str\', "\'deg\'"))]))), ((\'str\', "\'geodetic_longitude\'"), (\'Variable\', (\'tuple\', []), '
 '(\'float\', \'nan\'), (\'dict\', [((\'str\', "\'units\'"), (\'str\', "\'deg\'"))]))), ((\'str\', '
 '"\'processed_scene_center_true_heading\'"), (\'Variable\', (\'tuple\', []), (\'float\', '
 '\'nan\'), (\'dict\', [((\'str\', "\'units\'"), (\'str\', "\'deg\'"))]))), ((\'str\', '
 '"\'ellipsoid_semimajor_axis\'"), (\'Variable\', (\'tuple\', []), (\'float\', \'nan\'), '
 '(\'dict\', [((\'str\', "\'units\'"), (\'str\', "\'km\'"))]))), ((\'str\', '
 '"\'ellipsoid_semiminor_axis\'"), (\'Variable\', (\'tuple\', []), (\'float\', \'nan\'), '
 '(\'dict\', [((\'str\', "\'units\'"), (\'str\', "\'km\'"))]))), ((\'str\', "\'earth_mass\'"), '
 '(\'Variable\', (\'tuple\', []), (\'float\', \'nan\'), (\'dict\', [((\'str\', "\'units\'"), '
 '(\'str\', "\'kg\'"))]))), ((\'str\', "\'gravitational_constant\'"), (\'Variable\', (\'tuple\', '
 '[]), (\'float\', \'nan\'), (\'dict\', [((\'str\', "\'units\'"), (\'str\', "\'m^3 / s^2\'"))]))), '
 '((\'str\', "\'sensor_platform_geodetic_latitude_at_nadir_corresponding_to_scene_center\'"), '
 '(\'Variable\', (\'tuple\', []), (\'float\', \'nan\'), (\'dict\', [((\'str\', "\'units\'"), '
 '(\'str\', "\'deg\'"))]))), ((\'str\', '
 '"\'sensor_platform_geodetic_longitude_at_nadir_corresponding_to_scene_center\'"), (\'Variable\', '
 '(\'tuple\', []), (\'float\', \'nan\'), (\'dict\', [((\'str\', "\'units\'"), (\'str\', '
 '"\'deg\'"))]))), ((\'str\', '
 '"\'sensor_platform_heading_at_nadir_corresponding_to_scene_center\'"), (\'Variable\', '
 '(\'tuple\', []), (\'float\', \'nan\'), (\'dict\', [((\'str\', "\'units\'"), (\'str\', '
 '"\'deg\'"))]))), ((\'str\', '
 '"\'sensor_clock_angle_as_measured_relative_to_sensor_platform_flight_direction\'"), '
 '(\'Variable\', (\'tuple\', []), (\'float\', \'nan\'), (\'dict\', [((\'str\', "\'units\'"), '
 '(\'str\', "\'deg\'"))]))), ((\'str\', "\'incidence_angle_at_scene_center\'"), (\'Variable\', '
 '(\'tuple\', []), (\'float\', \'nan\'), (\'dict\', [((\'str\', "\'units\'"), (\'str\', '
 '"\'deg\'"))]))), ((\'str\', "\'nominal_radar_wavelength\'"), (\'Variable\', (\'tuple\', []), '
 '(\'float\', \'nan\'), (\'dict\', [((\'str\', "\'units\'"), (\'str\', "\'m\'"))]))), ((\'str\', '
 '"\'sampling_rate\'"), (\'Variable\', (\'tuple\', []), (\'float\', \'nan\'), (\'dict\', '
 '[((\'str\', "\'units\'"), (\'str\', "\'MHz\'"))]))), ((\'str\', "\'range_gate\'"), '
 '(\'Variable\', (\'tuple\', []), (\'float\', \'nan\'), (\'dict\', [((\'str\', "\'units\'"), '
 '(\'str\', "\'µs\'"))]))), ((\'str\', "\'range_pulse_width\'"), (\'Variable\', (\'tuple\', []), '
 '(\'float\', \'nan\'), (\'dict\', [((\'str\', "\'units\'"), (\'str\', "\'µs\'"))]))), ((\'str\', '
 '"\'prf\'"), (\'Variable\', (\'tuple\', []), (\'float\', \'nan\'), (\'dict\', [((\'str\', '
 '"\'units\'"), (\'str\', "\'mHz\'"))]))), ((\'str\', "\'two_way_antenna_beam_width_elevation\'"), '
 '(\'Variable\', (\'tuple\', []), (\'float\', \'nan\'), (\'dict\', [((\'str\', "\'units\'"), '
 '(\'str\', "\'deg\'"))]))), ((\'str\', "\'two_way_antenna_beam_width_azimuth\'"), (\'Variable\', '
 '(\'tuple\', []), (\'float\', \'nan\'), (\'dict\', [((\'str\', "\'units\'"), (\'str\', '
 '"\'deg\'"))]))), ((\'str\', "\'satellite_clock_increment\'"), (\'Variable\', (\'tuple\', []), '
 '(\'int\', \'-1\'), (\'dict\', [((\'str\', "\'units\'"), (\'str\', "\'ns\'"))]))), ((\'str\', '
 '"\'bandwidth_per_look_in_azimuth\'"), (\'Variable\', (\'tuple\', []), (\'float\', \'nan\'), '
 '(\'dict\', [((\'str\', "\'units\'"), (\'str\', "\'Hz\'"))]))), ((\'str\', '
 '"\'bandwidth_per_look_in_range\'"), (\'Variable\', (\'tuple\', []), (\'float\', \'nan\'), '
 '(\'dict\', [((\'str\', "\'units\'"), (\'str\', "\'Hz\'"))]))), ((\'str\', '
 '"\'bandwidth_in_azimuth\'"), (\'Variable\', (\'tuple\', []), (\'float\', \'nan\'), (\'dict\', '
 '[((\'str\', "\'units\'"), (\'str\', "\'Hz\'"))]))), ((\'str\', "\'bandwidth_in_range\'"), '
 '(\'Variable\', (\'tuple\', []), (\'float\', \'nan\'), (\'dict\', [((\'str\', "\'units\'"), '
 '(\'str\', "\'kHz\'"))]))), ((\'str\', "\'resolution_in_ground_range\'"), (\'Variable\', '
 '(\'tuple\', []), (\'float\', \'nan\'), (\'dict\', [((\'str\', "\'units\'"), (\'str\', '
 '"\'m\'"))]))), ((\'str\', "\'resolution_in_azimuth\'"), (\'Variable\', (\'tuple\', []), '
 '(\'float\', \'nan\'), (\'dict\', [((\'str\', "\'units\'"), (\'str\', "\'m\'"))]))), ((\'str\', '
 '"\'line_spacing\'"), (\'Variable\', (\'tuple\', []), (\'float\', \'nan\'), (\'dict\', '
 '[((\'str\', "\'units\'"), (\'str\', "\'m\'"))]))), ((\'str\', "\'pixel_spacing\'"), '
 '(\'Variable\', (\'tuple\', []), (\'float\', \'nan\'), (\'dict\', [((\'str\', "\'units\'"), '
 '(\'str\', "\'m\'"))]))), ((\'str\', '
 '"\'doppler_frequency_approximately_constant_coefficient_term\'"), (\'Variable\', (\'tuple\', '
 '[]), (\'float\', \'nan\'), (\'dict\', [((\'str\', "\'units\'"), (\'str\', "\'Hz\'"))]))), '
 '((\'str\', "\'doppler_frequency_approximately_linear_coefficient_term\'"), (\'Variable\', '
 '(\'tuple\', []), (\'float\', \'nan\'), (\'dict\', [((\'str\', "\'units\'"), (\'str\', '
 '"\'Hz/km\'"))]))), ((\'str\', "\'direction_of_a_beam_center_in_a_scene_center\'"), '
 '(\'Variable\', (\'tuple\', []), (\'float\', \'nan\'), (\'dict\', [((\'str\', "\'units\'"), '
 '(\'str\', "\'deg\'"))]))), ((\'str\', "\'range_pulse_amplitude_coefficients\'"), (\'Group\', '
 "'/dataset_summary/range_pulse_amplitude_coefficients', None, ('dict', []), ('dict', [(('str', "
 '"\'coefficient_1\'"), (\'float\', \'nan\')), ((\'str\', "\'coefficient_2\'"), (\'float\', '
 '\'nan\')), ((\'str\', "\'coefficient_3\'"), (\'float\', \'nan\')), ((\'str\', '
 '"\'coefficient_4\'"), (\'float\', \'nan\')), ((\'str\', "\'coefficient_5\'"), (\'float\', '
 '\'nan\'))]))), ((\'str\', "\'along_track_doppler_frequency_center\'"), (\'Group\', '
 "'/dataset_summary/along_track_doppler_frequency_center', None, ('dict', [(('str', "
 '"\'constant_term_at_early_edge_of_the_image\'"), (\'Variable\', (\'tuple\', []), (\'float\', '
 '\'nan\'), (\'dict\', [((\'str\', "\'units\'"), (\'str\', "\'Hz\'"))]))), ((\'str\', '
 '"\'linear_coefficient_terms_at_early_edge_of_the_image\'"), (\'Variable\', (\'tuple\', []), '
 '(\'float\', \'nan\'), (\'dict\', [((\'str\', "\'units\'"), (\'str\', "\'Hz/px\'"))]))), '
 '((\'str\', "\'quadratic_coefficient_terms_at_early_edge_of_the_image\'"), (\'Variable\', '
 '(\'tuple\', []), (\'float\', \'nan\'), (\'dict\', [((\'str\', "\'units\'"), (\'str\', '
 '"\'Hz/px^2\'"))])))]), (\'dict\', []))), ((\'str\', "\'cross_track_doppler_frequency_center\'"), '
 "('Group', '/dataset_summary/cross_track_doppler_frequency_center', None, ('dict', [(('str', "
 '"\'constant_term_at_early_edge_of_the_image\'"), (\'Variable\', (\'tuple\', []), (\'float\', '
 '\'nan\'), (\'dict\', [((\'str\', "\'units\'"), (\'str\', "\'Hz\'"))]))), ((\'str\', '
 '"\'linear_coefficient_terms_at_early_edge_of_the_image\'"), (\'Variable\', (\'tuple\', []), '
 '(\'float\', \'nan\'), (\'dict\', [((\'str\', "\'units\'"), (\'str\', "\'Hz/px\'"))]))), '
 '((\'str\', "\'quadratic_coefficient_terms_at_early_edge_of_the_image\'"), (\'Variable\', '
 '(\'tuple\', []), (\'float\', \'nan\'), (\'dict\', [((\'str\', "\'units\'"), (\'str\', '
 '"\'Hz/px^2\'"))])))]), (\'dict\', []))), ((\'str\', "\'along_track_doppler_frequency_rate\'"), '
 "('Group', '/dataset_summary/along_track_doppler_frequency_rate', None, ('dict', [(('str', "
 '"\'constant_terms_at_early_edge_of_the_image\'"), (\'Variable\', (\'tuple\', []), (\'float\', '
 '\'nan\'), (\'dict\', [((\'str\', "\'units\'"), (\'str\', "\'Hz/s\'"))]))), ((\'str\', '
 '"\'linear_coefficient_at_early_edge_of_the_image\'"), (\'Variable\', (\'tuple\', []), '
 '(\'float\', \'nan\'), (\'dict\', [((\'str\', "\'units\'"), (\'str\', "\'Hz/s/px\'"))]))), '
 '((\'str\', "\'quadratic_coefficient_at_early_edge_of_the_image\'"), (\'Variable\', (\'tuple\', '
 '[]), (\'float\', \'nan\'), (\'dict\', [((\'str\', "\'units\'"), (\'str\', '
 '"\'Hz/s/px^2\'"))])))]), (\'dict\', []))), ((\'str\', "\'cross_track_doppler_frequency_rate\'"), '
 "('Group', '/dataset_summary/cross_track_doppler_frequency_rate', None, ('dict', [(('str', "
 '"\'constant_terms_at_early_edge_of_the_image\'"), (\'Variable\', (\'tuple\', []), (\'float\', '
 '\'nan\'), (\'dict\', [((\'str\', "\'units\'"), (\'str\', "\'Hz/s\'"))]))), ((\'str\', '
 '"\'linear_coefficient_at_early_edge_of_the_image\'"), (\'Variable\', (\'tuple\', []), '
 '(\'float\', \'nan\'), (\'dict\', [((\'str\', "\'units\'"), (\'str\', "\'Hz/s/px\'"))]))), '
 '((\'str\', "\'quadratic_coefficient_at_early_edge_of_the_image\'"), (\'Variable\', (\'tuple\', '
 '[]), (\'float\', \'nan\'), (\'dict\', [((\'str\', "\'units\'"), (\'str\', '
 '"\'Hz/s/px^2\'"))])))]), (\'dict\', []))), ((\'str\', "\'calibration_at_the_side_of_start\'"), '
 "('Group', '/dataset_summary/calibration_at_the_side_of_start', None, ('dict', []), ('dict', "
 '[((\'str\', "\'start_line_number\'"), (\'int\', \'-1\')), ((\'str\', "\'end_line_number\'"), '
 '(\'int\', \'-1\'))]))), ((\'str\', "\'calibration_at_the_side_of_end\'"), (\'Group\', '
 "'/dataset_summary/calibration_at_the_side_of_end', None, ('dict', []), ('dict', [(('str', "
 '"\'start_line_number\'"), (\'int\', \'-1\')), ((\'str\', "\'end_line_number\'"), (\'int\', '
 '\'-1\'))]))), ((\'str\', "\'incidence_angle\'"), (\'Group\', '
 '\'/dataset_summary/incidence_angle\', None, (\'dict\', [((\'str\', "\'constant_term\'"), '
 '(\'Variable\', (\'tuple\', []), (\'float\', \'nan\'), (\'dict\', [((\'str\', "\'units\'"), '
 '(\'str\', "\'rad\'"))]))), ((\'str\', "\'linear_term\'"), (\'Variable\', (\'tuple\', []), '
 '(\'float\', \'nan\'), (\'dict\', [((\'str\', "\'units\'"), (\'str\', "\'rad/km\'"))]))), '
 '((\'str\', "\'quadratic_term\'"), (\'Variable\', (\'tuple\', []), (\'float\', \'nan\'), '
 '(\'dict\', [((\'str\', "\'units\'"), (\'str\', "\'rad/km^2\'"))]))), ((\'str\', '
 '"\'cubic_term\'"), (\'Variable\', (\'tuple\', []), (\'float\', \'nan\'), (\'dict\', [((\'str\', '
 '"\'units\'"), (\'str\', "\'rad/km^3\'"))]))), ((\'str\', "\'fourth_term\'"), (\'Variable\', '
 '(\'tuple\', []), (\'float\', \'nan\'), (\'dict\', [((\'str\', "\'units\'"), (\'str\', '
 '"\'rad/km^4\'"))]))), ((\'str\', "\'fifth_term\'"), (\'Variable\', (\'tuple\', []), (\'float\', '
 '\'nan\'), (\'dict\', [((\'str\', "\'units\'"), (\'str\', "\'rad/km^5\'"))])))]), (\'dict\', '
 '[((\'str\', "\'formula\'"), (\'str\', "\'θ = a0 + a1*R + a2*R^2 + a3*R^3 + a4*R^4 + a5*R^5\'")), '
 '((\'str\', "\'theta\'"), (\'str\', "\'incidence angle\'")), ((\'str\', "\'r\'"), (\'str\', '
 '"\'slant range\'"))])))]), (\'dict\', [((\'str\', "\'scene_id\'"), (\'str\', '
 '"\'ALOS2310000000-200229\'")), ((\'str\', "\'scene_center_time\'"), (\'str\', '
 '"\'2020-02-29T12:00:00.500000\'")), ((\'str\', "\'ellipsoid_designator\'"), (\'str\', "\'\'")), '
 '((\'str\', "\'ellipsoid_j2_parameter\'"), (\'float\', \'nan\')), ((\'str\', '
 '"\'ellipsoid_j3_parameter\'"), (\'float\', \'nan\')), ((\'str\', "\'ellipsoid_j4_parameter\'"), '
 '(\'float\', \'nan\')), ((\'str\', "\'scene_center_line_number\'"), (\'int\', \'-1\')), '
 '((\'str\', "\'scene_center_pixel_number\'"), (\'int\', \'-1\')), ((\'str\', '
 '"\'number_of_sar_channel\'"), (\'int\', \'-1\')), ((\'str\', '
 '"\'sensor_platform_mission_identifier\'"), (\'str\', "\'\'")), ((\'str\', '
 '"\'sensor_id_and_operation_mode\'"), (\'str\', "\'\'")), ((\'str\', '
 '"\'orbit_number_or_flight_line_indicator\'"), (\'int\', \'-1\')), ((\'str\', '
 '"\'motion_compensation_indicator\'"), (\'EnumInteger\', \'-1\')), ((\'str\', '
 '"\'range_pulse_code\'"), (\'str\', "\'\'")), ((\'str\', '
 '"\'down_linked_data_chirp_extraction_index\'"), (\'int\', \'-1\')), ((\'str\', '
 '"\'base_band_conversion_flag\'"), (\'str\', "\'yes\'")), ((\'str\', '
 '"\'range_compression_flag\'"), (\'str\', "\'no\'")), ((\'str\', '
 '"\'receiver_gain_for_like_polarized_at_early_edge_at_the_start_of_the_image\'"), (\'float\', '
 "'nan')), (('str', "
 '"\'receiver_gain_for_cross_polarized_at_early_edge_at_the_start_of_the_image\'"), (\'float\', '
 '\'nan\')), ((\'str\', "\'quantization_in_bits_per_channel\'"), (\'int\', \'-1\')), ((\'str\', '
 '"\'quantized_descriptor\'"), (\'str\', "\'\'")), ((\'str\', "\'dc_bias_for_I_component\'"), '
 '(\'float\', \'nan\')), ((\'str\', "\'dc_bias_for_Q_component\'"), (\'float\', \'nan\')), '
 '((\'str\', "\'gain_imbalance_for_I_and_Q\'"), (\'float\', \'nan\')), ((\'str\', '
 '"\'electronic_boresight\'"), (\'float\', \'nan\')), ((\'str\', "\'mechanical_boresight\'"), '
 '(\'float\', \'nan\')), ((\'str\', "\'echo_tracker_status\'"), (\'str\', "\'on\'")), ((\'str\', '
 '"\'satellite_encoded_binary_time_code\'"), (\'int\', \'-1\')), ((\'str\', '
 '"\'satellite_clock_time\'"), (\'str\', "\'\'")), ((\'str\', "\'processing_facility_id\'"), '
 '(\'str\', "\'\'")), ((\'str\', "\'processing_system_id\'"), (\'str\', "\'\'")), ((\'str\', '
 '"\'processing_version_id\'"), (\'str\', "\'\'")), ((\'str\', "\'product_level_code\'"), '
 '(\'str\', "\'\'")), ((\'str\', "\'product_type_specifier\'"), (\'str\', "\'\'")), ((\'str\', '
 '"\'number_of_looks_in_azimuth\'"), (\'float\', \'nan\')), ((\'str\', '
 '"\'number_of_looks_in_range\'"), (\'float\', \'nan\')), ((\'str\', '
 '"\'weighting_function_in_azimuth\'"), (\'str\', "\'rectangle\'")), ((\'str\', '
 '"\'weighting_function_in_range\'"), (\'str\', "\'rectangle\'")), ((\'str\', '
 '"\'data_input_source\'"), (\'str\', "\'\'")), ((\'str\', '
 '"\'time_direction_indicator_along_line_direction\'"), (\'str\', "\'\'")), ((\'str\', '
 '"\'line_content_indicator\'"), (\'str\', "\'\'")), ((\'str\', "\'clutter_lock_applied_flag\'"), '
 '(\'str\', "\'off\'")), ((\'str\', "\'auto_focusing_applied_flag\'"), (\'str\', "\'yes\'")), '
 '((\'str\', "\'processor_range_compression_designator\'"), (\'str\', "\'\'")), ((\'str\', '
 '"\'calibration_mode_data_location_flag\'"), (\'int\', \'-1\')), ((\'str\', '
 '"\'prf_switching_indicator\'"), (\'int\', \'-1\')), ((\'str\', '
 '"\'line_number_of_prf_switching\'"), (\'int\', \'-1\')), ((\'str\', '
 '"\'yaw_steering_mode_flag\'"), (\'int\', \'-1\')), ((\'str\', "\'nominal_off_nadir_angle\'"), '
 '(\'float\', \'nan\')), ((\'str\', "\'antenna_beam_number\'"), (\'int\', \'-1\'))]))), ((\'str\', '
 '"\'map_projection\'"), (\'Group\', \'/map_projection\', None, (\'dict\', [((\'str\', '
 '"\'general_information\'"), (\'Group\', \'/map_projection/general_information\', None, '
 '(\'dict\', [((\'str\', "\'inter_line_distance_in_output_scene\'"), (\'Variable\', (\'tuple\', '
 '[]), (\'float\', \'nan\'), (\'dict\', [((\'str\', "\'units\'"), (\'str\', "\'m\'"))]))), '
 '((\'str\', "\'inter_pixel_distance_in_output_scene\'"), (\'Variable\', (\'tuple\', []), '
 '(\'float\', \'nan\'), (\'dict\', [((\'str\', "\'units\'"), (\'str\', "\'m\'"))]))), ((\'str\', '
 '"\'angle_between_projection_aixs_from_true_north_at_processed_scene_center\'"), (\'Variable\', '
 '(\'tuple\', []), (\'float\', \'nan\'), (\'dict\', [((\'str\', "\'units\'"), (\'str\', '
 '"\'deg\'"))]))), ((\'str\', "\'actual_platform_orbital_inclination\'"), (\'Variable\', '
 '(\'tuple\', []), (\'float\', \'nan\'), (\'dict\', [((\'str\', "\'units\'"), (\'str\', '
 '"\'deg\'"))]))), ((\'str\', "\'actual_ascending_node\'"), (\'Variable\', (\'tuple\', []), '
 '(\'float\', \'nan\'), (\'dict\', [((\'str\', "\'units\'"), (\'str\', "\'deg\'"))]))), ((\'str\', '
 '"\'distance_of_platform_at_input_scene_center_from_geocenter\'"), (\'Variable\', (\'tuple\', '
 '[]), (\'float\', \'nan\'), (\'dict\', [((\'str\', "\'units\'"), (\'str\', "\'m\'"))]))), '
 '((\'str\', "\'geodetic_altitude_of_the_platform_relative_to_the_ellipsoid\'"), (\'Variable\', '
 '(\'tuple\', []), (\'float\', \'nan\'), (\'dict\', [((\'str\', "\'units\'"), (\'str\', '
 '"\'m\'"))]))), ((\'str\', "\'actual_ground_speed_at_nadir_at_input_scene_center_time\'"), '
 '(\'Variable\', (\'tuple\', []), (\'float\', \'nan\'), (\'dict\', [((\'str\', "\'units\'"), '
 '(\'str\', "\'m/s\'"))]))), ((\'str\', "\'platform_headings\'"), (\'Variable\', (\'tuple\', []), '
 '(\'float\', \'nan\'), (\'dict\', [((\'str\', "\'units\'"), (\'str\', "\'deg\'"))])))]), '
 '(\'dict\', [((\'str\', "\'map_projection_type\'"), (\'str\', "\'\'")), ((\'str\', '
 '"\'n_columns\'"), (\'int\', \'-1\')), ((\'str\', "\'n_rows\'"), (\'int\', \'25000\'))]))), '
 '((\'str\', "\'ellipsoid_parameters\'"), (\'Group\', \'/map_projection/ellipsoid_parameters\', '
 'None, (\'dict\', [((\'str\', "\'semimajor_axis\'"), (\'Variable\', (\'tuple\', []), (\'float\', '
 '\'nan\'), (\'dict\', [((\'str\', "\'units\'"), (\'str\', "\'m\'"))]))), ((\'str\', '
 '"\'semiminor_axis\'"), (\'Variable\', (\'tuple\', []), (\'float\', \'nan\'), (\'dict\', '
 '[((\'str\', "\'units\'"), (\'str\', "\'m\'"))])))]), (\'dict\', [((\'str\', '
 '"\'reference_ellipsoid\'"), (\'str\', "\'\'"))]))), ((\'str\', "\'corner_points\'"), (\'Group\', '
 '\'/map_projection/corner_points\', None, (\'dict\', [((\'str\', "\'projected\'"), (\'Group\', '
 '\'/map_projection/corner_points/projected\', None, (\'dict\', [((\'str\', "\'corner\'"), '
 '(\'Variable\', (\'list\', [(\'str\', "\'corner\'")]), (\'list\', [(\'str\', "\'top_left\'"), '
 '(\'str\', "\'top_right\'"), (\'str\', "\'bottom_right\'"), (\'str\', "\'bottom_left\'")]), '
 '(\'dict\', []))), ((\'str\', "\'northing\'"), (\'Variable\', (\'list\', [(\'str\', '
 '"\'corner\'")]), (\'list\', [(\'float\', \'nan\'), (\'float\', \'nan\'), (\'float\', \'nan\'), '
 '(\'float\', \'nan\')]), (\'dict\', [((\'str\', "\'units\'"), (\'str\', "\'km\'"))]))), '
 '((\'str\', "\'easting\'"), (\'Variable\', (\'list\', [(\'str\', "\'corner\'")]), (\'list\', '
 "[('float', 'nan'), ('float', 'nan'), ('float', 'nan'), ('float', 'nan')]), ('dict', [(('str', "
 '"\'units\'"), (\'str\', "\'km\'"))])))]), (\'dict\', []))), ((\'str\', "\'geographic\'"), '
 "('Group', '/map_projection/corner_points/geographic', None, ('dict', [(('str', "
 '"\'corner\'"), (\'Variable\', (\'list\', [(\'str\', "\'corner\'")]), (\'list\', [(\'str\', '
 '"\'top_left\'"), (\'str\', "\'top_right\'"), (\'str\', "\'bottom_right\'"), (\'str\', '
 '"\'bottom_left\'")]), (\'dict\', []))), ((\'str\', "\'latitude\'"), (\'Variable\', (\'list\', '
 '[(\'str\', "\'corner\'")]), (\'list\', [(\'float\', \'nan\'), (\'float\', \'nan\'), (\'float\', '
 '\'nan\'), (\'float\', \'nan\')]), (\'dict\', [((\'str\', "\'units\'"), (\'str\', '
 '"\'deg\'"))]))), ((\'str\', "\'longitude\'"), (\'Variable\', (\'list\', [(\'str\', '
 '"\'corner\'")]), (\'list\', [(\'float\', \'nan\'), (\'float\', \'nan\'), (\'float\', \'nan\'), '
 '(\'float\', \'nan\')]), (\'dict\', [((\'str\', "\'units\'"), (\'str\', "\'deg\'"))])))]), '
 '(\'dict\', [])))]), (\'dict\', []))), ((\'str\', "\'conversion_coefficients\'"), (\'Group\', '
 "'/map_projection/conversion_coefficients', None, ('dict', [(('str', "
 '"\'projected_to_image\'"), (\'Group\', '
 "'/map_projection/conversion_coefficients/projected_to_image', None, ('dict', [(('str', "
 '"\'names\'"), (\'Variable\', (\'list\', [(\'str\', "\'names\'")]), (\'list\', [(\'str\', '
 '"\'A11\'"), (\'str\', "\'A12\'"), (\'str\', "\'A13\'"), (\'str\', "\'A14\'"), (\'str\', '
 '"\'A21\'"), (\'str\', "\'A22\'"), (\'str\', "\'A23\'"), (\'str\', "\'A24\'")]), (\'dict\', '
 '[]))), ((\'str\', "\'coefficients\'"), (\'Variable\', (\'list\', [(\'str\', "\'names\'")]), '
 "('list', [('float', 'nan'), ('float', 'nan'), ('float', 'nan'), ('float', 'nan'), ('float', "
 "'nan'), ('float', 'nan'), ('float', 'nan'), ('float', 'nan')]), ('dict', [])))]), ('dict', "
 '[((\'str\', "\'formula\'"), (\'str\', "\'E = A11 + A12 * R + A13 * C + A14 * R * C; N = A21 + '
 'A22 * R + A23 * C + A24 * R * C\'")), ((\'str\', "\'E\'"), (\'str\', "\'easting\'")), ((\'str\', '
 '"\'N\'"), (\'str\', "\'northing\'")), ((\'str\', "\'R\'"), (\'str\', "\'row (1-based)\'")), '
 '((\'str\', "\'C\'"), (\'str\', "\'column (1-based)\'"))]))), ((\'str\', '
 '"\'image_to_projected\'"), (\'Group\', '
 "'/map_projection/conversion_coefficients/image_to_projected', None, ('dict', [(('str', "
 '"\'names\'"), (\'Variable\', (\'list\', [(\'str\', "\'names\'")]), (\'list\', [(\'str\', '
 '"\'B11\'"), (\'str\', "\'B12\'"), (\'str\', "\'B13\'"), (\'str\', "\'B14\'"), (\'str\', '
 '"\'B21\'"), (\'str\', "\'B22\'"), (\'str\', "\'B23\'"), (\'str\', "\'B24\'")]), (\'dict\', '
 '[]))), ((\'str\', "\'coefficients\'"), (\'Variable\', (\'list\', [(\'str\', "\'names\'")]), '
 "('list', [('float', 'nan'), ('float', 'nan'), ('float', 'nan'), ('float', 'nan'), ('float', "
 "'nan'), ('float', 'nan'), ('float', 'nan'), ('float', 'nan')]), ('dict', [])))]), ('dict', "
 '[((\'str\', "\'formula\'"), (\'str\', "\'R = B11 + B12 * E + B13 * N + B14 * E * N; C = B21 + '
 'B22 * E + B23 * N + B24 * E * N\'")), ((\'str\', "\'E\'"), (\'str\', "\'easting\'")), ((\'str\', '
 '"\'N\'"), (\'str\', "\'northing\'")), ((\'str\', "\'R\'"), (\'str\', "\'row (1-based)\'")), '
 '((\'str\', "\'C\'"), (\'str\', "\'column (1-based)\'"))])))]), (\'dict\', [])))]), (\'dict\', '
 '[]))), ((\'str\', "\'platform_position\'"), (\'Group\', \'/platform_position\', None, (\'dict\', '
 '[((\'str\', "\'sampling_frequency\'"), (\'Variable\', (\'tuple\', []), (\'float\', \'60.0\'), '
 '(\'dict\', [((\'str\', "\'units\'"), (\'str\', "\'s\'"))]))), ((\'str\', '
 '"\'orbital_elements\'"), (\'Group\', \'/platform_position/orbital_elements\', None, (\'dict\', '
 '[((\'str\', "\'position\'"), (\'Group\', \'/platform_position/orbital_elements/position\', None, '
 '(\'dict\', [((\'str\', "\'x\'"), (\'Variable\', (\'tuple\', []), (\'float\', \'1.0\'), '
 '(\'dict\', [((\'str\', "\'units\'"), (\'str\', "\'m\'"))]))), ((\'str\', "\'y\'"), '
 '(\'Variable\', (\'tuple\', []), (\'float\', \'2.0\'), (\'dict\', [((\'str\', "\'units\'"), '
 '(\'str\', "\'m\'"))]))), ((\'str\', "\'z\'"), (\'Variable\', (\'tuple\', []), (\'float\', '
 '\'3.0\'), (\'dict\', [((\'str\', "\'units\'"), (\'str\', "\'m\'"))])))]), (\'dict\', []))), '
 '((\'str\', "\'velocity\'"), (\'Group\', \'/platform_position/orbital_elements/velocity\', None, '
 '(\'dict\', [((\'str\', "\'x\'"), (\'Variable\', (\'tuple\', []), (\'float\', \'4.0\'), '
 '(\'dict\', [((\'str\', "\'units\'"), (\'str\', "\'m/s\'"))]))), ((\'str\', "\'y\'"), '
 '(\'Variable\', (\'tuple\', []), (\'float\', \'5.0\'), (\'dict\', [((\'str\', "\'units\'"), '
 '(\'str\', "\'m/s\'"))]))), ((\'str\', "\'z\'"), (\'Variable\', (\'tuple\', []), (\'float\', '
 '\'6.0\'), (\'dict\', [((\'str\', "\'units\'"), (\'str\', "\'m/s\'"))])))]), (\'dict\', [])))]), '
 '(\'dict\', [((\'str\', "\'type\'"), (\'str\', "\'high_precision\'"))]))), ((\'str\', '
 '"\'nominal_error\'"), (\'Group\', \'/platform_position/nominal_error\', None, (\'dict\', '
 '[((\'str\', "\'position\'"), (\'Group\', \'/platform_position/nominal_error/position\', None, '
 '(\'dict\', [((\'str\', "\'along_track\'"), (\'Variable\', (\'tuple\', []), (\'float\', \'0.1\'), '
 '(\'dict\', [((\'str\', "\'units\'"), (\'str\', "\'m\'"))]))), ((\'str\', "\'across_track\'"), '
 '(\'Variable\', (\'tuple\', []), (\'float\', \'0.2\'), (\'dict\', [((\'str\', "\'units\'"), '
 '(\'str\', "\'m\'"))]))), ((\'str\', "\'radial\'"), (\'Variable\', (\'tuple\', []), (\'float\', '
 '\'0.3\'), (\'dict\', [((\'str\', "\'units\'"), (\'str\', "\'m\'"))])))]), (\'dict\', []))), '
 '((\'str\', "\'velocity\'"), (\'Group\', \'/platform_position/nominal_error/velocity\', None, '
 '(\'dict\', [((\'str\', "\'along_track\'"), (\'Variable\', (\'tuple\', []), (\'float\', \'0.4\'), '
 '(\'dict\', [((\'str\', "\'units\'"), (\'str\', "\'m/s\'"))]))), ((\'str\', "\'across_track\'"), '
 '(\'Variable\', (\'tuple\', []), (\'float\', \'0.5\'), (\'dict\', [((\'str\', "\'units\'"), '
 '(\'str\', "\'m/s\'"))]))), ((\'str\', "\'radial\'"), (\'Variable\', (\'tuple\', []), (\'float\', '
 '\'0.6\'), (\'dict\', [((\'str\', "\'units\'"), (\'str\', "\'m/s\'"))])))]), (\'dict\', [])))]), '
 '(\'dict\', []))), ((\'str\', "\'positions\'"), (\'Group\', \'/platform_position/positions\', '
 'None, (\'dict\', [((\'str\', "\'position\'"), (\'Group\', '
 '\'/platform_position/positions/position\', None, (\'dict\', [((\'str\', "\'x\'"), (\'Variable\', '
 '(\'list\', [(\'str\', "\'positions\'")]), (\'list\', [(\'float\', \'1000000.0\'), (\'float\', '
 "'1000001.0'), ('float', '1000002.0'), ('float', '1000003.0'), ('float', '1000004.0'), ('float', "
 "'1000005.0'), ('float', '1000006.0'), ('float', '1000007.0'), ('float', '1000008.0'), ('float', "
 "'1000009.0'), ('float', '1000010.0'), ('float', '1000011.0'), ('float', '1000012.0'), ('float', "
 "'1000013.0'), ('float', '1000014.0'), ('float', '1000015.0'), ('float', '1000016.0'), ('float', "
 "'1000017.0'), ('float', '1000018.0'), ('float', '1000019.0'), ('float', '1000020.0'), ('float', "
 "'1000021.0'), ('float', '1000022.0'), ('float', '1000023.0'), ('float', '1000024.0'), ('float', "
 "'1000025.0'), ('float', '1000026.0'), ('float', '1000027.0')]), ('dict', [(('str', "
 '"\'units\'"), (\'str\', "\'m\'"))]))), ((\'str\', "\'y\'"), (\'Variable\', (\'list\', [(\'str\', '
 '"\'positions\'")]), (\'list\', [(\'float\', \'2000000.0\'), (\'float\', \'1999999.0\'), '
 "('float', '1999998.0'), ('float', '1999997.0'), ('float', '1999996.0'), ('float', '1999995.0'), "
 "('float', '1999994.0'), ('float', '1999993.0'), ('float', '1999992.0'), ('float', '1999991.0'), "
 "('float', '1999990.0'), ('float', '1999989.0'), ('float', '1999988.0'), ('float', '1999987.0'), "
 "('float', '1999986.0'), ('float', '1999985.0'), ('float', '1999984.0'), ('float', '1999983.0'), "
 "('float', '1999982.0'), ('float', '1999981.0'), ('float', '1999980.0'), ('float', '1999979.0'), "
 "('float', '1999978.0'), ('float', '1999977.0'), ('float', '1999976.0'), ('float', '1999975.0'), "
 '(\'float\', \'1999974.0\'), (\'float\', \'1999973.0\')]), (\'dict\', [((\'str\', "\'units\'"), '
 '(\'str\', "\'m\'"))]))), ((\'str\', "\'z\'"), (\'Variable\', (\'list\', [(\'str\', '
 '"\'positions\'")]), (\'list\', [(\'float\', \'3000000.0\'), (\'float\', \'3000002.0\'), '
 "('float', '3000004.0'), ('float', '3000006.0'), ('float', '3000008.0'), ('float', '3000010.0'), "
 "('float', '3000012.0'), ('float', '3000014.0'), ('float', '3000016.0'), ('float', '3000018.0'), "
 "('float', '3000020.0'), ('float', '3000022.0'), ('float', '3000024.0'), ('float', '3000026.0'), "
 "('float', '3000028.0'), ('float', '3000030.0'), ('float', '3000032.0'), ('float', '3000034.0'), "
 "('float', '3000036.0'), ('float', '3000038.0'), ('float', '3000040.0'), ('float', '3000042.0'), "
 "('float', '3000044.0'), ('float', '3000046.0'), ('float', '3000048.0'), ('float', '3000050.0'), "
 '(\'float\', \'3000052.0\'), (\'float\', \'3000054.0\')]), (\'dict\', [((\'str\', "\'units\'"), '
 '(\'str\', "\'m\'"))])))]), (\'dict\', []))), ((\'str\', "\'velocity\'"), (\'Group\', '
 '\'/platform_position/positions/velocity\', None, (\'dict\', [((\'str\', "\'x\'"), (\'Variable\', '
 '(\'list\', [(\'str\', "\'positions\'")]), (\'list\', [(\'float\', \'7000.0\'), (\'float\', '
 "'6999.0'), ('float', '6998.0'), ('float', '6997.0'), ('float', '6996.0'), ('float', '6995.0'), "
 "('float', '6994.0'), ('float', '6993.0'), ('float', '6992.0'), ('float', '6991.0'), ('float', "
 "'6990.0'), ('float', '6989.0'), ('float', '6988.0'), ('float', '6987.0'), ('float', '6986.0'), "
 "('float', '6985.0'), ('float', '6984.0'), ('float', '6983.0'), ('float', '6982.0'), ('float', "
 "'6981.0'), ('float', '6980.0'), ('float', '6979.0'), ('float', '6978.0'), ('float', '6977.0'), "
 "('float', '6976.0'), ('float', '6975.0'), ('float', '6974.0'), ('float', '6973.0')]), ('dict', "
 '[((\'str\', "\'units\'"), (\'str\', "\'m/s\'"))]))), ((\'str\', "\'y\'"), (\'Variable\', '
 '(\'list\', [(\'str\', "\'positions\'")]), (\'list\', [(\'float\', \'-7000.0\'), (\'float\', '
 "'-6999.0'), ('float', '-6998.0'), ('float', '-6997.0'), ('float', '-6996.0'), ('float', "
 "'-6995.0'), ('float', '-6994.0'), ('float', '-6993.0'), ('float', '-6992.0'), ('float', "
 "'-6991.0'), ('float', '-6990.0'), ('float', '-6989.0'), ('float', '-6988.0'), ('float', "
 "'-6987.0'), ('float', '-6986.0'), ('float', '-6985.0'), ('float', '-6984.0'), ('float', "
 "'-6983.0'), ('float', '-6982.0'), ('float', '-6981.0'), ('float', '-6980.0'), ('float', "
 "'-6979.0'), ('float', '-6978.0'), ('float', '-6977.0'), ('float', '-6976.0'), ('float', "
 "'-6975.0'), ('float', '-6974.0'), ('float', '-6973.0')]), ('dict', [(('str', "
 '"\'units\'"), (\'str\', "\'m/s\'"))]))), ((\'str\', "\'z\'"), (\'Variable\', (\'list\', '
 '[(\'str\', "\'positions\'")]), (\'list\', [(\'float\', \'0.0\'), (\'float\', \'0.5\'), '
 "('float', '1.0'), ('float', '1.5'), ('float', '2.0'), ('float', '2.5'), ('float', '3.0'), "
 "('float', '3.5'), ('float', '4.0'), ('float', '4.5'), ('float', '5.0'), ('float', '5.5'), "
 "('float', '6.0'), ('float', '6.5'), ('float', '7.0'), ('float', '7.5'), ('float', '8.0'), "
 "('float', '8.5'), ('float', '9.0'), ('float', '9.5'), ('float', '10.0'), ('float', '10.5'), "
 "('float', '11.0'), ('float', '11.5'), ('float', '12.0'), ('float', '12.5'), ('float', '13.0'), "
 '(\'float\', \'13.5\')]), (\'dict\', [((\'str\', "\'units\'"), (\'str\', "\'m/s\'"))])))]), '
 '(\'dict\', [])))]), (\'dict\', [])))]), (\'dict\', [((\'str\', "\'datetime_of_first_point\'"), '
 '(\'str\', "\'2020-02-29T12:00:00.500000\'")), ((\'str\', "\'reference_coordinate_system\'"), '
 '(\'str\', "\'ECR\'")), ((\'str\', "\'leap_second\'"), (\'bool\', \'True\'))]))), ((\'str\', '
 '"\'attitude\'"), (\'Group\', \'/attitude\', None, (\'dict\', [((\'str\', "\'attitude\'"), '
 '(\'Group\', \'/attitude/attitude\', None, (\'dict\', [((\'str\', "\'pitch_error\'"), '
 '(\'Variable\', (\'list\', [(\'str\', "\'points\'")]), (\'list\', [(\'bool\', \'False\'), '
 '(\'bool\', \'True\'), (\'bool\', \'False\')]), (\'dict\', []))), ((\'str\', "\'roll_error\'"), '
 '(\'Variable\', (\'list\', [(\'str\', "\'points\'")]), (\'list\', [(\'bool\', \'False\'), '
 '(\'bool\', \'False\'), (\'bool\', \'False\')]), (\'dict\', []))), ((\'str\', "\'yaw_error\'"), '
 '(\'Variable\', (\'list\', [(\'str\', "\'points\'")]), (\'list\', [(\'bool\', \'True\'), '
 '(\'bool\', \'True\'), (\'bool\', \'True\')]), (\'dict\', []))), ((\'str\', "\'pitch\'"), '
 '(\'Variable\', (\'list\', [(\'str\', "\'points\'")]), (\'list\', [(\'float\', \'0.0\'), '
 '(\'float\', \'1.0\'), (\'float\', \'2.0\')]), (\'dict\', [((\'str\', "\'units\'"), (\'str\', '
 '"\'deg\'"))]))), ((\'str\', "\'roll\'"), (\'Variable\', (\'list\', [(\'str\', "\'points\'")]), '
 "('list', [('float', '0.0'), ('float', '2.0'), ('float', '4.0')]), ('dict', [(('str', "
 '"\'units\'"), (\'str\', "\'deg\'"))]))), ((\'str\', "\'yaw\'"), (\'Variable\', (\'list\', '
 '[(\'str\', "\'points\'")]), (\'list\', [(\'float\', \'0.0\'), (\'float\', \'3.0\'), (\'float\', '
 '\'6.0\')]), (\'dict\', [((\'str\', "\'units\'"), (\'str\', "\'deg\'"))]))), ((\'str\', '
 '"\'time\'"), (\'Variable\', (\'list\', [(\'str\', "\'points\'")]), (\'ndarray\', '
 "'datetime64[ns]', (3,), ['1586563199000000000', '1586649598500000000', '1586735998000000000']), "
 '(\'dict\', [])))]), (\'dict\', [((\'str\', "\'coordinates\'"), (\'list\', [(\'str\', '
 '"\'time\'")]))]))), ((\'str\', "\'rates\'"), (\'Group\', \'/attitude/rates\', None, (\'dict\', '
 '[((\'str\', "\'pitch_error\'"), (\'Variable\', (\'list\', [(\'str\', "\'points\'")]), (\'list\', '
 "[('bool', 'False'), ('bool', 'True'), ('bool', 'False')]), ('dict', []))), (('str', "
 '"\'roll_error\'"), (\'Variable\', (\'list\', [(\'str\', "\'points\'")]), (\'list\', [(\'bool\', '
 "'False'), ('bool', 'False'), ('bool', 'False')]), ('dict', []))), (('str', "
 '"\'yaw_error\'"), (\'Variable\', (\'list\', [(\'str\', "\'points\'")]), (\'list\', [(\'bool\', '
 "'True'), ('bool', 'True'), ('bool', 'True')]), ('dict', []))), (('str', "
 '"\'pitch\'"), (\'Variable\', (\'list\', [(\'str\', "\'points\'")]), (\'list\', [(\'float\', '
 '\'0.0\'), (\'float\', \'0.01\'), (\'float\', \'0.02\')]), (\'dict\', [((\'str\', "\'units\'"), '
 '(\'str\', "\'deg/s\'"))]))), ((\'str\', "\'roll\'"), (\'Variable\', (\'list\', [(\'str\', '
 '"\'points\'")]), (\'list\', [(\'float\', \'0.0\'), (\'float\', \'0.02\'), (\'float\', '
 '\'0.04\')]), (\'dict\', [((\'str\', "\'units\'"), (\'str\', "\'deg/s\'"))]))), ((\'str\', '
 '"\'yaw\'"), (\'Variable\', (\'list\', [(\'str\', "\'points\'")]), (\'list\', [(\'float\', '
 '\'0.0\'), (\'float\', \'0.03\'), (\'float\', \'0.06\')]), (\'dict\', [((\'str\', "\'units\'"), '
 '(\'str\', "\'deg/s\'"))]))), ((\'str\', "\'time\'"), (\'Variable\', (\'list\', [(\'str\', '
 '"\'points\'")]), (\'ndarray\', \'datetime64[ns]\', (3,), [\'1586563199000000000\', '
 "'1586649598500000000', '1586735998000000000']), ('dict', [])))]), ('dict', [(('str', "
 '"\'coordinates\'"), (\'list\', [(\'str\', "\'time\'")]))])))]), (\'dict\', []))), ((\'str\', '
 '"\'radiometric_data\'"), (\'Group\', \'/radiometric_data\', None, (\'dict\', [((\'str\', '
 '"\'calibration_factor\'"), (\'Variable\', (\'tuple\', []), (\'float\', \'nan\'), (\'dict\', '
 '[((\'str\', "\'formula\'"), (\'str\', "\'σ⁰=10*log_10<I^2 + Q^2> + CF - 32.0; '
 'σ⁰(level1.5/level3.1)=10*log_10<DN^2> + CF\'")), ((\'str\', "\'I\'"), (\'str\', "\'level 1.1 '
 'real pixel value\'")), ((\'str\', "\'Q\'"), (\'str\', "\'level 1.1 imaginary pixel value\'")), '
 '((\'str\', "\'DN\'"), (\'str\', "\'level 1.5/3.1 pixel value\'"))]))), ((\'str\', '
 '"\'distortion_matrix\'"), (\'Group\', \'/radiometric_data/distortion_matrix\', None, (\'dict\', '
 '[((\'str\', "\'transmission\'"), (\'Variable\', (\'list\', [(\'str\', "\'i\'"), (\'str\', '
 '"\'j\'")]), (\'list\', [(\'list\', [(\'complex\', \'(nan+nanj)\'), (\'complex\', '
 "'(nan+nanj)')]), ('list', [('complex', '(nan+nanj)'), ('complex', '(nan+nanj)')])]), ('dict', "
 '[]))), ((\'str\', "\'reception\'"), (\'Variable\', (\'list\', [(\'str\', "\'i\'"), (\'str\', '
 '"\'j\'")]), (\'list\', [(\'list\', [(\'complex\', \'(nan+nanj)\'), (\'complex\', '
 "'(nan+nanj)')]), ('list', [('complex', '(nan+nanj)'), ('complex', '(nan+nanj)')])]), ('dict', "
 '[]))), ((\'str\', "\'i\'"), (\'Variable\', (\'list\', [(\'str\', "\'i\'")]), (\'list\', '
 '[(\'str\', "\'horizontal\'"), (\'str\', "\'vertical\'")]), (\'dict\', [((\'str\', '
 '"\'long_name\'"), (\'str\', "\'reception polarization\'"))]))), ((\'str\', "\'j\'"), '
 '(\'Variable\', (\'list\', [(\'str\', "\'j\'")]), (\'list\', [(\'str\', "\'horizontal\'"), '
 '(\'str\', "\'vertical\'")]), (\'dict\', [((\'str\', "\'long_name\'"), (\'str\', "\'transmission '
 'polarization\'"))])))]), (\'dict\', [((\'str\', "\'formula\'"), (\'str\', "\'Z = '
 'A*1/r*exp(-4πr/λ) * RST + N\'")), ((\'str\', "\'Z\'"), (\'str\', "\'measurement matrix\'")), '
 '((\'str\', "\'A\'"), (\'str\', "\'amplitude\'")), ((\'str\', "\'r\'"), (\'str\', "\'slant '
 'range\'")), ((\'str\', "\'S\'"), (\'str\', "\'true scattering matrix\'")), ((\'str\', "\'N\'"), '
 '(\'str\', "\'noise component\'")), ((\'str\', "\'R\'"), (\'str\', "\'reception distortion '
 'matrix\'")), ((\'str\', "\'T\'"), (\'str\', "\'transmission distortion matrix\'"))])))]), '
 '(\'dict\', []))), ((\'str\', "\'data_quality_summary\'"), (\'Group\', \'/data_quality_summary\', '
 'None, (\'dict\', [((\'str\', "\'absolute_radiometric_data_quality\'"), (\'Group\', '
 "'/data_quality_summary/absolute_radiometric_data_quality', None, ('dict', [(('str', "
 '"\'islr\'"), (\'Variable\', (\'tuple\', []), (\'float\', \'nan\'), (\'dict\', [((\'str\', '
 '"\'units\'"), (\'str\', "\'dB\'"))]))), ((\'str\', "\'pslr\'"), (\'Variable\', (\'tuple\', []), '
 '(\'float\', \'nan\'), (\'dict\', [((\'str\', "\'units\'"), (\'str\', "\'dB\'"))]))), ((\'str\', '
 '"\'estimate_of_snr\'"), (\'Variable\', (\'tuple\', []), (\'float\', \'nan\'), (\'dict\', '
 '[((\'str\', "\'units\'"), (\'str\', "\'dB\'"))]))), ((\'str\', "\'ber\'"), (\'Variable\', '
 '(\'tuple\', []), (\'float\', \'nan\'), (\'dict\', [((\'str\', "\'units\'"), (\'str\', '
 '"\'dB\'"))]))), ((\'str\', "\'slant_range_resolution\'"), (\'Variable\', (\'tuple\', []), '
 '(\'float\', \'nan\'), (\'dict\', [((\'str\', "\'units\'"), (\'str\', "\'m\'"))]))), ((\'str\', '
 '"\'azimuth_resolution\'"), (\'Variable\', (\'tuple\', []), (\'float\', \'nan\'), (\'dict\', '
 '[((\'str\', "\'units\'"), (\'str\', "\'m\'"))]))), ((\'str\', "\'radiometric_resolution\'"), '
 '(\'Variable\', (\'tuple\', []), (\'float\', \'nan\'), (\'dict\', [((\'str\', "\'units\'"), '
 '(\'str\', "\'dB\'"))]))), ((\'str\', "\'instantaneous_dynamic_range\'"), (\'Variable\', '
 '(\'tuple\', []), (\'float\', \'nan\'), (\'dict\', [((\'str\', "\'units\'"), (\'str\', '
 '"\'dB\'"))]))), ((\'str\', "\'nominal_absolute_radiometric_calibration_uncertainty\'"), '
 "('Group', "
 "'/data_quality_summary/absolute_radiometric_data_quality/nominal_absolute_radiometric_calibration_uncertainty', "
 'None, (\'dict\', [((\'str\', "\'magnitude\'"), (\'Variable\', (\'tuple\', []), (\'float\', '
 '\'nan\'), (\'dict\', [((\'str\', "\'units\'"), (\'str\', "\'dB\'"))]))), ((\'str\', '
 '"\'phase\'"), (\'Variable\', (\'tuple\', []), (\'float\', \'nan\'), (\'dict\', [((\'str\', '
 '"\'units\'"), (\'str\', "\'deg\'"))])))]), (\'dict\', [])))]), (\'dict\', [((\'str\', '
 '"\'azimuth_ambiguity_rate\'"), (\'float\', \'nan\')), ((\'str\', "\'range_ambiguity_rate\'"), '
 '(\'float\', \'nan\'))]))), ((\'str\', "\'relative_radiometric_quality\'"), (\'Group\', '
 "'/data_quality_summary/relative_radiometric_quality', None, ('dict', [(('str', "
 '"\'magnitude\'"), (\'Variable\', (\'list\', [(\'str\', "\'channel\'")]), (\'list\', [(\'float\', '
 '\'nan\'), (\'float\', \'nan\')]), (\'dict\', [((\'str\', "\'units\'"), (\'str\', "\'dB\'"))]))), '
 '((\'str\', "\'phase\'"), (\'Variable\', (\'list\', [(\'str\', "\'channel\'")]), (\'list\', '
 '[(\'float\', \'nan\'), (\'float\', \'nan\')]), (\'dict\', [((\'str\', "\'units\'"), (\'str\', '
 '"\'deg\'"))])))]), (\'dict\', []))), ((\'str\', "\'absolute_geometric_quality\'"), (\'Group\', '
 "'/data_quality_summary/absolute_geometric_quality', None, ('dict', [(('str', "
 '"\'absolute_location_error\'"), (\'Group\', '
 "'/data_quality_summary/absolute_geometric_quality/absolute_location_error', None, ('dict', "
 '[((\'str\', "\'along_track\'"), (\'Variable\', (\'tuple\', []), (\'float\', \'nan\'), (\'dict\', '
 '[((\'str\', "\'units\'"), (\'str\', "\'m\'"))]))), ((\'str\', "\'across_track\'"), '
 '(\'Variable\', (\'tuple\', []), (\'float\', \'nan\'), (\'dict\', [((\'str\', "\'units\'"), '
 '(\'str\', "\'m\'"))])))]), (\'dict\', []))), ((\'str\', "\'geometric_distortion_scale\'"), '
 "('Group', '/data_quality_summary/absolute_geometric_quality/geometric_distortion_scale', None, "
 '(\'dict\', []), (\'dict\', [((\'str\', "\'line_direction\'"), (\'float\', \'nan\')), ((\'str\', '
 '"\'pixel_direction\'"), (\'float\', \'nan\'))])))]), (\'dict\', [((\'str\', '
 '"\'geometric_distortion_skew\'"), (\'float\', \'nan\')), ((\'str\', '
 '"\'scene_orientation_error\'"), (\'float\', \'nan\'))]))), ((\'str\', '
 '"\'relative_geometric_quality\'"), (\'Group\', '
 "'/data_quality_summary/relative_geometric_quality', None, ('dict', [(('str', "
 '"\'along_track\'"), (\'Variable\', (\'list\', [(\'str\', "\'channel\'")]), (\'list\', '
 '[(\'float\', \'nan\'), (\'float\', \'nan\')]), (\'dict\', [((\'str\', "\'units\'"), (\'str\', '
 '"\'m\'"))]))), ((\'str\', "\'across_track\'"), (\'Variable\', (\'list\', [(\'str\', '
 '"\'channel\'")]), (\'list\', [(\'float\', \'nan\'), (\'float\', \'nan\')]), (\'dict\', '
 '[((\'str\', "\'units\'"), (\'str\', "\'m\'"))])))]), (\'dict\', [])))]), (\'dict\', [((\'str\', '
 '"\'sar_channel_id\'"), (\'str\', "\'\'")), ((\'str\', '
 '"\'date_of_the_last_calibration_update\'"), (\'str\', "\'\'")), ((\'str\', '
 '"\'number_of_channels\'"), (\'int\', \'2\'))]))), ((\'str\', "\'transformations\'"), (\'Group\', '
 '\'/transformations\', None, (\'dict\', [((\'str\', "\'projected_to_image\'"), (\'Group\', '
 '\'/transformations/projected_to_image\', None, (\'dict\', [((\'str\', "\'a\'"), (\'Variable\', '
 '(\'list\', [(\'str\', "\'mid_precision_coeffs\'")]), (\'list\', [(\'float\', \'nan\'), '
 "('float', 'nan'), ('float', 'nan'), ('float', 'nan'), ('float', 'nan'), ('float', 'nan'), "
 "('float', 'nan'), ('float', 'nan'), ('float', 'nan'), ('float', 'nan')]), ('dict', []))), "
 '((\'str\', "\'b\'"), (\'Variable\', (\'list\', [(\'str\', "\'mid_precision_coeffs\'")]), '
 "('list', [('float', 'nan'), ('float', 'nan'), ('float', 'nan'), ('float', 'nan'), ('float', "
 "'nan'), ('float', 'nan'), ('float', 'nan'), ('float', 'nan'), ('float', 'nan'), ('float', "
 '\'nan\')]), (\'dict\', [])))]), (\'dict\', [((\'str\', "\'formula\'"), (\'str\', "\'P = a0 + '
 'a1*φ + a2*λ + a3*φ*λ + a4*φ^2 + a5*λ^2 + a6*φ^2*λ + a7*φ*λ^2 + a8*φ^3 + a9*λ^3; L = b0 + b1*φ + '
 'b2*λ + b3*φ*λ + b4*φ^2 + b5*λ^2 + b6*φ^2*λ + b7*φ*λ^2 + b8*φ^3 + b9*λ^3\'"))]))), ((\'str\', '
 '"\'calibration_at_upper_image\'"), (\'Group\', \'/transformations/calibration_at_upper_image\', '
 'None, (\'dict\', []), (\'dict\', [((\'str\', "\'start_line_number\'"), (\'int\', \'-1\')), '
 '((\'str\', "\'end_line_number\'"), (\'int\', \'-1\'))]))), ((\'str\', '
 '"\'calibration_at_bottom_image\'"), (\'Group\', '
 "'/transformations/calibration_at_bottom_image', None, ('dict', []), ('dict', [(('str', "
 '"\'start_line_number\'"), (\'int\', \'-1\')), ((\'str\', "\'end_line_number\'"), (\'int\', '
 '\'-1\'))]))), ((\'str\', "\'number_of_loss_lines\'"), (\'Group\', '
 "'/transformations/number_of_loss_lines', None, ('dict', []), ('dict', [(('str', "
 '"\'level1.0\'"), (\'int\', \'-1\')), ((\'str\', "\'others\'"), (\'int\', \'-1\'))]))), '
 '((\'str\', "\'image_to_geographic\'"), (\'Group\', \'/transformations/image_to_geographic\', '
 'None, (\'dict\', [((\'str\', "\'a\'"), (\'Variable\', (\'list\', [(\'str\', '
 '"\'high_precision_coeffs\'")]), (\'list\', [(\'float\', \'nan\'), (\'float\', \'nan\'), '
 "('float', 'nan'), ('float', 'nan'), ('float', 'nan'), ('float', 'nan'), ('float', 'nan'), "
 "('float', 'nan'), ('float', 'nan'), ('float', 'nan'), ('float', 'nan'), ('float', 'nan'), "
 "('float', 'nan'), ('float', 'nan'), ('float', 'nan'), ('float', 'nan'), ('float', 'nan'), "
 "('float', 'nan'), ('float', 'nan'), ('float', 'nan'), ('float', 'nan'), ('float', 'nan'), "
 "('float', 'nan'), ('float', 'nan'), ('float', 'nan')]), ('dict', []))), (('str', "
 '"\'b\'"), (\'Variable\', (\'list\', [(\'str\', "\'high_precision_coeffs\'")]), (\'list\', '
 "[('float', 'nan'), ('float', 'nan'), ('float', 'nan'), ('float', 'nan'), ('float', 'nan'), "
 "('float', 'nan'), ('float', 'nan'), ('float', 'nan'), ('float', 'nan'), ('float', 'nan'), "
 "('float', 'nan'), ('float', 'nan'), ('float', 'nan'), ('float', 'nan'), ('float', 'nan'), "
 "('float', 'nan'), ('float', 'nan'), ('float', 'nan'), ('float', 'nan'), ('float', 'nan'), "
 "('float', 'nan'), ('float', 'nan'), ('float', 'nan'), ('float', 'nan'), ('float', 'nan')]), "
 '(\'dict\', []))), ((\'str\', "\'origin_pixel\'"), (\'Variable\', (\'tuple\', []), (\'float\', '
 '\'nan\'), (\'dict\', []))), ((\'str\', "\'origin_line\'"), (\'Variable\', (\'tuple\', []), '
 '(\'float\', \'nan\'), (\'dict\', [])))]), (\'dict\', [((\'str\', "\'formula\'"), (\'str\', "\'φ '
 '= a0*L^4*P^4 + a1*L^3*P^4 + a2*L^2*P^4 + a3*L*P^4 + a4*P^4 + a5*L^4*P^3 + a6*L^3*P^3 + '
 'a7*L^2*P^3 + a8*L*P^3 + a9*P^3 + a10*L^4*P^2 + a11*L^3*P^2 + a12*L^2*P^2 + a13*L*P^2 + a14*P^2 + '
 'a15*L^4*P + a16*L^3*P + a17*L^2*P + a18*L*P + a19*P + a20*L^4 + a21*L^3 + a22*L^2 + a23*L + a24; '
 'λ = b0*L^4*P^4 + b1*L^3*P^4 + b2*L^2*P^4 + b3*L*P^4 + b4*P^4 + b5*L^4*P^3 + b6*L^3*P^3 + '
 'b7*L^2*P^3 + b8*L*P^3 + b9*P^3 + b10*L^4*P^2 + b11*L^3*P^2 + b12*L^2*P^2 + b13*L*P^2 + b14*P^2 + '
 'b15*L^4*P + b16*L^3*P + b17*L^2*P + b18*L*P + b19*P + b20*L^4 + b21*L^3 + b22*L^2 + b23*L + '
 'b24\'"))]))), ((\'str\', "\'geographic_to_image\'"), (\'Group\', '
 '\'/transformations/geographic_to_image\', None, (\'dict\', [((\'str\', "\'c\'"), (\'Variable\', '
 '(\'list\', [(\'str\', "\'high_precision_coeffs\'")]), (\'list\', [(\'float\', \'nan\'), '
 "('float', 'nan'), ('float', 'nan'), ('float', 'nan'), ('float', 'nan'), ('float', 'nan'), "
 "('float', 'nan'), ('float', 'nan'), ('float', 'nan'), ('float', 'nan'), ('float', 'nan'), "
 "('float', 'nan'), ('float', 'nan'), ('float', 'nan'), ('float', 'nan'), ('float', 'nan'), "
 "('float', 'nan'), ('float', 'nan'), ('float', 'nan'), ('float', 'nan'), ('float', 'nan'), "
 "('float', 'nan'), ('float', 'nan'), ('float', 'nan'), ('float', 'nan')]), ('dict', []))), "
 '((\'str\', "\'d\'"), (\'Variable\', (\'list\', [(\'str\', "\'high_precision_coeffs\'")]), '
 "('list', [('float', 'nan'), ('float', 'nan'), ('float', 'nan'), ('float', 'nan'), ('float', "
 "'nan'), ('float', 'nan'), ('float', 'nan'), ('float', 'nan'), ('float', 'nan'), ('float', "
 "'nan'), ('float', 'nan'), ('float', 'nan'), ('float', 'nan'), ('float', 'nan'), ('float', "
 "'nan'), ('float', 'nan'), ('float', 'nan'), ('float', 'nan'), ('float', 'nan'), ('float', "
 "'nan'), ('float', 'nan'), ('float', 'nan'), ('float', 'nan'), ('float', 'nan'), ('float', "
 '\'nan\')]), (\'dict\', []))), ((\'str\', "\'origin_latitude\'"), (\'Variable\', (\'tuple\', []), '
 '(\'float\', \'nan\'), (\'dict\', []))), ((\'str\', "\'origin_longitude\'"), (\'Variable\', '
 "('tuple', []), ('float', 'nan'), ('dict', [])))]), ('dict', [(('str', "
 '"\'formula\'"), (\'str\', "\'p = c0*Λ^4*Φ^4 + c1*Λ^3*Φ^4 + c2*Λ^2*Φ^4 + c3*Λ*Φ^4 + c4*Φ^4 + '
 'c5*Λ^4*Φ^3 + c6*Λ^3*Φ^3 + c7*Λ^2*Φ^3 + c8*Λ*Φ^3 + c9*Φ^3 + c10*Λ^4*Φ^2 + c11*Λ^3*Φ^2 + '
 'c12*Λ^2*Φ^2 + c13*Λ*Φ^2 + c14*Φ^2 + c15*Λ^4*Φ + c16*Λ^3*Φ + c17*Λ^2*Φ + c18*Λ*Φ + c19*Φ; l = '
 'd0*Λ^4*Φ^4 + d1*Λ^3*Φ^4 + d2*Λ^2*Φ^4 + d3*Λ*Φ^4 + d4*Φ^4 + d5*Λ^4*Φ^3 + d6*Λ^3*Φ^3 + d7*Λ^2*Φ^3 '
 '+ d8*Λ*Φ^3 + d9*Φ^3 + d10*Λ^4*Φ^2 + d11*Λ^3*Φ^2 + d12*Λ^2*Φ^2 + d13*Λ*Φ^2 + d14*Φ^2 + d15*Λ^4*Φ '
 '+ d16*Λ^3*Φ + d17*Λ^2*Φ + d18*Λ*Φ + d19*Φ + d20*Λ^4 + d21*Λ^3 + d22*Λ^2 + d23*Λ + '
 'd24\'"))])))]), (\'dict\', [((\'str\', "\'calibration_mode_data_location_flag\'"), '
 '(\'EnumInteger\', \'-1\')), ((\'str\', "\'prf_switching\'"), (\'bool\', \'True\')), ((\'str\', '
 '"\'start_line_number_of_prf_switching\'"), (\'int\', \'-1\'))])))]), (\'dict\', [])))',
 "('raises', 'ValueError', 'not enough values to unpack (expected 2, got 1)')",
 "('raises', 'StreamError', 'Error in path (parsing) -> radiometric_data -> blanks\\nstream read "
 "less than specified amount, expected 9568, found 8196')",
 "('raises', 'StreamError', 'Error in path (parsing) -> file_descriptor -> preamble -> "
 "record_sequence_number\\nstream read less than specified amount, expected 4, found 0')",
 "('raises', 'FileNotFoundError', 'Cannot open LED-missing')",
 "('returns', ['LED-A'])",
 "('raises', ['LED-A', 'nothing'])",
 "('raises', ['LED-A', 'nothing', 'LED-H'])",
 '(\'returns\', (\'Group\', \'/\', None, (\'dict\', [((\'str\', "\'dataset_summary\'"), '
 '(\'Group\', \'/dataset_summary\', None, (\'dict\', [((\'str\', "\'geodetic_latitude\'"), '
 '(\'Variable\', (\'tuple\', []), (\'float\', \'nan\'), (\'dict\', [((\'str\', "\'units\'"), '
 '(\'str\', "\'deg\'"))]))), ((\'str\', "\'geodetic_longitude\'"), (\'Variable\', (\'tuple\', []), '
 '(\'float\', \'nan\'), (\'dict\', [((\'str\', "\'units\'"), (\'str\', "\'deg\'"))]))), ((\'str\', '
 '"\'processed_scene_center_true_heading\'"), (\'Variable\', (\'tuple\', []), (\'float\', '
 '\'nan\'), (\'dict\', [((\'str\', "\'units\'"), (\'str\', "\'deg\'"))]))), ((\'str\', '
 '"\'ellipsoid_semimajor_axis\'"), (\'Variable\', (\'tuple\', []), (\'float\', \'nan\'), '
 '(\'dict\', [((\'str\', "\'units\'"), (\'str\', "\'km\'"))]))), ((\'str\', '
 '"\'ellipsoid_semiminor_axis\'"), (\'Variable\', (\'tuple\', []), (\'float\', \'nan\'), '
 '(\'dict\', [((\'str\', "\'units\'"), (\'str\', "\'km\'"))]))), ((\'str\', "\'earth_mass\'"), '
 '(\'Variable\', (\'tuple\', []), (\'float\', \'nan\'), (\'dict\', [((\'str\', "\'units\'"), '
 '(\'str\', "\'kg\'"))]))), ((\'str\', "\'gravitational_constant\'"), (\'Variable\', (\'tuple\', '
 '[]), (\'float\', \'nan\'), (\'dict\', [((\'str\', "\'units\'"), (\'str\', "\'m^3 / s^2\'"))]))), '
 '((\'str\', "\'sensor_platform_geodetic_latitude_at_nadir_corresponding_to_scene_center\'"), '
 '(\'Variable\', (\'tuple\', []), (\'float\', \'nan\'), (\'dict\', [((\'str\', "\'units\'"), '
 '(\'str\', "\'deg\'"))]))), ((\'str\', '
 '"\'sensor_platform_geodetic_longitude_at_nadir_corresponding_to_scene_center\'"), (\'Variable\', '
 '(\'tuple\', []), (\'float\', \'nan\'), (\'dict\', [((\'str\', "\'units\'"), (\'str\', '
 '"\'deg\'"))]))), ((\'str\', '
 '"\'sensor_platform_heading_at_nadir_corresponding_to_scene_center\'"), (\'Variable\', '
 '(\'tuple\', []), (\'float\', \'nan\'), (\'dict\', [((\'str\', "\'units\'"), (\'str\', '
 '"\'deg\'"))]))), ((\'str\', '
 '"\'sensor_clock_angle_as_measured_relative_to_sensor_platform_flight_direction\'"), '
 '(\'Variable\', (\'tuple\', []), (\'float\', \'nan\'), (\'dict\', [((\'str\', "\'units\'"), '
 '(\'str\', "\'deg\'"))]))), ((\'str\', "\'incidence_angle_at_scene_center\'"), (\'Variable\', '
 '(\'tuple\', []), (\'float\', \'nan\'), (\'dict\', [((\'str\', "\'units\'"), (\'str\', '
 '"\'deg\'"))]))), ((\'str\', "\'nominal_radar_wavelength\'"), (\'Variable\', (\'tuple\', []), '
 '(\'float\', \'nan\'), (\'dict\', [((\'str\', "\'units\'"), (\'str\', "\'m\'"))]))), ((\'str\', '
 '"\'sampling_rate\'"), (\'Variable\', (\'tuple\', []), (\'float\', \'nan\'), (\'dict\', '
 '[((\'str\', "\'units\'"), (\'str\', "\'MHz\'"))]))), ((\'str\', "\'range_gate\'"), '
 '(\'Variable\', (\'tuple\', []), (\'float\', \'nan\'), (\'dict\', [((\'str\', "\'units\'"), '
 '(\'str\', "\'µs\'"))]))), ((\'str\', "\'range_pulse_width\'"), (\'Variable\', (\'tuple\', []), '
 '(\'float\', \'nan\'), (\'dict\', [((\'str\', "\'units\'"), (\'str\', "\'µs\'"))]))), ((\'str\', '
 '"\'prf\'"), (\'Variable\', (\'tuple\', []), (\'float\', \'nan\'), (\'dict\', [((\'str\', '
 '"\'units\'"), (\'str\', "\'mHz\'"))]))), ((\'str\', "\'two_way_antenna_beam_width_elevation\'"), '
 '(\'Variable\', (\'tuple\', []), (\'float\', \'nan\'), (\'dict\', [((\'str\', "\'units\'"), '
 '(\'str\', "\'deg\'"))]))), ((\'str\', "\'two_way_antenna_beam_width_azimuth\'"), (\'Variable\', '
 '(\'tuple\', []), (\'float\', \'nan\'), (\'dict\', [((\'str\', "\'units\'"), (\'str\', '
 '"\'deg\'"))]))), ((\'str\', "\'satellite_clock_increment\'"), (\'Variable\', (\'tuple\', []), '
 '(\'int\', \'-1\'), (\'dict\', [((\'str\', "\'units\'"), (\'str\', "\'ns\'"))]))), ((\'str\', '
 '"\'bandwidth_per_look_in_azimuth\'"), (\'Variable\', (\'tuple\', []), (\'float\', \'nan\'), '
 '(\'dict\', [((\'str\', "\'units\'"), (\'str\', "\'Hz\'"))]))), ((\'str\', '
 '"\'bandwidth_per_look_in_range\'"), (\'Variable\', (\'tuple\', []), (\'float\', \'nan\'), '
 '(\'dict\', [((\'str\', "\'units\'"), (\'str\', "\'Hz\'"))]))), ((\'str\', '
 '"\'bandwidth_in_azimuth\'"), (\'Variable\', (\'tuple\', []), (\'float\', \'nan\'), (\'dict\', '
 '[((\'str\', "\'units\'"), (\'str\', "\'Hz\'"))]))), ((\'str\', "\'bandwidth_in_range\'"), '
 '(\'Variable\', (\'tuple\', []), (\'float\', \'nan\'), (\'dict\', [((\'str\', "\'units\'"), '
 '(\'str\', "\'kHz\'"))]))), ((\'str\', "\'resolution_in_ground_range\'"), (\'Variable\', '
 '(\'tuple\', []), (\'float\', \'nan\'), (\'dict\', [((\'str\', "\'units\'"), (\'str\', '
 '"\'m\'"))]))), ((\'str\', "\'resolution_in_azimuth\'"), (\'Variable\', (\'tuple\', []), '
 '(\'float\', \'nan\'), (\'dict\', [((\'str\', "\'units\'"), (\'str\', "\'m\'"))]))), ((\'str\', '
 '"\'line_spacing\'"), (\'Variable\', (\'tuple\', []), (\'float\', \'nan\'), (\'dict\', '
 '[((\'str\', "\'units\'"), (\'str\', "\'m\'"))]))), ((\'str\', "\'pixel_spacing\'"), '
 '(\'Variable\', (\'tuple\', []), (\'float\', \'nan\'), (\'dict\', [((\'str\', "\'units\'"), '
 '(\'str\', "\'m\'"))]))), ((\'str\', '
 '"\'doppler_frequency_approximately_constant_coefficient_term\'"), (\'Variable\', (\'tuple\', '
 '[]), (\'float\', \'nan\'), (\'dict\', [((\'str\', "\'units\'"), (\'str\', "\'Hz\'"))]))), '
 '((\'str\', "\'doppler_frequency_approximately_linear_coefficient_term\'"), (\'Variable\', '
 '(\'tuple\', []), (\'float\', \'nan\'), (\'dict\', [((\'str\', "\'units\'"), (\'str\', '
 '"\'Hz/km\'"))]))), ((\'str\', "\'direction_of_a_beam_center_in_a_scene_center\'"), '
 '(\'Variable\', (\'tuple\', []), (\'float\', \'nan\'), (\'dict\', [((\'str\', "\'units\'"), '
 '(\'str\', "\'deg\'"))]))), ((\'str\', "\'range_pulse_amplitude_coefficients\'"), (\'Group\', '
 "'/dataset_summary/range_pulse_amplitude_coefficients', None, ('dict', []), ('dict', [(('str', "
 '"\'coefficient_1\'"), (\'float\', \'nan\')), ((\'str\', "\'coefficient_2\'"), (\'float\', '
 '\'nan\')), ((\'str\', "\'coefficient_3\'"), (\'float\', \'nan\')), ((\'str\', '
 '"\'coefficient_4\'"), (\'float\', \'nan\')), ((\'str\', "\'coefficient_5\'"), (\'float\', '
 '\'nan\'))]))), ((\'str\', "\'along_track_doppler_frequency_center\'"), (\'Group\', '
 "'/dataset_summary/along_track_doppler_frequency_center', None, ('dict', [(('str', "
 '"\'constant_term_at_early_edge_of_the_image\'"), (\'Variable\', (\'tuple\', []), (\'float\', '
 '\'nan\'), (\'dict\', [((\'str\', "\'units\'"), (\'str\', "\'Hz\'"))]))), ((\'str\', '
 '"\'linear_coefficient_terms_at_early_edge_of_the_image\'"), (\'Variable\', (\'tuple\', []), '
 '(\'float\', \'nan\'), (\'dict\', [((\'str\', "\'units\'"), (\'str\', "\'Hz/px\'"))]))), '
 '((\'str\', "\'quadratic_coefficient_terms_at_early_edge_of_the_image\'"), (\'Variable\', '
 '(\'tuple\', []), (\'float\', \'nan\'), (\'dict\', [((\'str\', "\'units\'"), (\'str\', '
 '"\'Hz/px^2\'"))])))]), (\'dict\', []))), ((\'str\', "\'cross_track_doppler_frequency_center\'"), '
 "('Group', '/dataset_summary/cross_track_doppler_frequency_center', None, ('dict', [(('str', "
 '"\'constant_term_at_early_edge_of_the_image\'"), (\'Variable\', (\'tuple\', []), (\'float\', '
 '\'nan\'), (\'dict\', [((\'str\', "\'units\'"), (\'str\', "\'Hz\'"))]))), ((\'str\', '
 '"\'linear_coefficient_terms_at_early_edge_of_the_image\'"), (\'Variable\', (\'tuple\', []), '
 '(\'float\', \'nan\'), (\'dict\', [((\'str\', "\'units\'"), (\'str\', "\'Hz/px\'"))]))), '
 '((\'str\', "\'quadratic_coefficient_terms_at_early_edge_of_the_image\'"), (\'Variable\', '
 '(\'tuple\', []), (\'float\', \'nan\'), (\'dict\', [((\'str\', "\'units\'"), (\'str\', '
 '"\'Hz/px^2\'"))])))]), (\'dict\', []))), ((\'str\', "\'along_track_doppler_frequency_rate\'"), '
 "('Group', '/dataset_summary/along_track_doppler_frequency_rate', None, ('dict', [(('str', "
 '"\'constant_terms_at_early_edge_of_the_image\'"), (\'Variable\', (\'tuple\', []), (\'float\', '
 '\'nan\'), (\'dict\', [((\'str\', "\'units\'"), (\'str\', "\'Hz/s\'"))]))), ((\'str\', '
 '"\'linear_coefficient_at_early_edge_of_the_image\'"), (\'Variable\', (\'tuple\', []), '
 '(\'float\', \'nan\'), (\'dict\', [((\'str\', "\'units\'"), (\'str\', "\'Hz/s/px\'"))]))), '
 '((\'str\', "\'quadratic_coefficient_at_early_edge_of_the_image\'"), (\'Variable\', (\'tuple\', '
 '[]), (\'float\', \'nan\'), (\'dict\', [((\'str\', "\'units\'"), (\'str\', '
 '"\'Hz/s/px^2\'"))])))]), (\'dict\', []))), ((\'str\', "\'cross_track_doppler_frequency_rate\'"), '
 "('Group', '/dataset_summary/cross_track_doppler_frequency_rate', None, ('dict', [(('str', "
 '"\'constant_terms_at_early_edge_of_the_image\'"), (\'Variable\', (\'tuple\', []), (\'float\', '
 '\'nan\'), (\'dict\', [((\'str\', "\'units\'"), (\'str\', "\'Hz/s\'"))]))), ((\'str\', '
 '"\'linear_coefficient_at_early_edge_of_the_image\'"), (\'Variable\', (\'tuple\', []), '
 '(\'float\', \'nan\'), (\'dict\', [((\'str\', "\'units\'"), (\'str\', "\'Hz/s/px\'"))]))), '
 '((\'str\', "\'quadratic_coefficient_at_early_edge_of_the_image\'"), (\'Variable\', (\'tuple\', '
 '[]), (\'float\', \'nan\'), (\'dict\', [((\'str\', "\'units\'"), (\'str\', '
 '"\'Hz/s/px^2\'"))])))]), (\'dict\', []))), ((\'str\', "\'calibration_at_the_side_of_start\'"), '
 "('Group', '/dataset_summary/calibration_at_the_side_of_start', None, ('dict', []), ('dict', "
 '[((\'str\', "\'start_line_number\'"), (\'int\', \'-1\')), ((\'str\', "\'end_line_number\'"), '
 '(\'int\', \'-1\'))]))), ((\'str\', "\'calibration_at_the_side_of_end\'"), (\'Group\', '
 "'/dataset_summary/calibration_at_the_side_of_end', None, ('dict', []), ('dict', [(('str', "
 '"\'start_line_number\'"), (\'int\', \'-1\')), ((\'str\', "\'end_line_number\'"), (\'int\', '
 '\'-1\'))]))), ((\'str\', "\'incidence_angle\'"), (\'Group\', '
 '\'/dataset_summary/incidence_angle\', None, (\'dict\', [((\'str\', "\'constant_term\'"), '
 '(\'Variable\', (\'tuple\', []), (\'float\', \'nan\'), (\'dict\', [((\'str\', "\'units\'"), '
 '(\'str\', "\'rad\'"))]))), ((\'str\', "\'linear_term\'"), (\'Variable\', (\'tuple\', []), '
 '(\'float\', \'nan\'), (\'dict\', [((\'str\', "\'units\'"), (\'str\', "\'rad/km\'"))]))), '
 '((\'str\', "\'quadratic_term\'"), (\'Variable\', (\'tuple\', []), (\'float\', \'nan\'), '
 '(\'dict\', [((\'str\', "\'units\'"), (\'str\', "\'rad/km^2\'"))]))), ((\'str\', '
 '"\'cubic_term\'"), (\'Variable\', (\'tuple\', []), (\'float\', \'nan\'), (\'dict\', [((\'str\', '
 '"\'units\'"), (\'str\', "\'rad/km^3\'"))]))), ((\'str\', "\'fourth_term\'"), (\'Variable\', '
 '(\'tuple\', []), (\'float\', \'nan\'), (\'dict\', [((\'str\', "\'units\'"), (\'str\', '
 '"\'rad/km^4\'"))]))), ((\'str\', "\'fifth_term\'"), (\'Variable\', (\'tuple\', []), (\'float\', '
 '\'nan\'), (\'dict\', [((\'str\', "\'units\'"), (\'str\', "\'rad/km^5\'"))])))]), (\'dict\', '
 '[((\'str\', "\'formula\'"), (\'str\', "\'θ = a0 + a1*R + a2*R^2 + a3*R^3 + a4*R^4 + a5*R^5\'")), '
 '((\'str\', "\'theta\'"), (\'str\', "\'incidence angle\'")), ((\'str\', "\'r\'"), (\'str\', '
 '"\'slant range\'"))])))]), (\'dict\', [((\'str\', "\'scene_id\'"), (\'str\', '
 '"\'ALOS2310000000-200229\'")), ((\'str\', "\'scene_center_time\'"), (\'str\', '
 '"\'2020-02-29T12:00:00.500000\'")), ((\'str\', "\'ellipsoid_designator\'"), (\'str\', "\'\'")), '
 '((\'str\', "\'ellipsoid_j2_parameter\'"), (\'float\', \'nan\')), ((\'str\', '
 '"\'ellipsoid_j3_parameter\'"), (\'float\', \'nan\')), ((\'str\', "\'ellipsoid_j4_parameter\'"), '
 '(\'float\', \'nan\')), ((\'str\', "\'scene_center_line_number\'"), (\'int\', \'-1\')), '
 '((\'str\', "\'scene_center_pixel_number\'"), (\'int\', \'-1\')), ((\'str\', '
 '"\'number_of_sar_channel\'"), (\'int\', \'-1\')), ((\'str\', '
 '"\'sensor_platform_mission_identifier\'"), (\'str\', "\'\'")), ((\'str\', '
 '"\'sensor_id_and_operation_mode\'"), (\'str\', "\'\'")), ((\'str\', '
 '"\'orbit_number_or_flight_line_indicator\'"), (\'int\', \'-1\')), ((\'str\', '
 '"\'motion_compensation_indicator\'"), (\'EnumInteger\', \'-1\')), ((\'str\', '
 '"\'range_pulse_code\'"), (\'str\', "\'\'")), ((\'str\', '
 '"\'down_linked_data_chirp_extraction_index\'"), (\'int\', \'-1\')), ((\'str\', '
 '"\'base_band_conversion_flag\'"), (\'str\', "\'yes\'")), ((\'str\', '
 '"\'range_compression_flag\'"), (\'str\', "\'no\'")), ((\'str\', '
 '"\'receiver_gain_for_like_polarized_at_early_edge_at_the_start_of_the_image\'"), (\'float\', '
 "'nan')), (('str', "
 '"\'receiver_gain_for_cross_polarized_at_early_edge_at_the_start_of_the_image\'"), (\'float\', '
 '\'nan\')), ((\'str\', "\'quantization_in_bits_per_channel\'"), (\'int\', \'-1\')), ((\'str\', '
 '"\'quantized_descriptor\'"), (\'str\', "\'\'")), ((\'str\', "\'dc_bias_for_I_component\'"), '
 '(\'float\', \'nan\')), ((\'str\', "\'dc_bias_for_Q_component\'"), (\'float\', \'nan\')), '
 '((\'str\', "\'gain_imbalance_for_I_and_Q\'"), (\'float\', \'nan\')), ((\'str\', '
 '"\'electronic_boresight\'"), (\'float\', \'nan\')), ((\'str\', "\'mechanical_boresight\'"), '
 '(\'float\', \'nan\')), ((\'str\', "\'echo_tracker_status\'"), (\'str\', "\'on\'")), ((\'str\', '
 '"\'satellite_encoded_binary_time_code\'"), (\'int\', \'-1\')), ((\'str\', '
 '"\'satellite_clock_time\'"), (\'str\', "\'\'")), ((\'str\', "\'processing_facility_id\'"), '
 '(\'str\', "\'\'")), ((\'str\', "\'processing_system_id\'"), (\'str\', "\'\'")), ((\'str\', '
 '"\'processing_version_id\'"), (\'str\', "\'\'")), ((\'str\', "\'product_level_code\'"), '
 '(\'str\', "\'\'")), ((\'str\', "\'product_type_specifier\'"), (\'str\', "\'\'")), ((\'str\', '
 '"\'number_of_looks_in_azimuth\'"), (\'float\', \'nan\')), ((\'str\', '
 '"\'number_of_looks_in_range\'"), (\'float\', \'nan\')), ((\'str\', '
 '"\'weighting_function_in_azimuth\'"), (\'str\', "\'rectangle\'")), ((\'str\', '
 '"\'weighting_function_in_range\'"), (\'str\', "\'rectangle\'")), ((\'str\', '
 '"\'data_input_source\'"), (\'str\', "\'\'")), ((\'str\', '
 '"\'time_direction_indicator_along_line_direction\'"), (\'str\', "\'\'")), ((\'str\', '
 '"\'line_content_indicator\'"), (\'str\', "\'\'")), ((\'str\', "\'clutter_lock_applied_flag\'"), '
 '(\'str\', "\'off\'")), ((\'str\', "\'auto_focusing_applied_flag\'"), (\'str\', "\'yes\'")), '
 '((\'str\', "\'processor_range_compression_designator\'"), (\'str\', "\'\'")), ((\'str\', '
 '"\'calibration_mode_data_location_flag\'"), (\'int\', \'-1\')), ((\'str\', '
 '"\'prf_switching_indicator\'"), (\'int\', \'-1\')), ((\'str\', '
 '"\'line_number_of_prf_switching\'"), (\'int\', \'-1\')), ((\'str\', '
 '"\'yaw_steering_mode_flag\'"), (\'int\', \'-1\')), ((\'str\', "\'nominal_off_nadir_angle\'"), '
 '(\'float\', \'nan\')), ((\'str\', "\'antenna_beam_number\'"), (\'int\', \'-1\'))]))), ((\'str\', '
 '"\'map_projection\'"), (\'Group\', \'/map_projection\', None, (\'dict\', [((\'str\', '
 '"\'general_information\'"), (\'Group\', \'/map_projection/general_information\', None, '
 '(\'dict\', [((\'str\', "\'inter_line_distance_in_output_scene\'"), (\'Variable\', (\'tuple\', '
 '[]), (\'float\', \'nan\'), (\'dict\', [((\'str\', "\'units\'"), (\'str\', "\'m\'"))]))), '
 '((\'str\', "\'inter_pixel_distance_in_output_scene\'"), (\'Variable\', (\'tuple\', []), '
 '(\'float\', \'nan\'), (\'dict\', [((\'str\', "\'units\'"), (\'str\', "\'m\'"))]))), ((\'str\', '
 '"\'angle_between_projection_aixs_from_true_north_at_processed_scene_center\'"), (\'Variable\', '
 '(\'tuple\', []), (\'float\', \'nan\'), (\'dict\', [((\'str\', "\'units\'"), (\'str\', '
 '"\'deg\'"))]))), ((\'str\', "\'actual_platform_orbital_inclination\'"), (\'Variable\', '
 '(\'tuple\', []), (\'float\', \'nan\'), (\'dict\', [((\'str\', "\'units\'"), (\'str\', '
 '"\'deg\'"))]))), ((\'str\', "\'actual_ascending_node\'"), (\'Variable\', (\'tuple\', []), '
 '(\'float\', \'nan\'), (\'dict\', [((\'str\', "\'units\'"), (\'str\', "\'deg\'"))]))), ((\'str\', '
 '"\'distance_of_platform_at_input_scene_center_from_geocenter\'"), (\'Variable\', (\'tuple\', '
 '[]), (\'float\', \'nan\'), (\'dict\', [((\'str\', "\'units\'"), (\'str\', "\'m\'"))]))), '
 '((\'str\', "\'geodetic_altitude_of_the_platform_relative_to_the_ellipsoid\'"), (\'Variable\', '
 '(\'tuple\', []), (\'float\', \'nan\'), (\'dict\', [((\'str\', "\'units\'"), (\'str\', '
 '"\'m\'"))]))), ((\'str\', "\'actual_ground_speed_at_nadir_at_input_scene_center_time\'"), '
 '(\'Variable\', (\'tuple\', []), (\'float\', \'nan\'), (\'dict\', [((\'str\', "\'units\'"), '
 '(\'str\', "\'m/s\'"))]))), ((\'str\', "\'platform_headings\'"), (\'Variable\', (\'tuple\', []), '
 '(\'float\', \'nan\'), (\'dict\', [((\'str\', "\'units\'"), (\'str\', "\'deg\'"))])))]), '
 '(\'dict\', [((\'str\', "\'map_projection_type\'"), (\'str\', "\'\'")), ((\'str\', '
 '"\'n_columns\'"), (\'int\', \'-1\')), ((\'str\', "\'n_rows\'"), (\'int\', \'25000\'))]))), '
 '((\'str\', "\'ellipsoid_parameters\'"), (\'Group\', \'/map_projection/ellipsoid_parameters\', '
 'None, (\'dict\', [((\'str\', "\'semimajor_axis\'"), (\'Variable\', (\'tuple\', []), (\'float\', '
 '\'nan\'), (\'dict\', [((\'str\', "\'units\'"), (\'str\', "\'m\'"))]))), ((\'str\', '
 '"\'semiminor_axis\'"), (\'Variable\', (\'tuple\', []), (\'float\', \'nan\'), (\'dict\', '
 '[((\'str\', "\'units\'"), (\'str\', "\'m\'"))])))]), (\'dict\', [((\'str\', '
 '"\'reference_ellipsoid\'"), (\'str\', "\'\'"))]))), ((\'str\', "\'projection\'"), (\'Group\', '
 '\'/map_projection/projection\', None, (\'dict\', [((\'str\', "\'center_of_projection\'"), '
 "('Group', '/map_projection/projection/center_of_projection', None, ('dict', [(('str', "
 '"\'longitude\'"), (\'Variable\', (\'tuple\', []), (\'float\', \'nan\'), (\'dict\', [((\'str\', '
 '"\'units\'"), (\'str\', "\'deg\'"))]))), ((\'str\', "\'latitude\'"), (\'Variable\', (\'tuple\', '
 '[]), (\'float\', \'nan\'), (\'dict\', [((\'str\', "\'units\'"), (\'str\', "\'deg\'"))])))]), '
 '(\'dict\', [])))]), (\'dict\', [((\'str\', "\'type\'"), (\'str\', "\'UNIVERSAL TRANSVERSE '
 'MERCATOR\'")), ((\'str\', "\'zone_number\'"), (\'str\', "\'\'")), ((\'str\', '
 '"\'scale_factor\'"), (\'float\', \'nan\'))]))), ((\'str\', "\'corner_points\'"), (\'Group\', '
 '\'/map_projection/corner_points\', None, (\'dict\', [((\'str\', "\'projected\'"), (\'Group\', '
 '\'/map_projection/corner_points/projected\', None, (\'dict\', [((\'str\', "\'corner\'"), '
 '(\'Variable\', (\'list\', [(\'str\', "\'corner\'")]), (\'list\', [(\'str\', "\'top_left\'"), '
 '(\'str\', "\'top_right\'"), (\'str\', "\'bottom_right\'"), (\'str\', "\'bottom_left\'")]), '
 '(\'dict\', []))), ((\'str\', "\'northing\'"), (\'Variable\', (\'list\', [(\'str\', '
 '"\'corner\'")]), (\'list\', [(\'float\', \'nan\'), (\'float\', \'nan\'), (\'float\', \'nan\'), '
 '(\'float\', \'nan\')]), (\'dict\', [((\'str\', "\'units\'"), (\'str\', "\'km\'"))]))), '
 '((\'str\', "\'easting\'"), (\'Variable\', (\'list\', [(\'str\', "\'corner\'")]), (\'list\', '
 "[('float', 'nan'), ('float', 'nan'), ('float', 'nan'), ('float', 'nan')]), ('dict', [(('str', "
 '"\'units\'"), (\'str\', "\'km\'"))])))]), (\'dict\', []))), ((\'str\', "\'geographic\'"), '
 "('Group', '/map_projection/corner_points/geographic', None, ('dict', [(('str', "
 '"\'corner\'"), (\'Variable\', (\'list\', [(\'str\', "\'corner\'")]), (\'list\', [(\'str\', '
 '"\'top_left\'"), (\'str\', "\'top_right\'"), (\'str\', "\'bottom_right\'"), (\'str\', '
 '"\'bottom_left\'")]), (\'dict\', []))), ((\'str\', "\'latitude\'"), (\'Variable\', (\'list\', '
 '[(\'str\', "\'corner\'")]), (\'list\', [(\'float\', \'nan\'), (\'float\', \'nan\'), (\'float\', '
 '\'nan\'), (\'float\', \'nan\')]), (\'dict\', [((\'str\', "\'units\'"), (\'str\', '
 '"\'deg\'"))]))), ((\'str\', "\'longitude\'"), (\'Variable\', (\'list\', [(\'str\', '
 '"\'corner\'")]), (\'list\', [(\'float\', \'nan\'), (\'float\', \'nan\'), (\'float\', \'nan\'), '
 '(\'float\', \'nan\')]), (\'dict\', [((\'str\', "\'units\'"), (\'str\', "\'deg\'"))])))]), '
 '(\'dict\', [])))]), (\'dict\', []))), ((\'str\', "\'conversion_coefficients\'"), (\'Group\', '
 "'/map_projection/conversion_coefficients', None, ('dict', [(('str', "
 '"\'projected_to_image\'"), (\'Group\', '
 "'/map_projection/conversion_coefficients/projected_to_image', None, ('dict', [(('str', "
 '"\'names\'"), (\'Variable\', (\'list\', [(\'str\', "\'names\'")]), (\'list\', [(\'str\', '
 '"\'A11\'"), (\'str\', "\'A12\'"), (\'str\', "\'A13\'"), (\'str\', "\'A14\'"), (\'str\', '
 '"\'A21\'"), (\'str\', "\'A22\'"), (\'str\', "\'A23\'"), (\'str\', "\'A24\'")]), (\'dict\', '
 '[]))), ((\'str\', "\'coefficients\'"), (\'Variable\', (\'list\', [(\'str\', "\'names\'")]), '
 "('list', [('float', 'nan'), ('float', 'nan'), ('float', 'nan'), ('float', 'nan'), ('float', "
 "'nan'), ('float', 'nan'), ('float', 'nan'), ('float', 'nan')]), ('dict', [])))]), ('dict', "
 '[((\'str\', "\'formula\'"), (\'str\', "\'E = A11 + A12 * R + A13 * C + A14 * R * C; N = A21 + '
 'A22 * R + A23 * C + A24 * R * C\'")), ((\'str\', "\'E\'"), (\'str\', "\'easting\'")), ((\'str\', '
 '"\'N\'"), (\'str\', "\'northing\'")), ((\'str\', "\'R\'"), (\'str\', "\'row (1-based)\'")), '
 '((\'str\', "\'C\'"), (\'str\', "\'column (1-based)\'"))]))), ((\'str\', '
 '"\'image_to_projected\'"), (\'Group\', '
 "'/map_projection/conversion_coefficients/image_to_projected', None, ('dict', [(('str', "
 '"\'names\'"), (\'Variable\', (\'list\', [(\'str\', "\'names\'")]), (\'list\', [(\'str\', '
 '"\'B11\'"), (\'str\', "\'B12\'"), (\'str\', "\'B13\'"), (\'str\', "\'B14\'"), (\'str\', '
 '"\'B21\'"), (\'str\', "\'B22\'"), (\'str\', "\'B23\'"), (\'str\', "\'B24\'")]), (\'dict\', '
 '[]))), ((\'str\', "\'coefficients\'"), (\'Variable\', (\'list\', [(\'str\', "\'names\'")]), '
 "('list', [('float', 'nan'), ('float', 'nan'), ('float', 'nan'), ('float', 'nan'), ('float', "
 "'nan'), ('float', 'nan'), ('float', 'nan'), ('float', 'nan')]), ('dict', [])))]), ('dict', "
 '[((\'str\', "\'formula\'"), (\'str\', "\'R = B11 + B12 * E + B13 * N + B14 * E * N; C = B21 + '
 'B22 * E + B23 * N + B24 * E * N\'")), ((\'str\', "\'E\'"), (\'str\', "\'easting\'")), ((\'str\', '
 '"\'N\'"), (\'str\', "\'northing\'")), ((\'str\', "\'R\'"), (\'str\', "\'row (1-based)\'")), '
 '((\'str\', "\'C\'"), (\'str\', "\'column (1-based)\'"))])))]), (\'dict\', [])))]), (\'dict\', '
 '[]))), ((\'str\', "\'platform_position\'"), (\'Group\', \'/platform_position\', None, (\'dict\', '
 '[((\'str\', "\'sampling_frequency\'"), (\'Variable\', (\'tuple\', []), (\'float\', \'60.0\'), '
 '(\'dict\', [((\'str\', "\'units\'"), (\'str\', "\'s\'"))]))), ((\'str\', '
 '"\'orbital_elements\'"), (\'Group\', \'/platform_position/orbital_elements\', None, (\'dict\', '
 '[((\'str\', "\'position\'"), (\'Group\', \'/platform_position/orbital_elements/position\', None, '
 '(\'dict\', [((\'str\', "\'x\'"), (\'Variable\', (\'tuple\', []), (\'float\', \'1.0\'), '
 '(\'dict\', [((\'str\', "\'units\'"), (\'str\', "\'m\'"))]))), ((\'str\', "\'y\'"), '
 '(\'Variable\', (\'tuple\', []), (\'float\', \'2.0\'), (\'dict\', [((\'str\', "\'units\'"), '
 '(\'str\', "\'m\'"))]))), ((\'str\', "\'z\'"), (\'Variable\', (\'tuple\', []), (\'float\', '
 '\'3.0\'), (\'dict\', [((\'str\', "\'units\'"), (\'str\', "\'m\'"))])))]), (\'dict\', []))), '
 '((\'str\', "\'velocity\'"), (\'Group\', \'/platform_position/orbital_elements/velocity\', None, '
 '(\'dict\', [((\'str\', "\'x\'"), (\'Variable\', (\'tuple\', []), (\'float\', \'4.0\'), '
 '(\'dict\', [((\'str\', "\'units\'"), (\'str\', "\'m/s\'"))]))), ((\'str\', "\'y\'"), '
 '(\'Variable\', (\'tuple\', []), (\'float\', \'5.0\'), (\'dict\', [((\'str\', "\'units\'"), '
 '(\'str\', "\'m/s\'"))]))), ((\'str\', "\'z\'"), (\'Variable\', (\'tuple\', []), (\'float\', '
 '\'6.0\'), (\'dict\', [((\'str\', "\'units\'"), (\'str\', "\'m/s\'"))])))]), (\'dict\', [])))]), '
 '(\'dict\', [((\'str\', "\'type\'"), (\'str\', "\'high_precision\'"))]))), ((\'str\', '
 '"\'nominal_error\'"), (\'Group\', \'/platform_position/nominal_error\', None, (\'dict\', '
 '[((\'str\', "\'position\'"), (\'Group\', \'/platform_position/nominal_error/position\', None, '
 '(\'dict\', [((\'str\', "\'along_track\'"), (\'Variable\', (\'tuple\', []), (\'float\', \'0.1\'), '
 '(\'dict\', [((\'str\', "\'units\'"), (\'str\', "\'m\'"))]))), ((\'str\', "\'across_track\'"), '
 '(\'Variable\', (\'tuple\', []), (\'float\', \'0.2\'), (\'dict\', [((\'str\', "\'units\'"), '
 '(\'str\', "\'m\'"))]))), ((\'str\', "\'radial\'"), (\'Variable\', (\'tuple\', []), (\'float\', '
 '\'0.3\'), (\'dict\', [((\'str\', "\'units\'"), (\'str\', "\'m\'"))])))]), (\'dict\', []))), '
 '((\'str\', "\'velocity\'"), (\'Group\', \'/platform_position/nominal_error/velocity\', None, '
 '(\'dict\', [((\'str\', "\'along_track\'"), (\'Variable\', (\'tuple\', []), (\'float\', \'0.4\'), '
 '(\'dict\', [((\'str\', "\'units\'"), (\'str\', "\'m/s\'"))]))), ((\'str\', "\'across_track\'"), '
 '(\'Variable\', (\'tuple\', []), (\'float\', \'0.5\'), (\'dict\', [((\'str\', "\'units\'"), '
 '(\'str\', "\'m/s\'"))]))), ((\'str\', "\'radial\'"), (\'Variable\', (\'tuple\', []), (\'float\', '
 '\'0.6\'), (\'dict\', [((\'str\', "\'units\'"), (\'str\', "\'m/s\'"))])))]), (\'dict\', [])))]), '
 '(\'dict\', []))), ((\'str\', "\'positions\'"), (\'Group\', \'/platform_position/positions\', '
 'None, (\'dict\', [((\'str\', "\'position\'"), (\'Group\', '
 '\'/platform_position/positions/position\', None, (\'dict\', [((\'str\', "\'x\'"), (\'Variable\', '
 '(\'list\', [(\'str\', "\'positions\'")]), (\'list\', [(\'float\', \'1000000.0\'), (\'float\', '
 "'1000001.0'), ('float', '1000002.0'), ('float', '1000003.0'), ('float', '1000004.0'), ('float', "
 "'1000005.0'), ('float', '1000006.0'), ('float', '1000007.0'), ('float', '1000008.0'), ('float', "
 "'1000009.0'), ('float', '1000010.0'), ('float', '1000011.0'), ('float', '1000012.0'), ('float', "
 "'1000013.0'), ('float', '1000014.0'), ('float', '1000015.0'), ('float', '1000016.0'), ('float', "
 "'1000017.0'), ('float', '1000018.0'), ('float', '1000019.0'), ('float', '1000020.0'), ('float', "
 "'1000021.0'), ('float', '1000022.0'), ('float', '1000023.0'), ('float', '1000024.0'), ('float', "
 "'1000025.0'), ('float', '1000026.0'), ('float', '1000027.0')]), ('dict', [(('str', "
 '"\'units\'"), (\'str\', "\'m\'"))]))), ((\'str\', "\'y\'"), (\'Variable\', (\'list\', [(\'str\', '
 '"\'positions\'")]), (\'list\', [(\'float\', \'2000000.0\'), (\'float\', \'1999999.0\'), '
 "('float', '1999998.0'), ('float', '1999997.0'), ('float', '1999996.0'), ('float', '1999995.0'), "
 "('float', '1999994.0'), ('float', '1999993.0'), ('float', '1999992.0'), ('float', '1999991.0'), "
 "('float', '1999990.0'), ('float', '1999989.0'), ('float', '1999988.0'), ('float', '1999987.0'), "
 "('float', '1999986.0'), ('float', '1999985.0'), ('float', '1999984.0'), ('float', '1999983.0'), "
 "('float', '1999982.0'), ('float', '1999981.0'), ('float', '1999980.0'), ('float', '1999979.0'), "
 "('float', '1999978.0'), ('float', '1999977.0'), ('float', '1999976.0'), ('float', '1999975.0'), "
 '(\'float\', \'1999974.0\'), (\'float\', \'1999973.0\')]), (\'dict\', [((\'str\', "\'units\'"), '
 '(\'str\', "\'m\'"))]))), ((\'str\', "\'z\'"), (\'Variable\', (\'list\', [(\'str\', '
 '"\'positions\'")]), (\'list\', [(\'float\', \'3000000.0\'), (\'float\', \'3000002.0\'), '
 "('float', '3000004.0'), ('float', '3000006.0'), ('float', '3000008.0'), ('float', '3000010.0'), "
 "('float', '3000012.0'), ('float', '3000014.0'), ('float', '3000016.0'), ('float', '3000018.0'), "
 "('float', '3000020.0'), ('float', '3000022.0'), ('float', '3000024.0'), ('float', '3000026.0'), "
 "('float', '3000028.0'), ('float', '3000030.0'), ('float', '3000032.0'), ('float', '3000034.0'), "
 "('float', '3000036.0'), ('float', '3000038.0'), ('float', '3000040.0'), ('float', '3000042.0'), "
 "('float', '3000044.0'), ('float', '3000046.0'), ('float', '3000048.0'), ('float', '3000050.0'), "
 '(\'float\', \'3000052.0\'), (\'float\', \'3000054.0\')]), (\'dict\', [((\'str\', "\'units\'"), '
 '(\'str\', "\'m\'"))])))]), (\'dict\', []))), ((\'str\', "\'velocity\'"), (\'Group\', '
 '\'/platform_position/positions/velocity\', None, (\'dict\', [((\'str\', "\'x\'"), (\'Variable\', '
 '(\'list\', [(\'str\', "\'positions\'")]), (\'list\', [(\'float\', \'7000.0\'), (\'float\', '
 "'6999.0'), ('float', '6998.0'), ('float', '6997.0'), ('float', '6996.0'), ('float', '6995.0'), "
 "('float', '6994.0'), ('float', '6993.0'), ('float', '6992.0'), ('float', '6991.0'), ('float', "
 "'6990.0'), ('float', '6989.0'), ('float', '6988.0'), ('float', '6987.0'), ('float', '6986.0'), "
 "('float', '6985.0'), ('float', '6984.0'), ('float', '6983.0'), ('float', '6982.0'), ('float', "
 "'6981.0'), ('float', '6980.0'), ('float', '6979.0'), ('float', '6978.0'), ('float', '6977.0'), "
 "('float', '6976.0'), ('float', '6975.0'), ('float', '6974.0'), ('float', '6973.0')]), ('dict', "
 '[((\'str\', "\'units\'"), (\'str\', "\'m/s\'"))]))), ((\'str\', "\'y\'"), (\'Variable\', '
 '(\'list\', [(\'str\', "\'positions\'")]), (\'list\', [(\'float\', \'-7000.0\'), (\'float\', '
 "'-6999.0'), ('float', '-6998.0'), ('float', '-6997.0'), ('float', '-6996.0'), ('float', "
 "'-6995.0'), ('float', '-6994.0'), ('float', '-6993.0'), ('float', '-6992.0'), ('float', "
 "'-6991.0'), ('float', '-6990.0'), ('float', '-6989.0'), ('float', '-6988.0'), ('float', "
 "'-6987.0'), ('float', '-6986.0'), ('float', '-6985.0'), ('float', '-6984.0'), ('float', "
 "'-6983.0'), ('float', '-6982.0'), ('float', '-6981.0'), ('float', '-6980.0'), ('float', "
 "'-6979.0'), ('float', '-6978.0'), ('float', '-6977.0'), ('float', '-6976.0'), ('float', "
 "'-6975.0'), ('float', '-6974.0'), ('float', '-6973.0')]), ('dict', [(('str', "
 '"\'units\'"), (\'str\', "\'m/s\'"))]))), ((\'str\', "\'z\'"), (\'Variable\', (\'list\', '
 '[(\'str\', "\'positions\'")]), (\'list\', [(\'float\', \'0.0\'), (\'float\', \'0.5\'), '
 "('float', '1.0'), ('float', '1.5'), ('float', '2.0'), ('float', '2.5'), ('float', '3.0'), "
 "('float', '3.5'), ('float', '4.0'), ('float', '4.5'), ('float', '5.0'), ('float', '5.5'), "
 "('float', '6.0'), ('float', '6.5'), ('float', '7.0'), ('float', '7.5'), ('float', '8.0'), "
 "('float', '8.5'), ('float', '9.0'), ('float', '9.5'), ('float', '10.0'), ('float', '10.5'), "
 "('float', '11.0'), ('float', '11.5'), ('float', '12.0'), ('float', '12.5'), ('float', '13.0'), "
 '(\'float\', \'13.5\')]), (\'dict\', [((\'str\', "\'units\'"), (\'str\', "\'m/s\'"))])))]), '
 '(\'dict\', [])))]), (\'dict\', [])))]), (\'dict\', [((\'str\', "\'datetime_of_first_point\'"), '
 '(\'str\', "\'2020-02-29T12:00:00.500000\'")), ((\'str\', "\'reference_coordinate_system\'"), '
 '(\'str\', "\'ECR\'")), ((\'str\', "\'leap_second\'"), (\'bool\', \'True\'))]))), ((\'str\', '
 '"\'attitude\'"), (\'Group\', \'/attitude\', None, (\'dict\', [((\'str\', "\'attitude\'"), '
 '(\'Group\', \'/attitude/attitude\', None, (\'dict\', [((\'str\', "\'pitch_error\'"), '
 '(\'Variable\', (\'list\', [(\'str\', "\'points\'")]), (\'list\', [(\'bool\', \'False\'), '
 '(\'bool\', \'True\'), (\'bool\', \'False\')]), (\'dict\', []))), ((\'str\', "\'roll_error\'"), '
 '(\'Variable\', (\'list\', [(\'str\', "\'points\'")]), (\'list\', [(\'bool\', \'False\'), '
 '(\'bool\', \'False\'), (\'bool\', \'False\')]), (\'dict\', []))), ((\'str\', "\'yaw_error\'"), '
 '(\'Variable\', (\'list\', [(\'str\', "\'points\'")]), (\'list\', [(\'bool\', \'True\'), '
 '(\'bool\', \'True\'), (\'bool\', \'True\')]), (\'dict\', []))), ((\'str\', "\'pitch\'"), '
 '(\'Variable\', (\'list\', [(\'str\', "\'points\'")]), (\'list\', [(\'float\', \'0.0\'), '
 '(\'float\', \'1.0\'), (\'float\', \'2.0\')]), (\'dict\', [((\'str\', "\'units\'"), (\'str\', '
 '"\'deg\'"))]))), ((\'str\', "\'roll\'"), (\'Variable\', (\'list\', [(\'str\', "\'points\'")]), '
 "('list', [('float', '0.0'), ('float', '2.0'), ('float', '4.0')]), ('dict', [(('str', "
 '"\'units\'"), (\'str\', "\'deg\'"))]))), ((\'str\', "\'yaw\'"), (\'Variable\', (\'list\', '
 '[(\'str\', "\'points\'")]), (\'list\', [(\'float\', \'0.0\'), (\'float\', \'3.0\'), (\'float\', '
 '\'6.0\')]), (\'dict\', [((\'str\', "\'units\'"), (\'str\', "\'deg\'"))]))), ((\'str\', '
 '"\'time\'"), (\'Variable\', (\'list\', [(\'str\', "\'points\'")]), (\'ndarray\', '
 "'datetime64[ns]', (3,), ['1586563199000000000', '1586649598500000000', '1586735998000000000']), "
 '(\'dict\', [])))]), (\'dict\', [((\'str\', "\'coordinates\'"), (\'list\', [(\'str\', '
 '"\'time\'")]))]))), ((\'str\', "\'rates\'"), (\'Group\', \'/attitude/rates\', None, (\'dict\', '
 '[((\'str\', "\'pitch_error\'"), (\'Variable\', (\'list\', [(\'str\', "\'points\'")]), (\'list\', '
 "[('bool', 'False'), ('bool', 'True'), ('bool', 'False')]), ('dict', []))), (('str', "
 '"\'roll_error\'"), (\'Variable\', (\'list\', [(\'str\', "\'points\'")]), (\'list\', [(\'bool\', '
 "'False'), ('bool', 'False'), ('bool', 'False')]), ('dict', []))), (('str', "
 '"\'yaw_error\'"), (\'Variable\', (\'list\', [(\'str\', "\'points\'")]), (\'list\', [(\'bool\', '
 "'True'), ('bool', 'True'), ('bool', 'True')]), ('dict', []))), (('str', "
 '"\'pitch\'"), (\'Variable\', (\'list\', [(\'str\', "\'points\'")]), (\'list\', [(\'float\', '
 '\'0.0\'), (\'float\', \'0.01\'), (\'float\', \'0.02\')]), (\'dict\', [((\'str\', "\'units\'"), '
 '(\'str\', "\'deg/s\'"))]))), ((\'str\', "\'roll\'"), (\'Variable\', (\'list\', [(\'str\', '
 '"\'points\'")]), (\'list\', [(\'float\', \'0.0\'), (\'float\', \'0.02\'), (\'float\', '
 '\'0.04\')]), (\'dict\', [((\'str\', "\'units\'"), (\'str\', "\'deg/s\'"))]))), ((\'str\', '
 '"\'yaw\'"), (\'Variable\', (\'list\', [(\'str\', "\'points\'")]), (\'list\', [(\'float\', '
 '\'0.0\'), (\'float\', \'0.03\'), (\'float\', \'0.06\')]), (\'dict\', [((\'str\', "\'units\'"), '
 '(\'str\', "\'deg/s\'"))]))), ((\'str\', "\'time\'"), (\'Variable\', (\'list\', [(\'str\', '
 '"\'points\'")]), (\'ndarray\', \'datetime64[ns]\', (3,), [\'1586563199000000000\', '
 "'1586649598500000000', '1586735998000000000']), ('dict', [])))]), ('dict', [(('str', "
 '"\'coordinates\'"), (\'list\', [(\'str\', "\'time\'")]))])))]), (\'dict\', []))), ((\'str\', '
 '"\'radiometric_data\'"), (\'Group\', \'/radiometric_data\', None, (\'dict\', [((\'str\', '
 '"\'calibration_factor\'"), (\'Variable\', (\'tuple\', []), (\'float\', \'nan\'), (\'dict\', '
 '[((\'str\', "\'formula\'"), (\'str\', "\'σ⁰=10*log_10<I^2 + Q^2> + CF - 32.0; '
 'σ⁰(level1.5/level3.1)=10*log_10<DN^2> + CF\'")), ((\'str\', "\'I\'"), (\'str\', "\'level 1.1 '
 'real pixel value\'")), ((\'str\', "\'Q\'"), (\'str\', "\'level 1.1 imaginary pixel value\'")), '
 '((\'str\', "\'DN\'"), (\'str\', "\'level 1.5/3.1 pixel value\'"))]))), ((\'str\', '
 '"\'distortion_matrix\'"), (\'Group\', \'/radiometric_data/distortion_matrix\', None, (\'dict\', '
 '[((\'str\', "\'transmission\'"), (\'Variable\', (\'list\', [(\'str\', "\'i\'"), (\'str\', '
 '"\'j\'")]), (\'list\', [(\'list\', [(\'complex\', \'(nan+nanj)\'), (\'complex\', '
 "'(nan+nanj)')]), ('list', [('complex', '(nan+nanj)'), ('complex', '(nan+nanj)')])]), ('dict', "
 '[]))), ((\'str\', "\'reception\'"), (\'Variable\', (\'list\', [(\'str\', "\'i\'"), (\'str\', '
 '"\'j\'")]), (\'list\', [(\'list\', [(\'complex\', \'(nan+nanj)\'), (\'complex\', '
 "'(nan+nanj)')]), ('list', [('complex', '(nan+nanj)'), ('complex', '(nan+nanj)')])]), ('dict', "
 '[]))), ((\'str\', "\'i\'"), (\'Variable\', (\'list\', [(\'str\', "\'i\'")]), (\'list\', '
 '[(\'str\', "\'horizontal\'"), (\'str\', "\'vertical\'")]), (\'dict\', [((\'str\', '
 '"\'long_name\'"), (\'str\', "\'reception polarization\'"))]))), ((\'str\', "\'j\'"), '
 '(\'Variable\', (\'list\', [(\'str\', "\'j\'")]), (\'list\', [(\'str\', "\'horizontal\'"), '
 '(\'str\', "\'vertical\'")]), (\'dict\', [((\'str\', "\'long_name\'"), (\'str\', "\'transmission '
 'polarization\'"))])))]), (\'dict\', [((\'str\', "\'formula\'"), (\'str\', "\'Z = '
 'A*1/r*exp(-4πr/λ) * RST + N\'")), ((\'str\', "\'Z\'"), (\'str\', "\'measurement matrix\'")), '
 '((\'str\', "\'A\'"), (\'str\', "\'amplitude\'")), ((\'str\', "\'r\'"), (\'str\', "\'slant '
 'range\'")), ((\'str\', "\'S\'"), (\'str\', "\'true scattering matrix\'")), ((\'str\', "\'N\'"), '
 '(\'str\', "\'noise component\'")), ((\'str\', "\'R\'"), (\'str\', "\'reception distortion '
 'matrix\'")), ((\'str\', "\'T\'"), (\'str\', "\'transmission distortion matrix\'"))])))]), '
 '(\'dict\', []))), ((\'str\', "\'data_quality_summary\'"), (\'Group\', \'/data_quality_summary\', '
 'None, (\'dict\', [((\'str\', "\'absolute_radiometric_data_quality\'"), (\'Group\', '
 "'/data_quality_summary/absolute_radiometric_data_quality', None, ('dict', [(('str', "
 '"\'islr\'"), (\'Variable\', (\'tuple\', []), (\'float\', \'nan\'), (\'dict\', [((\'str\', '
 '"\'units\'"), (\'str\', "\'dB\'"))]))), ((\'str\', "\'pslr\'"), (\'Variable\', (\'tuple\', []), '
 '(\'float\', \'nan\'), (\'dict\', [((\'str\', "\'units\'"), (\'str\', "\'dB\'"))]))), ((\'str\', '
 '"\'estimate_of_snr\'"), (\'Variable\', (\'tuple\', []), (\'float\', \'nan\'), (\'dict\', '
 '[((\'str\', "\'units\'"), (\'str\', "\'dB\'"))]))), ((\'str\', "\'ber\'"), (\'Variable\', '
 '(\'tuple\', []), (\'float\', \'nan\'), (\'dict\', [((\'str\', "\'units\'"), (\'str\', '
 '"\'dB\'"))]))), ((\'str\', "\'slant_range_resolution\'"), (\'Variable\', (\'tuple\', []), '
 '(\'float\', \'nan\'), (\'dict\', [((\'str\', "\'units\'"), (\'str\', "\'m\'"))]))), ((\'str\', '
 '"\'azimuth_resolution\'"), (\'Variable\', (\'tuple\', []), (\'float\', \'nan\'), (\'dict\', '
 '[((\'str\', "\'units\'"), (\'str\', "\'m\'"))]))), ((\'str\', "\'radiometric_resolution\'"), '
 '(\'Variable\', (\'tuple\', []), (\'float\', \'nan\'), (\'dict\', [((\'str\', "\'units\'"), '
 '(\'str\', "\'dB\'"))]))), ((\'str\', "\'instantaneous_dynamic_range\'"), (\'Variable\', '
 '(\'tuple\', []), (\'float\', \'nan\'), (\'dict\', [((\'str\', "\'units\'"), (\'str\', '
 '"\'dB\'"))]))), ((\'str\', "\'nominal_absolute_radiometric_calibration_uncertainty\'"), '
 "('Group', "
 "'/data_quality_summary/absolute_radiometric_data_quality/nominal_absolute_radiometric_calibration_uncertainty', "
 'None, (\'dict\', [((\'str\', "\'magnitude\'"), (\'Variable\', (\'tuple\', []), (\'float\', '
 '\'nan\'), (\'dict\', [((\'str\', "\'units\'"), (\'str\', "\'dB\'"))]))), ((\'str\', '
 '"\'phase\'"), (\'Variable\', (\'tuple\', []), (\'float\', \'nan\'), (\'dict\', [((\'str\', '
 '"\'units\'"), (\'str\', "\'deg\'"))])))]), (\'dict\', [])))]), (\'dict\', [((\'str\', '
 '"\'azimuth_ambiguity_rate\'"), (\'float\', \'nan\')), ((\'str\', "\'range_ambiguity_rate\'"), '
 '(\'float\', \'nan\'))]))), ((\'str\', "\'relative_radiometric_quality\'"), (\'Group\', '
 "'/data_quality_summary/relative_radiometric_quality', None, ('dict', [(('str', "
 '"\'magnitude\'"), (\'Variable\', (\'list\', [(\'str\', "\'channel\'")]), (\'list\', [(\'float\', '
 '\'nan\'), (\'float\', \'nan\')]), (\'dict\', [((\'str\', "\'units\'"), (\'str\', "\'dB\'"))]))), '
 '((\'str\', "\'phase\'"), (\'Variable\', (\'list\', [(\'str\', "\'channel\'")]), (\'list\', '
 '[(\'float\', \'nan\'), (\'float\', \'nan\')]), (\'dict\', [((\'str\', "\'units\'"), (\'str\', '
 '"\'deg\'"))])))]), (\'dict\', []))), ((\'str\', "\'absolute_geometric_quality\'"), (\'Group\', '
 "'/data_quality_summary/absolute_geometric_quality', None, ('dict', [(('str', "
 '"\'absolute_location_error\'"), (\'Group\', '
 "'/data_quality_summary/absolute_geometric_quality/absolute_location_error', None, ('dict', "
 '[((\'str\', "\'along_track\'"), (\'Variable\', (\'tuple\', []), (\'float\', \'nan\'), (\'dict\', '
 '[((\'str\', "\'units\'"), (\'str\', "\'m\'"))]))), ((\'str\', "\'across_track\'"), '
 '(\'Variable\', (\'tuple\', []), (\'float\', \'nan\'), (\'dict\', [((\'str\', "\'units\'"), '
 '(\'str\', "\'m\'"))])))]), (\'dict\', []))), ((\'str\', "\'geometric_distortion_scale\'"), '
 "('Group', '/data_quality_summary/absolute_geometric_quality/geometric_distortion_scale', None, "
 '(\'dict\', []), (\'dict\', [((\'str\', "\'line_direction\'"), (\'float\', \'nan\')), ((\'str\', '
 '"\'pixel_direction\'"), (\'float\', \'nan\'))])))]), (\'dict\', [((\'str\', '
 '"\'geometric_distortion_skew\'"), (\'float\', \'nan\')), ((\'str\', '
 '"\'scene_orientation_error\'"), (\'float\', \'nan\'))]))), ((\'str\', '
 '"\'relative_geometric_quality\'"), (\'Group\', '
 "'/data_quality_summary/relative_geometric_quality', None, ('dict', [(('str', "
 '"\'along_track\'"), (\'Variable\', (\'list\', [(\'str\', "\'channel\'")]), (\'list\', '
 '[(\'float\', \'nan\'), (\'float\', \'nan\')]), (\'dict\', [((\'str\', "\'units\'"), (\'str\', '
 '"\'m\'"))]))), ((\'str\', "\'across_track\'"), (\'Variable\', (\'list\', [(\'str\', '
 '"\'channel\'")]), (\'list\', [(\'float\', \'nan\'), (\'float\', \'nan\')]), (\'dict\', '
 '[((\'str\', "\'units\'"), (\'str\', "\'m\'"))])))]), (\'dict\', [])))]), (\'dict\', [((\'str\', '
 '"\'sar_channel_id\'"), (\'str\', "\'\'")), ((\'str\', '
 '"\'date_of_the_last_calibration_update\'"), (\'str\', "\'\'")), ((\'str\', '
 '"\'number_of_channels\'"), (\'int\', \'2\'))]))), ((\'str\', "\'transformations\'"), (\'Group\', '
 '\'/transformations\', None, (\'dict\', [((\'str\', "\'projected_to_image\'"), (\'Group\', '
 '\'/transformations/projected_to_image\', None, (\'dict\', [((\'str\', "\'a\'"), (\'Variable\', '
 '(\'list\', [(\'str\', "\'mid_precision_coeffs\'")]), (\'list\', [(\'float\', \'nan\'), '
 "('float', 'nan'), ('float', 'nan'), ('float', 'nan'), ('float', 'nan'), ('float', 'nan'), "
 "('float', 'nan'), ('float', 'nan'), ('float', 'nan'), ('float', 'nan')]), ('dict', []))), "
 '((\'str\', "\'b\'"), (\'Variable\', (\'list\', [(\'str\', "\'mid_precision_coeffs\'")]), '
 "('list', [('float', 'nan'), ('float', 'nan'), ('float', 'nan'), ('float', 'nan'), ('float', "
 "'nan'), ('float', 'nan'), ('float', 'nan'), ('float', 'nan'), ('float', 'nan'), ('float', "
 '\'nan\')]), (\'dict\', [])))]), (\'dict\', [((\'str\', "\'formula\'"), (\'str\', "\'P = a0 + '
 'a1*φ + a2*λ + a3*φ*λ + a4*φ^2 + a5*λ^2 + a6*φ^2*λ + a7*φ*λ^2 + a8*φ^3 + a9*λ^3; L = b0 + b1*φ + '
 'b2*λ + b3*φ*λ + b4*φ^2 + b5*λ^2 + b6*φ^2*λ + b7*φ*λ^2 + b8*φ^3 + b9*λ^3\'"))]))), ((\'str\', '
 '"\'calibration_at_upper_image\'"), (\'Group\', \'/transformations/calibration_at_upper_image\', '
 'None, (\'dict\', []), (\'dict\', [((\'str\', "\'start_line_number\'"), (\'int\', \'-1\')), '
 '((\'str\', "\'end_line_number\'"), (\'int\', \'-1\'))]))), ((\'str\', '
 '"\'calibration_at_bottom_image\'"), (\'Group\', '
 "'/transformations/calibration_at_bottom_image', None, ('dict', []), ('dict', [(('str', "
 '"\'start_line_number\'"), (\'int\', \'-1\')), ((\'str\', "\'end_line_number\'"), (\'int\', '
 '\'-1\'))]))), ((\'str\', "\'number_of_loss_lines\'"), (\'Group\', '
 "'/transformations/number_of_loss_lines', None, ('dict', []), ('dict', [(('str', "
 '"\'level1.0\'"), (\'int\', \'-1\')), ((\'str\', "\'others\'"), (\'int\', \'-1\'))]))), '
 '((\'str\', "\'image_to_geographic\'"), (\'Group\', \'/transformations/image_to_geographic\', '
 'None, (\'dict\', [((\'str\', "\'a\'"), (\'Variable\', (\'list\', [(\'str\', '
 '"\'high_precision_coeffs\'")]), (\'list\', [(\'float\', \'nan\'), (\'float\', \'nan\'), '
 "('float', 'nan'), ('float', 'nan'), ('float', 'nan'), ('float', 'nan'), ('float', 'nan'), "
 "('float', 'nan'), ('float', 'nan'), ('float', 'nan'), ('float', 'nan'), ('float', 'nan'), "
 "('float', 'nan'), ('float', 'nan'), ('float', 'nan'), ('float', 'nan'), ('float', 'nan'), "
 "('float', 'nan'), ('float', 'nan'), ('float', 'nan'), ('float', 'nan'), ('float', 'nan'), "
 "('float', 'nan'), ('float', 'nan'), ('float', 'nan')]), ('dict', []))), (('str', "
 '"\'b\'"), (\'Variable\', (\'list\', [(\'str\', "\'high_precision_coeffs\'")]), (\'list\', '
 "[('float', 'nan'), ('float', 'nan'), ('float', 'nan'), ('float', 'nan'), ('float', 'nan'), "
 "('float', 'nan'), ('float', 'nan'), ('float', 'nan'), ('float', 'nan'), ('float', 'nan'), "
 "('float', 'nan'), ('float', 'nan'), ('float', 'nan'), ('float', 'nan'), ('float', 'nan'), "
 "('float', 'nan'), ('float', 'nan'), ('float', 'nan'), ('float', 'nan'), ('float', 'nan'), "
 "('float', 'nan'), ('float', 'nan'), ('float', 'nan'), ('float', 'nan'), ('float', 'nan')]), "
 '(\'dict\', []))), ((\'str\', "\'origin_pixel\'"), (\'Variable\', (\'tuple\', []), (\'float\', '
 '\'nan\'), (\'dict\', []))), ((\'str\', "\'origin_line\'"), (\'Variable\', (\'tuple\', []), '
 '(\'float\', \'nan\'), (\'dict\', [])))]), (\'dict\', [((\'str\', "\'formula\'"), (\'str\', "\'φ '
 '= a0*L^4*P^4 + a1*L^3*P^4 + a2*L^2*P^4 + a3*L*P^4 + a4*P^4 + a5*L^4*P^3 + a6*L^3*P^3 + '
 'a7*L^2*P^3 + a8*L*P^3 + a9*P^3 + a10*L^4*P^2 + a11*L^3*P^2 + a12*L^2*P^2 + a13*L*P^2 + a14*P^2 + '
 'a15*L^4*P + a16*L^3*P + a17*L^2*P + a18*L*P + a19*P + a20*L^4 + a21*L^3 + a22*L^2 + a23*L + a24; '
 'λ = b0*L^4*P^4 + b1*L^3*P^4 + b2*L^2*P^4 + b3*L*P^4 + b4*P^4 + b5*L^4*P^3 + b6*L^3*P^3 + '
 'b7*L^2*P^3 + b8*L*P^3 + b9*P^3 + b10*L^4*P^2 + b11*L^3*P^2 + b12*L^2*P^2 + b13*L*P^2 + b14*P^2 + '
 'b15*L^4*P + b16*L^3*P + b17*L^2*P + b18*L*P + b19*P + b20*L^4 + b21*L^3 + b22*L^2 + b23*L + '
 'b24\'"))]))), ((\'str\', "\'geographic_to_image\'"), (\'Group\', '
 '\'/transformations/geographic_to_image\', None, (\'dict\', [((\'str\', "\'c\'"), (\'Variable\', '
 '(\'list\', [(\'str\', "\'high_precision_coeffs\'")]), (\'list\', [(\'float\', \'nan\'), '
 "('float', 'nan'), ('float', 'nan'), ('float', 'nan'), ('float', 'nan'), ('float', 'nan'), "
 "('float', 'nan'), ('float', 'nan'), ('float', 'nan'), ('float', 'nan'), ('float', 'nan'), "
 "('float', 'nan'), ('float', 'nan'), ('float', 'nan'), ('float', 'nan'), ('float', 'nan'), "
 "('float', 'nan'), ('float', 'nan'), ('float', 'nan'), ('float', 'nan'), ('float', 'nan'), "
 "('float', 'nan'), ('float', 'nan'), ('float', 'nan'), ('float', 'nan')]), ('dict', []))), "
 '((\'str\', "\'d\'"), (\'Variable\', (\'list\', [(\'str\', "\'high_precision_coeffs\'")]), '
 "('list', [('float', 'nan'), ('float', 'nan'), ('float', 'nan'), ('float', 'nan'), ('float', "
 "'nan'), ('float', 'nan'), ('float', 'nan'), ('float', 'nan'), ('float', 'nan'), ('float', "
 "'nan'), ('float', 'nan'), ('float', 'nan'), ('float', 'nan'), ('float', 'nan'), ('float', "
 "'nan'), ('float', 'nan'), ('float', 'nan'), ('float', 'nan'), ('float', 'nan'), ('float', "
 "'nan'), ('float', 'nan'), ('float', 'nan'), ('float', 'nan'), ('float', 'nan'), ('float', "
 '\'nan\')]), (\'dict\', []))), ((\'str\', "\'origin_latitude\'"), (\'Variable\', (\'tuple\', []), '
 '(\'float\', \'nan\'), (\'dict\', []))), ((\'str\', "\'origin_longitude\'"), (\'Variable\', '
 "('tuple', []), ('float', 'nan'), ('dict', [])))]), ('dict', [(('str', "
 '"\'formula\'"), (\'str\', "\'p = c0*Λ^4*Φ^4 + c1*Λ^3*Φ^4 + c2*Λ^2*Φ^4 + c3*Λ*Φ^4 + c4*Φ^4 + '
 'c5*Λ^4*Φ^3 + c6*Λ^3*Φ^3 + c7*Λ^2*Φ^3 + c8*Λ*Φ^3 + c9*Φ^3 + c10*Λ^4*Φ^2 + c11*Λ^3*Φ^2 + '
 'c12*Λ^2*Φ^2 + c13*Λ*Φ^2 + c14*Φ^2 + c15*Λ^4*Φ + c16*Λ^3*Φ + c17*Λ^2*Φ + c18*Λ*Φ + c19*Φ; l = '
 'd0*Λ^4*Φ^4 + d1*Λ^3*Φ^4 + d2*Λ^2*Φ^4 + d3*Λ*Φ^4 + d4*Φ^4 + d5*Λ^4*Φ^3 + d6*Λ^3*Φ^3 + d7*Λ^2*Φ^3 '
 '+ d8*Λ*Φ^3 + d9*Φ^3 + d10*Λ^4*Φ^2 + d11*Λ^3*Φ^2 + d12*Λ^2*Φ^2 + d13*Λ*Φ^2 + d14*Φ^2 + d15*Λ^4*Φ '
 '+ d16*Λ^3*Φ + d17*Λ^2*Φ + d18*Λ*Φ + d19*Φ + d20*Λ^4 + d21*Λ^3 + d22*Λ^2 + d23*Λ + '
 'd24\'"))])))]), (\'dict\', [((\'str\', "\'calibration_mode_data_location_flag\'"), '
 '(\'EnumInteger\', \'-1\')), ((\'str\', "\'prf_switching\'"), (\'bool\', \'True\')), ((\'str\', '
 '"\'start_line_number_of_prf_switching\'"), (\'int\', \'-1\'))])))]), (\'dict\', [])))',
 '(\'raises\', \'AttributeError\', "\'list\' object has no attribute \'keys\'")']


def test_equivalence():
    main(run_cases, EXPECTED)


if __name__ == "__main__":
    main(run_cases, EXPECTED)
