"""Equivalence check for refactoring 1 (`ceos_alos2.decoders.decode_filename`).

Run as a script (`python _eq/1/equiv.py`) or through pytest. `python _eq/1/equiv.py --record`
prints the table of expected outcomes; the table below was recorded from the UNCHANGED code.
"""

import sys

from ceos_alos2 import decoders


def describe_exception(exc):
    chain = []
    while exc is not None:
        chain.append((type(exc).__name__, str(exc), exc.__suppress_context__))
        exc = exc.__cause__
    return chain


def outcome(func, *args):
    try:
        result = func(*args)
    except Exception as e:
        return ("raise", describe_exception(e))

    # repr of a dict also pins down the order of the items and the types of the values
    return ("ok", type(result).__name__, repr(result), [type(v).__name__ for v in result.values()])


class Name(str):
    """a str subclass"""


INPUTS = [
    # plain image files
    "IMG-HH-ALOS2225333200-180726-WWDR1.1__D-B1",
    "IMG-HV-ALOS2225333200-180726-WWDR1.1__D-F9",
    "IMG-VV-ALOS2041062800-150225-HBQR1.5RUA",
    "IMG-VH-ALOS2041062800-150225-HBQR1.5GUD",
    "IMG-HH-ALOS2000102800-140624-UBSL3.1GPA",
    "IMG-HH-ALOS2000102800-000101-SBSR1.0_MA",
    "IMG-HH-ALOS2000102800-991231-VBDL1.5_LD-F0",
    "IMG-HH-ALOS2000102800-690101-FBDR1.1__A",
    "IMG-HH-ALOS2000102800-681231-FBSR1.1__A",
    # files without a polarization
    "LED-ALOS2225333200-180726-WWDR1.1__D",
    "TRL-ALOS2225333200-180726-WWDR1.1__D",
    "VOL-ALOS2225333200-180726-WWDR1.1__D",
    "VOL-ALOS2225333200-180726-WWDR1.1__D-B4",
    "XYZ-AAAAA000000000-200229-WWSR1.5G_A",
    "ABC-0000000000000A-200229-WBSR1.5R_A",
    Name("LED-ALOS2225333200-180726-WWDR1.1__D"),
    # any pair of H / V is accepted by the pattern
    "IMG-HH-ALOS2225333200-180726-WBDR1.1__D",
    "IMG-VV-ALOS2225333200-180726-UBDR1.1__D",
    # the file name matches, but one of the parts is invalid
    "IMG-HH-ALOS2225333200-180732-WWDR1.1__D-B1",
    "IMG-HH-ALOS2225333200-181301-WWDR1.1__D-B1",
    "IMG-HH-ALOS2225333200-190229-WWDR1.1__D",
    "IMG-HH-ALOS2225333200-180726-XXXR1.1__D-B1",
    "IMG-HH-ALOS2225333200-180726-WWDX1.1__D-B1",
    "IMG-HH-ALOS2225333200-180726-WWDR2.0__D-B1",
    "IMG-HH-ALOS2225333200-180726-WWDR1.1X_D-B1",
    "IMG-HH-ALOS2225333200-180726-WWDR1.1_XD-B1",
    "IMG-HH-ALOS2225333200-180726-WWDR1.1__X-B1",
    "IMG-HH-ALOS2225333200-180726-WWDR1.1__",
    "IMG-HH-alos2225333200-180726-WWDR1.1__D",
    "IMG-HH-ALOS2225333200-180732-XXXR1.1__D",
    "LED-ALOS2225333200-180726-WWDR1.10__D",
    "LED-ALOS2225333200-180726-..........",
    "LED-ALOS2225333200-180726-__________",
    # not a file name
    "",
    " ",
    "IMG",
    "IMG-HH",
    "img-HH-ALOS2225333200-180726-WWDR1.1__D-B1",
    "IMG-HX-ALOS2225333200-180726-WWDR1.1__D-B1",
    "IMG-H-ALOS2225333200-180726-WWDR1.1__D-B1",
    "IMG-HH-ALOS2225333200-180726-WWDR1.1__D-X1",
    "IMG-HH-ALOS2225333200-180726-WWDR1.1__D-B",
    "IMG-HH-ALOS2225333200-180726-WWDR1.1__D-B12",
    "IMG-HH-ALOS2225333200-180726-WWDR1.1__D-B1 ",
    " IMG-HH-ALOS2225333200-180726-WWDR1.1__D-B1",
    "IMG-HH-ALOS2225333200-180726-WWDR1.1__D-B1\n",
    "IMG-HH-ALOS2225333200-18072-WWDR1.1__D-B1",
    "IMG-HH-ALOS222533320-180726-WWDR1.1__D-B1",
    "IMG--ALOS2225333200-180726-WWDR1.1__D",
    "IMG-HH-ALOS2225333200-180726-WWDR1.1__D.tif",
    "/data/IMG-HH-ALOS2225333200-180726-WWDR1.1__D",
    "summary.txt",
    # not a string
    None,
    b"IMG-HH-ALOS2225333200-180726-WWDR1.1__D-B1",
    bytearray(b"LED-ALOS2225333200-180726-WWDR1.1__D"),
    0,
    1.5,
    ["LED-ALOS2225333200-180726-WWDR1.1__D"],
    ("LED-ALOS2225333200-180726-WWDR1.1__D",),
    {"a": 1},
]

EXPECTED = [
    ('ok', 'dict', "{'filetype': 'IMG', 'polarization': 'HH', 'mission_name': 'ALOS2', 'orbit_accumulation': '22533', 'scene_frame': '3200', 'date': datetime.datetime(2018, 7, 26, 0, 0), 'observation_mode': 'ScanSAR nominal 28MHz mode dual polarization', 'observation_direction': 'right looking', 'processing_level': 'level 1.1', 'processing_option': 'not specified', 'map_projection': 'not specified', 'orbit_direction': 'descending', 'processing_method': 'SPECAN method', 'scan_number': '1'}", ['str', 'str', 'str', 'str', 'str', 'datetime', 'str', 'str', 'str', 'str', 'str', 'str', 'str', 'str']),
    ('ok', 'dict', "{'filetype': 'IMG', 'polarization': 'HV', 'mission_name': 'ALOS2', 'orbit_accumulation': '22533', 'scene_frame': '3200', 'date': datetime.datetime(2018, 7, 26, 0, 0), 'observation_mode': 'ScanSAR nominal 28MHz mode dual polarization', 'observation_direction': 'right looking', 'processing_level': 'level 1.1', 'processing_option': 'not specified', 'map_projection': 'not specified', 'orbit_direction': 'descending', 'processing_method': 'full aperture_method', 'scan_number': '9'}", ['str', 'str', 'str', 'str', 'str', 'datetime', 'str', 'str', 'str', 'str', 'str', 'str', 'str', 'str']),
    ('ok', 'dict', "{'filetype': 'IMG', 'polarization': 'VV', 'mission_name': 'ALOS2', 'orbit_accumulation': '04106', 'scene_frame': '2800', 'date': datetime.datetime(2015, 2, 25, 0, 0), 'observation_mode': 'high-sensitive mode full (quad.) polarimetry', 'observation_direction': 'right looking', 'processing_level': 'level 1.5', 'processing_option': 'geo-reference', 'map_projection': 'UTM', 'orbit_direction': 'ascending'}", ['str', 'str', 'str', 'str', 'str', 'datetime', 'str', 'str', 'str', 'str', 'str', 'str']),
    ('ok', 'dict', "{'filetype': 'IMG', 'polarization': 'VH', 'mission_name': 'ALOS2', 'orbit_accumulation': '04106', 'scene_frame': '2800', 'date': datetime.datetime(2015, 2, 25, 0, 0), 'observation_mode': 'high-sensitive mode full (quad.) polarimetry', 'observation_direction': 'right looking', 'processing_level': 'level 1.5', 'processing_option': 'geo-code', 'map_projection': 'UTM', 'orbit_direction': 'descending'}", ['str', 'str', 'str', 'str', 'str', 'datetime', 'str', 'str', 'str', 'str', 'str', 'str']),
    ('ok', 'dict', "{'filetype': 'IMG', 'polarization': 'HH', 'mission_name': 'ALOS2', 'orbit_accumulation': '00010', 'scene_frame': '2800', 'date': datetime.datetime(2014, 6, 24, 0, 0), 'observation_mode': 'ultra-fine mode single polarization', 'observation_direction': 'left looking', 'processing_level': 'level 3.1', 'processing_option': 'geo-code', 'map_projection': 'PS', 'orbit_direction': 'ascending'}", ['str', 'str', 'str', 'str', 'str', 'datetime', 'str', 'str', 'str', 'str', 'str', 'str']),
    ('ok', 'dict', "{'filetype': 'IMG', 'polarization': 'HH', 'mission_name': 'ALOS2', 'orbit_accumulation': '00010', 'scene_frame': '2800', 'date': datetime.datetime(2000, 1, 1, 0, 0), 'observation_mode': 'spotlight mode', 'observation_direction': 'right looking', 'processing_level': 'level 1.0', 'processing_option': 'not specified', 'map_projection': 'MER', 'orbit_direction': 'ascending'}", ['str', 'str', 'str', 'str', 'str', 'datetime', 'str', 'str', 'str', 'str', 'str', 'str']),
    ('ok', 'dict', "{'filetype': 'IMG', 'polarization': 'HH', 'mission_name': 'ALOS2', 'orbit_accumulation': '00010', 'scene_frame': '2800', 'date': datetime.datetime(1999, 12, 31, 0, 0), 'observation_mode': 'ScanSAR wide mode dual polarization', 'observation_direction': 'left looking', 'processing_level': 'level 1.5', 'processing_option': 'not specified', 'map_projection': 'LCC', 'orbit_direction': 'descending', 'processing_method': 'full aperture_method', 'scan_number': '0'}", ['str', 'str', 'str', 'str', 'str', 'datetime', 'str', 'str', 'str', 'str', 'str', 'str', 'str', 'str']),
    ('ok', 'dict', "{'filetype': 'IMG', 'polarization': 'HH', 'mission_name': 'ALOS2', 'orbit_accumulation': '00010', 'scene_frame': '2800', 'date': datetime.datetime(1969, 1, 1, 0, 0), 'observation_mode': 'fine mode dual polarization', 'observation_direction': 'right looking', 'processing_level': 'level 1.1', 'processing_option': 'not specified', 'map_projection': 'not specified', 'orbit_direction': 'ascending'}", ['str', 'str', 'str', 'str', 'str', 'datetime', 'str', 'str', 'str', 'str', 'str', 'str']),
    ('ok', 'dict', "{'filetype': 'IMG', 'polarization': 'HH', 'mission_name': 'ALOS2', 'orbit_accumulation': '00010', 'scene_frame': '2800', 'date': datetime.datetime(2068, 12, 31, 0, 0), 'observation_mode': 'fine mode single polarization', 'observation_direction': 'right looking', 'processing_level': 'level 1.1', 'processing_option': 'not specified', 'map_projection': 'not specified', 'orbit_direction': 'ascending'}", ['str', 'str', 'str', 'str', 'str', 'datetime', 'str', 'str', 'str', 'str', 'str', 'str']),
    ('ok', 'dict', "{'filetype': 'LED', 'polarization': None, 'mission_name': 'ALOS2', 'orbit_accumulation': '22533', 'scene_frame': '3200', 'date': datetime.datetime(2018, 7, 26, 0, 0), 'observation_mode': 'ScanSAR nominal 28MHz mode dual polarization', 'observation_direction': 'right looking', 'processing_level': 'level 1.1', 'processing_option': 'not specified', 'map_projection': 'not specified', 'orbit_direction': 'descending'}", ['str', 'NoneType', 'str', 'str', 'str', 'datetime', 'str', 'str', 'str', 'str', 'str', 'str']),
    ('ok', 'dict', "{'filetype': 'TRL', 'polarization': None, 'mission_name': 'ALOS2', 'orbit_accumulation': '22533', 'scene_frame': '3200', 'date': datetime.datetime(2018, 7, 26, 0, 0), 'observation_mode': 'ScanSAR nominal 28MHz mode dual polarization', 'observation_direction': 'right looking', 'processing_level': 'level 1.1', 'processing_option': 'not specified', 'map_projection': 'not specified', 'orbit_direction': 'descending'}", ['str', 'NoneType', 'str', 'str', 'str', 'datetime', 'str', 'str', 'str', 'str', 'str', 'str']),
    ('ok', 'dict', "{'filetype': 'VOL', 'polarization': None, 'mission_name': 'ALOS2', 'orbit_accumulation': '22533', 'scene_frame': '3200', 'date': datetime.datetime(2018, 7, 26, 0, 0), 'observation_mode': 'ScanSAR nominal 28MHz mode dual polarization', 'observation_direction': 'right looking', 'processing_level': 'level 1.1', 'processing_option': 'not specified', 'map_projection': 'not specified', 'orbit_direction': 'descending'}", ['str', 'NoneType', 'str', 'str', 'str', 'datetime', 'str', 'str', 'str', 'str', 'str', 'str']),
    ('ok', 'dict', "{'filetype': 'VOL', 'polarization': None, 'mission_name': 'ALOS2', 'orbit_accumulation': '22533', 'scene_frame': '3200', 'date': datetime.datetime(2018, 7, 26, 0, 0), 'observation_mode': 'ScanSAR nominal 28MHz mode dual polarization', 'observation_direction': 'right looking', 'processing_level': 'level 1.1', 'processing_option': 'not specified', 'map_projection': 'not specified', 'orbit_direction': 'descending', 'processing_method': 'SPECAN method', 'scan_number': '4'}", ['str', 'NoneType', 'str', 'str', 'str', 'datetime', 'str', 'str', 'str', 'str', 'str', 'str', 'str', 'str']),
    ('ok', 'dict', "{'filetype': 'XYZ', 'polarization': None, 'mission_name': 'AAAAA', 'orbit_accumulation': '00000', 'scene_frame': '0000', 'date': datetime.datetime(2020, 2, 29, 0, 0), 'observation_mode': 'ScanSAR nominal 28MHz mode single polarization', 'observation_direction': 'right looking', 'processing_level': 'level 1.5', 'processing_option': 'geo-code', 'map_projection': 'not specified', 'orbit_direction': 'ascending'}", ['str', 'NoneType', 'str', 'str', 'str', 'datetime', 'str', 'str', 'str', 'str', 'str', 'str']),
    ('raise', [('ValueError', 'invalid scene id: 0000000000000A-200229', False)]),
    ('ok', 'dict', "{'filetype': 'LED', 'polarization': None, 'mission_name': 'ALOS2', 'orbit_accumulation': '22533', 'scene_frame': '3200', 'date': datetime.datetime(2018, 7, 26, 0, 0), 'observation_mode': 'ScanSAR nominal 28MHz mode dual polarization', 'observation_direction': 'right looking', 'processing_level': 'level 1.1', 'processing_option': 'not specified', 'map_projection': 'not specified', 'orbit_direction': 'descending'}", ['str', 'NoneType', 'str', 'str', 'str', 'datetime', 'str', 'str', 'str', 'str', 'str', 'str']),
    ('ok', 'dict', "{'filetype': 'IMG', 'polarization': 'HH', 'mission_name': 'ALOS2', 'orbit_accumulation': '22533', 'scene_frame': '3200', 'date': datetime.datetime(2018, 7, 26, 0, 0), 'observation_mode': 'ScanSAR nominal 14MHz mode dual polarization', 'observation_direction': 'right looking', 'processing_level': 'level 1.1', 'processing_option': 'not specified', 'map_projection': 'not specified', 'orbit_direction': 'descending'}", ['str', 'str', 'str', 'str', 'str', 'datetime', 'str', 'str', 'str', 'str', 'str', 'str']),
    ('ok', 'dict', "{'filetype': 'IMG', 'polarization': 'VV', 'mission_name': 'ALOS2', 'orbit_accumulation': '22533', 'scene_frame': '3200', 'date': datetime.datetime(2018, 7, 26, 0, 0), 'observation_mode': 'ultra-fine mode dual polarization', 'observation_direction': 'right looking', 'processing_level': 'level 1.1', 'processing_option': 'not specified', 'map_projection': 'not specified', 'orbit_direction': 'descending'}", ['str', 'str', 'str', 'str', 'str', 'datetime', 'str', 'str', 'str', 'str', 'str', 'str']),
    ('raise', [('ValueError', 'invalid scene id: ALOS2225333200-180732', True), ('ValueError', 'unconverted data remains: 2', False)]),
    ('raise', [('ValueError', 'invalid scene id: ALOS2225333200-181301', True), ('ValueError', 'unconverted data remains: 1', False)]),
    ('raise', [('ValueError', 'invalid scene id: ALOS2225333200-190229', True), ('ValueError', 'day is out of range for month', False)]),
    ('raise', [('ValueError', 'invalid product id: XXXR1.1__D', True), ('ValueError', "invalid code 'XXX'", False)]),
    ('raise', [('ValueError', 'invalid product id: WWDX1.1__D', False)]),
    ('raise', [('ValueError', 'invalid product id: WWDR2.0__D', False)]),
    ('raise', [('ValueError', 'invalid product id: WWDR1.1X_D', False)]),
    ('raise', [('ValueError', 'invalid product id: WWDR1.1_XD', False)]),
    ('raise', [('ValueError', 'invalid product id: WWDR1.1__X', False)]),
    ('raise', [('ValueError', 'invalid file name: IMG-HH-ALOS2225333200-180726-WWDR1.1__', False)]),
    ('raise', [('ValueError', 'invalid file name: IMG-HH-alos2225333200-180726-WWDR1.1__D', False)]),
    ('raise', [('ValueError', 'invalid scene id: ALOS2225333200-180732', True), ('ValueError', 'unconverted data remains: 2', False)]),
    ('raise', [('ValueError', 'invalid file name: LED-ALOS2225333200-180726-WWDR1.10__D', False)]),
    ('raise', [('ValueError', 'invalid product id: ..........', False)]),
    ('raise', [('ValueError', 'invalid product id: __________', False)]),
    ('raise', [('ValueError', 'invalid file name: ', False)]),
    ('raise', [('ValueError', 'invalid file name:  ', False)]),
    ('raise', [('ValueError', 'invalid file name: IMG', False)]),
    ('raise', [('ValueError', 'invalid file name: IMG-HH', False)]),
    ('raise', [('ValueError', 'invalid file name: img-HH-ALOS2225333200-180726-WWDR1.1__D-B1', False)]),
    ('raise', [('ValueError', 'invalid file name: IMG-HX-ALOS2225333200-180726-WWDR1.1__D-B1', False)]),
    ('raise', [('ValueError', 'invalid file name: IMG-H-ALOS2225333200-180726-WWDR1.1__D-B1', False)]),
    ('raise', [('ValueError', 'invalid file name: IMG-HH-ALOS2225333200-180726-WWDR1.1__D-X1', False)]),
    ('raise', [('ValueError', 'invalid file name: IMG-HH-ALOS2225333200-180726-WWDR1.1__D-B', False)]),
    ('raise', [('ValueError', 'invalid file name: IMG-HH-ALOS2225333200-180726-WWDR1.1__D-B12', False)]),
    ('raise', [('ValueError', 'invalid file name: IMG-HH-ALOS2225333200-180726-WWDR1.1__D-B1 ', False)]),
    ('raise', [('ValueError', 'invalid file name:  IMG-HH-ALOS2225333200-180726-WWDR1.1__D-B1', False)]),
    ('raise', [('ValueError', 'invalid file name: IMG-HH-ALOS2225333200-180726-WWDR1.1__D-B1\n', False)]),
    ('raise', [('ValueError', 'invalid file name: IMG-HH-ALOS2225333200-18072-WWDR1.1__D-B1', False)]),
    ('raise', [('ValueError', 'invalid file name: IMG-HH-ALOS222533320-180726-WWDR1.1__D-B1', False)]),
    ('raise', [('ValueError', 'invalid file name: IMG--ALOS2225333200-180726-WWDR1.1__D', False)]),
    ('raise', [('ValueError', 'invalid file name: IMG-HH-ALOS2225333200-180726-WWDR1.1__D.tif', False)]),
    ('raise', [('ValueError', 'invalid file name: /data/IMG-HH-ALOS2225333200-180726-WWDR1.1__D', False)]),
    ('raise', [('ValueError', 'invalid file name: summary.txt', False)]),
    ('raise', [('TypeError', "expected string or bytes-like object, got 'NoneType'", False)]),
    ('raise', [('TypeError', 'cannot use a string pattern on a bytes-like object', False)]),
    ('raise', [('TypeError', 'cannot use a string pattern on a bytes-like object', False)]),
    ('raise', [('TypeError', "expected string or bytes-like object, got 'int'", False)]),
    ('raise', [('TypeError', "expected string or bytes-like object, got 'float'", False)]),
    ('raise', [('TypeError', "expected string or bytes-like object, got 'list'", False)]),
    ('raise', [('TypeError', "expected string or bytes-like object, got 'tuple'", False)]),
    ('raise', [('TypeError', "expected string or bytes-like object, got 'dict'", False)]),
]


def compute():
    return [outcome(decoders.decode_filename, value) for value in INPUTS]


def test_outcomes():
    actual = compute()
    assert len(actual) == len(EXPECTED) == len(INPUTS)
    for value, a, e in zip(INPUTS, actual, EXPECTED):
        assert a == e, f"decode_filename({value!r}):\n  actual   {a}\n  expected {e}"


def test_fresh_result():
    # every call hands out a new dict: changing a result must not leak into later calls
    fname = "IMG-HH-ALOS2225333200-180726-WWDR1.1__D-B1"
    first = decoders.decode_filename(fname)
    snapshot = dict(first)
    first["filetype"] = "changed"
    first["extra"] = 1
    del first["scan_number"]
    second = decoders.decode_filename(fname)
    assert second is not first
    assert second == snapshot
    assert list(second) == list(snapshot)

    # `decode_scan_info(None)` hands out a new empty dict, too
    third = decoders.decode_filename("LED-ALOS2225333200-180726-WWDR1.1__D")
    assert "scan_number" not in third and "processing_method" not in third
    assert list(third) == [
        "filetype",
        "polarization",
        "mission_name",
        "orbit_accumulation",
        "scene_frame",
        "date",
        "observation_mode",
        "observation_direction",
        "processing_level",
        "processing_option",
        "map_projection",
        "orbit_direction",
    ]
    assert third["polarization"] is None


def test_public_names():
    for name in [
        "scene_id_re",
        "product_id_re",
        "scan_info_re",
        "fname_re",
        "translations",
        "lookup",
        "parse_date",
        "passthrough",
        "curry",
        "decode_scene_id",
        "decode_product_id",
        "decode_scan_info",
        "decode_filename",
    ]:
        assert hasattr(decoders, name), name


if __name__ == "__main__":
    if "--record" in sys.argv:
        print("[\n" + "".join(f"    {item!r},\n" for item in compute()) + "]")
        sys.exit(0)

    test_outcomes()
    test_fresh_result()
    test_public_names()
    print("ok")
