"""Equivalence check for refactoring 4 (`ceos_alos2.sar_trailer.read_sar_trailer` and
`ceos_alos2.sar_trailer.image_data.parse_image_data`).

Run as::

    cd /tmp/wt8/e67 && PYTHONPATH=/tmp/wt8/e67 /venv/bin/python _eq/4/equiv.py

The table ``EXPECTED`` was recorded from the unchanged code (``--record`` prints it);
the script has to pass with and without ``patch.diff`` applied.
"""

import io
import struct
import sys
import warnings

import fsspec
import numpy as np

import ceos_alos2.sar_trailer as sar_trailer
from ceos_alos2.sar_trailer import read_sar_trailer
from ceos_alos2.sar_trailer.image_data import parse_image_data
from ceos_alos2.utils import to_dict

warnings.simplefilter("error")  # a new / missing warning would be a difference, too


def describe_exception(e):
    cause = e.__cause__
    context = e.__context__
    return (
        "raises",
        type(e).__name__,
        str(e),
        None if cause is None else (type(cause).__name__, str(cause)),
        None if context is None else (type(context).__name__, str(context)),
    )


def describe_array(arr):
    return (
        type(arr).__name__,
        arr.dtype.str,
        arr.shape,
        arr.strides,
        arr.flags.writeable,
        arr.flags.c_contiguous,
        arr.flags.owndata,
        arr.tolist(),
    )


def call(func, *args):
    try:
        return ("returns", func(*args))
    except Exception as e:  # noqa: BLE001
        return describe_exception(e)


# ---------------------------------------------------------------------------------------
# synthetic trailer files


def ascii_int(value, width):
    text = value if isinstance(value, str) else str(value)
    text = text.rjust(width)
    assert len(text) == width, (value, width)
    return text.encode("ascii")


def header_bytes(sizes, n_images=None, pad=True):
    """file descriptor record of a trailer; ``sizes``: (record_length, pixels, lines, bytes)"""
    parts = [
        struct.pack(">IBBBBI", 1, 63, 192, 18, 18, 720),
        b"A ",  # ascii_ebcdic_code
        b"  ",  # blanks
        b"CEOS-SAR    ",  # format_control_document_id
        b" A",  # format_control_document_revision_number
        b" A",  # record_format_revision_level
        b"001.001     ",  # software_release_and_revision_number
        ascii_int(4, 4),  # file_number
        b"BB ALOS2 SART   ",  # file_id
        b"FSEQ",
        ascii_int(1, 8),
        ascii_int(4, 4),
        b"FTYP",
        ascii_int(5, 8),
        ascii_int(4, 4),
        b"FLGT",
        ascii_int(9, 8),
        ascii_int(4, 4),
        b" " * 68,
    ]
    for i in range(15):  # small record infos
        parts.append(ascii_int(i, 6) + ascii_int(100 * i, 6))
    parts.append(b" " * 60)
    for i in range(5):  # big record infos
        parts.append(ascii_int(i, 6) + ascii_int(1000 * i, 8))
    parts.append(ascii_int(len(sizes) if n_images is None else n_images, 6))
    for record_length, pixels, lines, n_bytes in sizes:
        parts.append(
            ascii_int(record_length, 8) + ascii_int(pixels, 6) + ascii_int(lines, 6) + ascii_int(n_bytes, 6)
        )
    header = b"".join(parts)
    if pad:
        header = header.ljust(720)
    return header


def pixels(n, offset=0):
    return bytes((offset + i * 7) % 256 for i in range(n))


trailers = {
    "no-images-no-data": header_bytes([]),
    "no-images-extra-data": header_bytes([]) + pixels(10),
    "one-image-2bytes": header_bytes([(12, 2, 3, 2)]) + pixels(12),
    "one-image-1byte": header_bytes([(6, 3, 2, 1)]) + pixels(6, 200),
    "one-image-4bytes": header_bytes([(24, 2, 3, 4)]) + pixels(24, 3),
    "one-image-8bytes": header_bytes([(16, 1, 2, 8)]) + pixels(16, 250),
    "two-images": header_bytes([(12, 2, 3, 2), (8, 4, 1, 2)]) + pixels(20),
    "three-images-mixed": header_bytes([(4, 2, 2, 1), (16, 2, 2, 4), (6, 3, 1, 2)]) + pixels(26, 100),
    "seven-images": header_bytes([(2 * (i + 1), i + 1, 1, 2) for i in range(7)]) + pixels(56),
    "eight-images": header_bytes([(2, 1, 1, 2)] * 8, pad=False).ljust(720) + pixels(16),
    "trailing-data": header_bytes([(12, 2, 3, 2)]) + pixels(40),
    "empty-image": header_bytes([(0, 0, 3, 2), (4, 2, 1, 2)]) + pixels(4),
    "zero-lines": header_bytes([(0, 2, 0, 2)]) + pixels(4),
    "short-data": header_bytes([(12, 2, 3, 2)]) + pixels(10),
    "short-data-odd": header_bytes([(12, 2, 3, 2)]) + pixels(11),
    "short-second": header_bytes([(12, 2, 3, 2), (8, 4, 1, 2)]) + pixels(16),
    "no-data": header_bytes([(12, 2, 3, 2)]),
    "padded-records": header_bytes([(16, 2, 3, 2)]) + pixels(16),
    "length-too-small": header_bytes([(8, 2, 3, 2), (12, 2, 3, 2)]) + pixels(20),
    "three-bytes": header_bytes([(6, 2, 1, 3)]) + pixels(6),
    "three-bytes-second": header_bytes([(4, 2, 1, 2), (6, 2, 1, 3), (5, 9, 9, 2)]) + pixels(15),
    "zero-bytes": header_bytes([(4, 2, 1, 0)]) + pixels(4),
    "sixteen-bytes": header_bytes([(16, 1, 1, 16)]) + pixels(16),
    "negative-bytes": header_bytes([(4, 2, 1, -2)]) + pixels(4),
    "blank-bytes": header_bytes([(4, 2, 1, "")]) + pixels(4),
    "blank-length": header_bytes([("", 2, 1, 2), (4, 2, 1, 2)]) + pixels(9),
    "negative-length": header_bytes([(8, 2, 2, 2), (-4, 2, 1, 2), (4, 1, 2, 2)]) + pixels(12),
    "negative-first-length": header_bytes([(-4, 2, 1, 2), (4, 2, 1, 2)]) + pixels(12),
    "negative-pixels": header_bytes([(4, -1, 2, 2)]) + pixels(4),
    "blank-pixels": header_bytes([(4, "", 2, 2), (4, 2, "", 2)]) + pixels(8),
    "blank-count": header_bytes([], n_images=""),
    "negative-count": header_bytes([], n_images=-2),
    "count-too-large": header_bytes([(4, 2, 1, 2)], n_images=3) + pixels(12),
    "count-too-small": header_bytes([(4, 2, 1, 2), (4, 2, 1, 2)], n_images=1) + pixels(8),
    "garbage-length": header_bytes([("12ab", 2, 3, 2)]) + pixels(12),
    "short-header": header_bytes([(12, 2, 3, 2)])[:700],
    "header-without-padding": header_bytes([(12, 2, 3, 2)], pad=False),
    "empty-file": b"",
}


class RecordingFile(io.BytesIO):
    def __init__(self, content, log):
        super().__init__(content)
        self.log = log

    def read(self, *args, **kwargs):
        self.log.append(("read", args, kwargs, self.tell()))
        return super().read(*args, **kwargs)

    def seek(self, *args, **kwargs):
        self.log.append(("seek", args, kwargs))
        return super().seek(*args, **kwargs)


class ConvertingFile(RecordingFile):
    """file-like returning other bytes-like objects"""

    def __init__(self, content, log, converter):
        super().__init__(content, log)
        self.converter = converter

    def read(self, *args, **kwargs):
        return self.converter(super().read(*args, **kwargs))


def describe_result(outcome):
    if outcome[0] != "returns":
        return outcome

    header, images = outcome[1]
    return (
        "returns",
        type(header).__name__,
        repr(to_dict(header)),
        type(images).__name__,
        [describe_array(image) for image in images],
    )


def trailer_runs():
    observed = []
    for label, content in trailers.items():
        log = []
        outcome = describe_result(call(read_sar_trailer, RecordingFile(content, log)))
        observed.append(("trailer", label, outcome, log))

    for label in ["two-images", "short-second", "no-images-no-data"]:
        for name, converter in [("bytearray", bytearray), ("memoryview", memoryview)]:
            log = []
            f = ConvertingFile(trailers[label], log, converter)
            outcome = describe_result(call(read_sar_trailer, f))
            observed.append(("trailer-" + name, label, outcome, log))

    # already positioned files: reading continues from the current position
    log = []
    f = RecordingFile(b"x" * 5 + trailers["two-images"], log)
    f.seek(5)
    observed.append(("positioned", describe_result(call(read_sar_trailer, f)), log))

    # through fsspec
    fs = fsspec.filesystem("memory")
    fs.pipe("/equiv4/TRL-a", trailers["three-images-mixed"])
    with fs.open("/equiv4/TRL-a", mode="rb") as f:
        observed.append(("fsspec", describe_result(call(read_sar_trailer, f))))

    # not a file
    for value in [None, b"abc", 5]:
        observed.append(("not-a-file", repr(value), describe_result(call(read_sar_trailer, value))))

    # the images are views of the data read from the file
    header, images = read_sar_trailer(io.BytesIO(trailers["two-images"]))
    observed.append(
        (
            "views",
            [image.base is not None for image in images],
            len({id(np.asarray(image.base).base) if image.base is not None else None for image in images}),
        )
    )
    return observed


def patched_runs():
    """`parse_image_data` is looked up in the package when reading"""
    observed = []
    original = sar_trailer.parse_image_data
    calls = []

    def recording(content, shape, n_bytes):
        calls.append((type(content).__name__, bytes(content), type(shape).__name__, shape, type(n_bytes).__name__, n_bytes))
        if n_bytes == 3:
            raise RuntimeError("three")
        return (len(content), shape, n_bytes)

    sar_trailer.parse_image_data = recording
    try:
        for label in [
            "no-images-extra-data",
            "two-images",
            "seven-images",
            "short-second",
            "negative-length",
            "negative-first-length",
            "blank-length",
            "three-bytes-second",
            "padded-records",
        ]:
            del calls[:]
            outcome = call(read_sar_trailer, io.BytesIO(trailers[label]))
            if outcome[0] == "returns":
                outcome = ("returns", type(outcome[1][1]).__name__, outcome[1][1])
            observed.append(("patched", label, outcome, list(calls)))
    finally:
        sar_trailer.parse_image_data = original
    return observed


def image_runs():
    observed = []
    content = pixels(24, 17)
    contents = {
        "bytes": content,
        "bytearray": bytearray(content),
        "memoryview": memoryview(content),
        "memoryview-slice": memoryview(content * 2)[3:27],
        "empty": b"",
        "odd": content[:23],
        "array": np.frombuffer(content, dtype="u1"),
        "str": "abcd",
        "none": None,
        "list": list(content),
    }
    shapes = [(2, 3), (3, 2), (24,), (1, 24), (4, 3, 2), (6, 4), (12, 2), (3, 8), (0, 5), (), (-1, 3), (-1,), 24, 12, [4, 6], (2.0, 3), None, "ab"]
    widths = [1, 2, 4, 8, 3, 0, 16, -1, "2", 2.0, None, True, np.int64(4)]
    for label, buffer in contents.items():
        for n_bytes in widths:
            for shape in shapes if label in ("bytes", "memoryview-slice", "empty") else [(2, 3), (-1,), (24,)]:
                outcome = call(parse_image_data, buffer, shape, n_bytes)
                if outcome[0] == "returns":
                    outcome = ("returns", describe_array(outcome[1]))
                observed.append(("image", label, repr(shape), repr(n_bytes), outcome))

    # keyword calls
    arr = parse_image_data(content=content, shape=(3, 4), n_bytes=2)
    observed.append(("image-keywords", describe_array(arr)))
    # views, not copies
    buffer = bytearray(content)
    view = parse_image_data(buffer, (12,), 2)
    buffer[0] = 255
    observed.append(("image-view", describe_array(view)))
    return observed


def observe():
    return trailer_runs() + patched_runs() + image_runs()


# fmt: off
EXPECTED = [('trailer', 'no-images-no-data',
  ('returns', 'Container',
   "{'preamble': {'record_sequence_number': 1, 'first_record_subtype': 63, 'record_type': 192, 'second_record_subtype': 18, 'third_record_subtype': "
   "18, 'record_length': 720}, 'ascii_ebcdic_code': 'A', 'blanks1': '', 'format_control_document_id': 'CEOS-SAR', "
   "'format_control_document_revision_number': 'A', 'record_format_revision_level': 'A', 'software_release_and_revision_number': '001.001', "
   "'file_number': 4, 'file_id': 'BB ALOS2 SART', 'record_sequence_and_location_type_flag': 'FSEQ', 'sequence_number_of_location': 1, "
   "'field_length_of_sequence_number': 4, 'record_code_and_location_type_flag': 'FTYP', 'location_of_record_code': 5, 'field_length_of_record_code': "
   "4, 'record_length_and_location_type_flag': 'FLGT', 'location_of_record_length': 9, 'field_length_of_record_length': 4, 'dataset_summary': "
   "{'number_of_records': 0, 'record_length': 0}, 'map_projection': {'number_of_records': 1, 'record_length': 100}, 'platform_position': "
   "{'number_of_records': 2, 'record_length': 200}, 'attitude': {'number_of_records': 3, 'record_length': 300}, 'radiometric_data': "
   "{'number_of_records': 4, 'record_length': 400}, 'radiometric_compensation': {'number_of_records': 5, 'record_length': 500}, "
   "'data_quality_summary': {'number_of_records': 6, 'record_length': 600}, 'data_histogram': {'number_of_records': 7, 'record_length': 700}, "
   "'range_spectra': {'number_of_records': 8, 'record_length': 800}, 'dem_descriptor': {'number_of_records': 9, 'record_length': 900}, "
   "'radar_parameter_update': {'number_of_records': 10, 'record_length': 1000}, 'annotation_data': {'number_of_records': 11, 'record_length': 1100}, "
   "'detail_processing': {'number_of_records': 12, 'record_length': 1200}, 'calibration': {'number_of_records': 13, 'record_length': 1300}, 'gcp': "
   "{'number_of_records': 14, 'record_length': 1400}, 'spare': '', 'facility_related_data_1': {'number_of_records': 0, 'record_length': 0}, "
   "'facility_related_data_2': {'number_of_records': 1, 'record_length': 1000}, 'facility_related_data_3': {'number_of_records': 2, 'record_length': "
   "2000}, 'facility_related_data_4': {'number_of_records': 3, 'record_length': 3000}, 'facility_related_data_5': {'number_of_records': 4, "
   "'record_length': 4000}, 'number_of_low_resolution_images': 0, 'low_resolution_image_sizes': [], 'blanks': ''}",
   'list', []),
  [('read', (720,), {}, 0), ('read', (), {}, 720)]),
 ('trailer', 'no-images-extra-data',
  ('returns', 'Container',
   "{'preamble': {'record_sequence_number': 1, 'first_record_subtype': 63, 'record_type': 192, 'second_record_subtype': 18, 'third_record_subtype': "
   "18, 'record_length': 720}, 'ascii_ebcdic_code': 'A', 'blanks1': '', 'format_control_document_id': 'CEOS-SAR', "
   "'format_control_document_revision_number': 'A', 'record_format_revision_level': 'A', 'software_release_and_revision_number': '001.001', "
   "'file_number': 4, 'file_id': 'BB ALOS2 SART', 'record_sequence_and_location_type_flag': 'FSEQ', 'sequence_number_of_location': 1, "
   "'field_length_of_sequence_number': 4, 'record_code_and_location_type_flag': 'FTYP', 'location_of_record_code': 5, 'field_length_of_record_code': "
   "4, 'record_length_and_location_type_flag': 'FLGT', 'location_of_record_length': 9, 'field_length_of_record_length': 4, 'dataset_summary': "
   "{'number_of_records': 0, 'record_length': 0}, 'map_projection': {'number_of_records': 1, 'record_length': 100}, 'platform_position': "
   "{'number_of_records': 2, 'record_length': 200}, 'attitude': {'number_of_records': 3, 'record_length': 300}, 'radiometric_data': "
   "{'number_of_records': 4, 'record_length': 400}, 'radiometric_compensation': {'number_of_records': 5, 'record_length': 500}, "
   "'data_quality_summary': {'number_of_records': 6, 'record_length': 600}, 'data_histogram': {'number_of_records': 7, 'record_length': 700}, "
   "'range_spectra': {'number_of_records': 8, 'record_length': 800}, 'dem_descriptor': {'number_of_records': 9, 'record_length': 900}, "
   "'radar_parameter_update': {'number_of_records': 10, 'record_length': 1000}, 'annotation_data': {'number_of_records': 11, 'record_length': 1100}, "
   "'detail_processing': {'number_of_records': 12, 'record_length': 1200}, 'calibration': {'number_of_records': 13, 'record_length': 1300}, 'gcp': "
   "{'number_of_records': 14, 'record_length': 1400}, 'spare': '', 'facility_related_data_1': {'number_of_records': 0, 'record_length': 0}, "
   "'facility_related_data_2': {'number_of_records': 1, 'record_length': 1000}, 'facility_related_data_3': {'number_of_records': 2, 'record_length': "
   "2000}, 'facility_related_data_4': {'number_of_records': 3, 'record_length': 3000}, 'facility_related_data_5': {'number_of_records': 4, "
   "'record_length': 4000}, 'number_of_low_resolution_images': 0, 'low_resolution_image_sizes': [], 'blanks': ''}",
   'list', []),
  [('read', (720,), {}, 0), ('read', (), {}, 720)]),
 ('trailer', 'one-image-2bytes',
  ('returns', 'Container',
   "{'preamble': {'record_sequence_number': 1, 'first_record_subtype': 63, 'record_type': 192, 'second_record_subtype': 18, 'third_record_subtype': "
   "18, 'record_length': 720}, 'ascii_ebcdic_code': 'A', 'blanks1': '', 'format_control_document_id': 'CEOS-SAR', "
   "'format_control_document_revision_number': 'A', 'record_format_revision_level': 'A', 'software_release_and_revision_number': '001.001', "
   "'file_number': 4, 'file_id': 'BB ALOS2 SART', 'record_sequence_and_location_type_flag': 'FSEQ', 'sequence_number_of_location': 1, "
   "'field_length_of_sequence_number': 4, 'record_code_and_location_type_flag': 'FTYP', 'location_of_record_code': 5, 'field_length_of_record_code': "
   "4, 'record_length_and_location_type_flag': 'FLGT', 'location_of_record_length': 9, 'field_length_of_record_length': 4, 'dataset_summary': "
   "{'number_of_records': 0, 'record_length': 0}, 'map_projection': {'number_of_records': 1, 'record_length': 100}, 'platform_position': "
   "{'number_of_records': 2, 'record_length': 200}, 'attitude': {'number_of_records': 3, 'record_length': 300}, 'radiometric_data': "
   "{'number_of_records': 4, 'record_length': 400}, 'radiometric_compensation': {'number_of_records': 5, 'record_length': 500}, "
   "'data_quality_summary': {'number_of_records': 6, 'record_length': 600}, 'data_histogram': {'number_of_records': 7, 'record_length': 700}, "
   "'range_spectra': {'number_of_records': 8, 'record_length': 800}, 'dem_descriptor': {'number_of_records': 9, 'record_length': 900}, "
   "'radar_parameter_update': {'number_of_records': 10, 'record_length': 1000}, 'annotation_data': {'number_of_records': 11, 'record_length': 1100}, "
   "'detail_processing': {'number_of_records': 12, 'record_length': 1200}, 'calibration': {'number_of_records': 13, 'record_length': 1300}, 'gcp': "
   "{'number_of_records': 14, 'record_length': 1400}, 'spare': '', 'facility_related_data_1': {'number_of_records': 0, 'record_length': 0}, "
   "'facility_related_data_2': {'number_of_records': 1, 'record_length': 1000}, 'facility_related_data_3': {'number_of_records': 2, 'record_length': "
   "2000}, 'facility_related_data_4': {'number_of_records': 3, 'record_length': 3000}, 'facility_related_data_5': {'number_of_records': 4, "
   "'record_length': 4000}, 'number_of_low_resolution_images': 1, 'low_resolution_image_sizes': [{'record_length': 12, 'number_of_pixels': 2, "
   "'number_of_lines': 3, 'number_of_bytes_per_one_sample': 2}], 'blanks': ''}",
   'list', [('ndarray', '>i2', (2, 3), (6, 2), False, True, False, [[7, 3605, 7203], [10801, 14399, 17997]])]),
  [('read', (720,), {}, 0), ('read', (), {}, 720)]),
 ('trailer', 'one-image-1byte',
  ('returns', 'Container',
   "{'preamble': {'record_sequence_number': 1, 'first_record_subtype': 63, 'record_type': 192, 'second_record_subtype': 18, 'third_record_subtype': "
   "18, 'record_length': 720}, 'ascii_ebcdic_code': 'A', 'blanks1': '', 'format_control_document_id': 'CEOS-SAR', "
   "'format_control_document_revision_number': 'A', 'record_format_revision_level': 'A', 'software_release_and_revision_number': '001.001', "
   "'file_number': 4, 'file_id': 'BB ALOS2 SART', 'record_sequence_and_location_type_flag': 'FSEQ', 'sequence_number_of_location': 1, "
   "'field_length_of_sequence_number': 4, 'record_code_and_location_type_flag': 'FTYP', 'location_of_record_code': 5, 'field_length_of_record_code': "
   "4, 'record_length_and_location_type_flag': 'FLGT', 'location_of_record_length': 9, 'field_length_of_record_length': 4, 'dataset_summary': "
   "{'number_of_records': 0, 'record_length': 0}, 'map_projection': {'number_of_records': 1, 'record_length': 100}, 'platform_position': "
   "{'number_of_records': 2, 'record_length': 200}, 'attitude': {'number_of_records': 3, 'record_length': 300}, 'radiometric_data': "
   "{'number_of_records': 4, 'record_length': 400}, 'radiometric_compensation': {'number_of_records': 5, 'record_length': 500}, "
   "'data_quality_summary': {'number_of_records': 6, 'record_length': 600}, 'data_histogram': {'number_of_records': 7, 'record_length': 700}, "
   "'range_spectra': {'number_of_records': 8, 'record_length': 800}, 'dem_descriptor': {'number_of_records': 9, 'record_length': 900}, "
   "'radar_parameter_update': {'number_of_records': 10, 'record_length': 1000}, 'annotation_data': {'number_of_records': 11, 'record_length': 1100}, "
   "'detail_processing': {'number_of_records': 12, 'record_length': 1200}, 'calibration': {'number_of_records': 13, 'record_length': 1300}, 'gcp': "
   "{'number_of_records': 14, 'record_length': 1400}, 'spare': '', 'facility_related_data_1': {'number_of_records': 0, 'record_length': 0}, "
   "'facility_related_data_2': {'number_of_records': 1, 'record_length': 1000}, 'facility_related_data_3': {'number_of_records': 2, 'record_length': "
   "2000}, 'facility_related_data_4': {'number_of_records': 3, 'record_length': 3000}, 'facility_related_data_5': {'number_of_records': 4, "
   "'record_length': 4000}, 'number_of_low_resolution_images': 1, 'low_resolution_image_sizes': [{'record_length': 6, 'number_of_pixels': 3, "
   "'number_of_lines': 2, 'number_of_bytes_per_one_sample': 1}], 'blanks': ''}",
   'list', [('ndarray', '|i1', (3, 2), (2, 1), False, True, False, [[-56, -49], [-42, -35], [-28, -21]])]),
  [('read', (720,), {}, 0), ('read', (), {}, 720)]),
 ('trailer', 'one-image-4bytes',
  ('returns', 'Container',
   "{'preamble': {'record_sequence_number': 1, 'first_record_subtype': 63, 'record_type': 192, 'second_record_subtype': 18, 'third_record_subtype': "
   "18, 'record_length': 720}, 'ascii_ebcdic_code': 'A', 'blanks1': '', 'format_control_document_id': 'CEOS-SAR', "
   "'format_control_document_revision_number': 'A', 'record_format_revision_level': 'A', 'software_release_and_revision_number': '001.001', "
   "'file_number': 4, 'file_id': 'BB ALOS2 SART', 'record_sequence_and_location_type_flag': 'FSEQ', 'sequence_number_of_location': 1, "
   "'field_length_of_sequence_number': 4, 'record_code_and_location_type_flag': 'FTYP', 'location_of_record_code': 5, 'field_length_of_record_code': "
   "4, 'record_length_and_location_type_flag': 'FLGT', 'location_of_record_length': 9, 'field_length_of_record_length': 4, 'dataset_summary': "
   "{'number_of_records': 0, 'record_length': 0}, 'map_projection': {'number_of_records': 1, 'record_length': 100}, 'platform_position': "
   "{'number_of_records': 2, 'record_length': 200}, 'attitude': {'number_of_records': 3, 'record_length': 300}, 'radiometric_data': "
   "{'number_of_records': 4, 'record_length': 400}, 'radiometric_compensation': {'number_of_records': 5, 'record_length': 500}, "
   "'data_quality_summary': {'number_of_records': 6, 'record_length': 600}, 'data_histogram': {'number_of_records': 7, 'record_length': 700}, "
   "'range_spectra': {'number_of_records': 8, 'record_length': 800}, 'dem_descriptor': {'number_of_records': 9, 'record_length': 900}, "
   "'radar_parameter_update': {'number_of_records': 10, 'record_length': 1000}, 'annotation_data': {'number_of_records': 11, 'record_length': 1100}, "
   "'detail_processing': {'number_of_records': 12, 'record_length': 1200}, 'calibration': {'number_of_records': 13, 'record_length': 1300}, 'gcp': "
   "{'number_of_records': 14, 'record_length': 1400}, 'spare': '', 'facility_related_data_1': {'number_of_records': 0, 'record_length': 0}, "
   "'facility_related_data_2': {'number_of_records': 1, 'record_length': 1000}, 'facility_related_data_3': {'number_of_records': 2, 'record_length': "
   "2000}, 'facility_related_data_4': {'number_of_records': 3, 'record_length': 3000}, 'facility_related_data_5': {'number_of_records': 4, "
   "'record_length': 4000}, 'number_of_low_resolution_images': 1, 'low_resolution_image_sizes': [{'record_length': 24, 'number_of_pixels': 2, "
   "'number_of_lines': 3, 'number_of_bytes_per_one_sample': 4}], 'blanks': ''}",
   'list', [('ndarray', '>i4', (2, 3), (12, 4), False, True, False, [[50991384, 522595636, 994199888], [1465804140, 1937408392, -1885954652]])]),
  [('read', (720,), {}, 0), ('read', (), {}, 720)]),
 ('trailer', 'one-image-8bytes',
  ('returns', 'Container',
   "{'preamble': {'record_sequence_number': 1, 'first_record_subtype': 63, 'record_type': 192, 'second_record_subtype': 18, 'third_record_subtype': "
   "18, 'record_length': 720}, 'ascii_ebcdic_code': 'A', 'blanks1': '', 'format_control_document_id': 'CEOS-SAR', "
   "'format_control_document_revision_number': 'A', 'record_format_revision_level': 'A', 'software_release_and_revision_number': '001.001', "
   "'file_number': 4, 'file_id': 'BB ALOS2 SART', 'record_sequence_and_location_type_flag': 'FSEQ', 'sequence_number_of_location': 1, "
   "'field_length_of_sequence_number': 4, 'record_code_and_location_type_flag': 'FTYP', 'location_of_record_code': 5, 'field_length_of_record_code': "
   "4, 'record_length_and_location_type_flag': 'FLGT', 'location_of_record_length': 9, 'field_length_of_record_length': 4, 'dataset_summary': "
   "{'number_of_records': 0, 'record_length': 0}, 'map_projection': {'number_of_records': 1, 'record_length': 100}, 'platform_position': "
   "{'number_of_records': 2, 'record_length': 200}, 'attitude': {'number_of_records': 3, 'record_length': 300}, 'radiometric_data': "
   "{'number_of_records': 4, 'record_length': 400}, 'radiometric_compensation': {'number_of_records': 5, 'record_length': 500}, "
   "'data_quality_summary': {'number_of_records': 6, 'record_length': 600}, 'data_histogram': {'number_of_records': 7, 'record_length': 700}, "
   "'range_spectra': {'number_of_records': 8, 'record_length': 800}, 'dem_descriptor': {'number_of_records': 9, 'record_length': 900}, "
   "'radar_parameter_update': {'number_of_records': 10, 'record_length': 1000}, 'annotation_data': {'number_of_records': 11, 'record_length': 1100}, "
   "'detail_processing': {'number_of_records': 12, 'record_length': 1200}, 'calibration': {'number_of_records': 13, 'record_length': 1300}, 'gcp': "
   "{'number_of_records': 14, 'record_length': 1400}, 'spare': '', 'facility_related_data_1': {'number_of_records': 0, 'record_length': 0}, "
   "'facility_related_data_2': {'number_of_records': 1, 'record_length': 1000}, 'facility_related_data_3': {'number_of_records': 2, 'record_length': "
   "2000}, 'facility_related_data_4': {'number_of_records': 3, 'record_length': 3000}, 'facility_related_data_5': {'number_of_records': 4, "
   "'record_length': 4000}, 'number_of_low_resolution_images': 1, 'low_resolution_image_sizes': [{'record_length': 16, 'number_of_pixels': 1, "
   "'number_of_lines': 2, 'number_of_bytes_per_one_sample': 8}], 'blanks': ''}",
   'list', [('ndarray', '>i8', (1, 2), (16, 8), False, True, False, [[-432055228362316757, 3618994450569976931]])]),
  [('read', (720,), {}, 0), ('read', (), {}, 720)]),
 ('trailer', 'two-images',
  ('returns', 'Container',
   "{'preamble': {'record_sequence_number': 1, 'first_record_subtype': 63, 'record_type': 192, 'second_record_subtype': 18, 'third_record_subtype': "
   "18, 'record_length': 720}, 'ascii_ebcdic_code': 'A', 'blanks1': '', 'format_control_document_id': 'CEOS-SAR', "
   "'format_control_document_revision_number': 'A', 'record_format_revision_level': 'A', 'software_release_and_revision_number': '001.001', "
   "'file_number': 4, 'file_id': 'BB ALOS2 SART', 'record_sequence_and_location_type_flag': 'FSEQ', 'sequence_number_of_location': 1, "
   "'field_length_of_sequence_number': 4, 'record_code_and_location_type_flag': 'FTYP', 'location_of_record_code': 5, 'field_length_of_record_code': "
   "4, 'record_length_and_location_type_flag': 'FLGT', 'location_of_record_length': 9, 'field_length_of_record_length': 4, 'dataset_summary': "
   "{'number_of_records': 0, 'record_length': 0}, 'map_projection': {'number_of_records': 1, 'record_length': 100}, 'platform_position': "
   "{'number_of_records': 2, 'record_length': 200}, 'attitude': {'number_of_records': 3, 'record_length': 300}, 'radiometric_data': "
   "{'number_of_records': 4, 'record_length': 400}, 'radiometric_compensation': {'number_of_records': 5, 'record_length': 500}, "
   "'data_quality_summary': {'number_of_records': 6, 'record_length': 600}, 'data_histogram': {'number_of_records': 7, 'record_length': 700}, "
   "'range_spectra': {'number_of_records': 8, 'record_length': 800}, 'dem_descriptor': {'number_of_records': 9, 'record_length': 900}, "
   "'radar_parameter_update': {'number_of_records': 10, 'record_length': 1000}, 'annotation_data': {'number_of_records': 11, 'record_length': 1100}, "
   "'detail_processing': {'number_of_records': 12, 'record_length': 1200}, 'calibration': {'number_of_records': 13, 'record_length': 1300}, 'gcp': "
   "{'number_of_records': 14, 'record_length': 1400}, 'spare': '', 'facility_related_data_1': {'number_of_records': 0, 'record_length': 0}, "
   "'facility_related_data_2': {'number_of_records': 1, 'record_length': 1000}, 'facility_related_data_3': {'number_of_records': 2, 'record_length': "
   "2000}, 'facility_related_data_4': {'number_of_records': 3, 'record_length': 3000}, 'facility_related_data_5': {'number_of_records': 4, "
   "'record_length': 4000}, 'number_of_low_resolution_images': 2, 'low_resolution_image_sizes': [{'record_length': 12, 'number_of_pixels': 2, "
   "'number_of_lines': 3, 'number_of_bytes_per_one_sample': 2}, {'record_length': 8, 'number_of_pixels': 4, 'number_of_lines': 1, "
   "'number_of_bytes_per_one_sample': 2}], 'blanks': ''}",
   'list',
   [('ndarray', '>i2', (2, 3), (6, 2), False, True, False, [[7, 3605, 7203], [10801, 14399, 17997]]),
    ('ndarray', '>i2', (4, 1), (2, 2), False, True, False, [[21595], [25193], [28791], [32389]])]),
  [('read', (720,), {}, 0), ('read', (), {}, 720)]),
 ('trailer', 'three-images-mixed',
  ('returns', 'Container',
   "{'preamble': {'record_sequence_number': 1, 'first_record_subtype': 63, 'record_type': 192, 'second_record_subtype': 18, 'third_record_subtype': "
   "18, 'record_length': 720}, 'ascii_ebcdic_code': 'A', 'blanks1': '', 'format_control_document_id': 'CEOS-SAR', "
   "'format_control_document_revision_number': 'A', 'record_format_revision_level': 'A', 'software_release_and_revision_number': '001.001', "
   "'file_number': 4, 'file_id': 'BB ALOS2 SART', 'record_sequence_and_location_type_flag': 'FSEQ', 'sequence_number_of_location': 1, "
   "'field_length_of_sequence_number': 4, 'record_code_and_location_type_flag': 'FTYP', 'location_of_record_code': 5, 'field_length_of_record_code': "
   "4, 'record_length_and_location_type_flag': 'FLGT', 'location_of_record_length': 9, 'field_length_of_record_length': 4, 'dataset_summary': "
   "{'number_of_records': 0, 'record_length': 0}, 'map_projection': {'number_of_records': 1, 'record_length': 100}, 'platform_position': "
   "{'number_of_records': 2, 'record_length': 200}, 'attitude': {'number_of_records': 3, 'record_length': 300}, 'radiometric_data': "
   "{'number_of_records': 4, 'record_length': 400}, 'radiometric_compensation': {'number_of_records': 5, 'record_length': 500}, "
   "'data_quality_summary': {'number_of_records': 6, 'record_length': 600}, 'data_histogram': {'number_of_records': 7, 'record_length': 700}, "
   "'range_spectra': {'number_of_records': 8, 'record_length': 800}, 'dem_descriptor': {'number_of_records': 9, 'record_length': 900}, "
   "'radar_parameter_update': {'number_of_records': 10, 'record_length': 1000}, 'annotation_data': {'number_of_records': 11, 'record_length': 1100}, "
   "'detail_processing': {'number_of_records': 12, 'record_length': 1200}, 'calibration': {'number_of_records': 13, 'record_length': 1300}, 'gcp': "
   "{'number_of_records': 14, 'record_length': 1400}, 'spare': '', 'facility_related_data_1': {'number_of_records': 0, 'record_length': 0}, "
   "'facility_related_data_2': {'number_of_records': 1, 'record_length': 1000}, 'facility_related_data_3': {'number_of_records': 2, 'record_length': "
   "2000}, 'facility_related_data_4': {'number_of_records': 3, 'record_length': 3000}, 'facility_related_data_5': {'number_of_records': 4, "
   "'record_length': 4000}, 'number_of_low_resolution_images': 3, 'low_resolution_image_sizes': [{'record_length': 4, 'number_of_pixels': 2, "
   "'number_of_lines': 2, 'number_of_bytes_per_one_sample': 1}, {'record_length': 16, 'number_of_pixels': 2, 'number_of_lines': 2, "
   "'number_of_bytes_per_one_sample': 4}, {'record_length': 6, 'number_of_pixels': 3, 'number_of_lines': 1, 'number_of_bytes_per_one_sample': 2}], "
   "'blanks': ''}",
   'list',
   [('ndarray', '|i1', (2, 2), (2, 1), False, True, False, [[100, 107], [114, 121]]),
    ('ndarray', '>i4', (2, 2), (8, 4), False, True, False, [[-2138599787, -1666995535], [-1195391283, -723787031]]),
    ('ndarray', '>i2', (3, 1), (2, 2), False, True, False, [[-3849], [-507], [3091]])]),
  [('read', (720,), {}, 0), ('read', (), {}, 720)]),
 ('trailer', 'seven-images',
  ('returns', 'Container',
   "{'preamble': {'record_sequence_number': 1, 'first_record_subtype': 63, 'record_type': 192, 'second_record_subtype': 18, 'third_record_subtype': "
   "18, 'record_length': 720}, 'ascii_ebcdic_code': 'A', 'blanks1': '', 'format_control_document_id': 'CEOS-SAR', "
   "'format_control_document_revision_number': 'A', 'record_format_revision_level': 'A', 'software_release_and_revision_number': '001.001', "
   "'file_number': 4, 'file_id': 'BB ALOS2 SART', 'record_sequence_and_location_type_flag': 'FSEQ', 'sequence_number_of_location': 1, "
   "'field_length_of_sequence_number': 4, 'record_code_and_location_type_flag': 'FTYP', 'location_of_record_code': 5, 'field_length_of_record_code': "
   "4, 'record_length_and_location_type_flag': 'FLGT', 'location_of_record_length': 9, 'field_length_of_record_length': 4, 'dataset_summary': "
   "{'number_of_records': 0, 'record_length': 0}, 'map_projection': {'number_of_records': 1, 'record_length': 100}, 'platform_position': "
   "{'number_of_records': 2, 'record_length': 200}, 'attitude': {'number_of_records': 3, 'record_length': 300}, 'radiometric_data': "
   "{'number_of_records': 4, 'record_length': 400}, 'radiometric_compensation': {'number_of_records': 5, 'record_length': 500}, "
   "'data_quality_summary': {'number_of_records': 6, 'record_length': 600}, 'data_histogram': {'number_of_records': 7, 'record_length': 700}, "
   "'range_spectra': {'number_of_records': 8, 'record_length': 800}, 'dem_descriptor': {'number_of_records': 9, 'record_length': 900}, "
   "'radar_parameter_update': {'number_of_records': 10, 'record_length': 1000}, 'annotation_data': {'number_of_records': 11, 'record_length': 1100}, "
   "'detail_processing': {'number_of_records': 12, 'record_length': 1200}, 'calibration': {'number_of_records': 13, 'record_length': 1300}, 'gcp': "
   "{'number_of_records': 14, 'record_length': 1400}, 'spare': '', 'facility_related_data_1': {'number_of_records': 0, 'record_length': 0}, "
   "'facility_related_data_2': {'number_of_records': 1, 'record_length': 1000}, 'facility_related_data_3': {'number_of_records': 2, 'record_length': "
   "2000}, 'facility_related_data_4': {'number_of_records': 3, 'record_length': 3000}, 'facility_related_data_5': {'number_of_records': 4, "
   "'record_length': 4000}, 'number_of_low_resolution_images': 7, 'low_resolution_image_sizes': [{'record_length': 2, 'number_of_pixels': 1, "
   "'number_of_lines': 1, 'number_of_bytes_per_one_sample': 2}, {'record_length': 4, 'number_of_pixels': 2, 'number_of_lines': 1, "
   "'number_of_bytes_per_one_sample': 2}, {'record_length': 6, 'number_of_pixels': 3, 'number_of_lines': 1, 'number_of_bytes_per_one_sample': 2}, "
   "{'record_length': 8, 'number_of_pixels': 4, 'number_of_lines': 1, 'number_of_bytes_per_one_sample': 2}, {'record_length': 10, "
   "'number_of_pixels': 5, 'number_of_lines': 1, 'number_of_bytes_per_one_sample': 2}, {'record_length': 12, 'number_of_pixels': 6, "
   "'number_of_lines': 1, 'number_of_bytes_per_one_sample': 2}, {'record_length': 14, 'number_of_pixels': 7, 'number_of_lines': 1, "
   "'number_of_bytes_per_one_sample': 2}], 'blanks': ''}",
   'list',
   [('ndarray', '>i2', (1, 1), (2, 2), False, True, False, [[7]]), ('ndarray', '>i2', (2, 1), (2, 2), False, True, False, [[3605], [7203]]),
    ('ndarray', '>i2', (3, 1), (2, 2), False, True, False, [[10801], [14399], [17997]]),
    ('ndarray', '>i2', (4, 1), (2, 2), False, True, False, [[21595], [25193], [28791], [32389]]),
    ('ndarray', '>i2', (5, 1), (2, 2), False, True, False, [[-29549], [-25951], [-22353], [-18755], [-15157]]),
    ('ndarray', '>i2', (6, 1), (2, 2), False, True, False, [[-11559], [-7961], [-4363], [-1021], [2577], [6175]]),
    ('ndarray', '>i2', (7, 1), (2, 2), False, True, False, [[9773], [13371], [16969], [20567], [24165], [27763], [31361]])]),
  [('read', (720,), {}, 0), ('read', (), {}, 720)]),
 ('trailer', 'eight-images', ('raises', 'PaddingError', 'Error in path (parsing) -> blanks\nlength cannot be negative', None, None),
  [('read', (720,), {}, 0)]),
 ('trailer', 'trailing-data',
  ('returns', 'Container',
   "{'preamble': {'record_sequence_number': 1, 'first_record_subtype': 63, 'record_type': 192, 'second_record_subtype': 18, 'third_record_subtype': "
   "18, 'record_length': 720}, 'ascii_ebcdic_code': 'A', 'blanks1': '', 'format_control_document_id': 'CEOS-SAR', "
   "'format_control_document_revision_number': 'A', 'record_format_revision_level': 'A', 'software_release_and_revision_number': '001.001', "
   "'file_number': 4, 'file_id': 'BB ALOS2 SART', 'record_sequence_and_location_type_flag': 'FSEQ', 'sequence_number_of_location': 1, "
   "'field_length_of_sequence_number': 4, 'record_code_and_location_type_flag': 'FTYP', 'location_of_record_code': 5, 'field_length_of_record_code': "
   "4, 'record_length_and_location_type_flag': 'FLGT', 'location_of_record_length': 9, 'field_length_of_record_length': 4, 'dataset_summary': "
   "{'number_of_records': 0, 'record_length': 0}, 'map_projection': {'number_of_records': 1, 'record_length': 100}, 'platform_position': "
   "{'number_of_records': 2, 'record_length': 200}, 'attitude': {'number_of_records': 3, 'record_length': 300}, 'radiometric_data': "
   "{'number_of_records': 4, 'record_length': 400}, 'radiometric_compensation': {'number_of_records': 5, 'record_length': 500}, "
   "'data_quality_summary': {'number_of_records': 6, 'record_length': 600}, 'data_histogram': {'number_of_records': 7, 'record_length': 700}, "
   "'range_spectra': {'number_of_records': 8, 'record_length': 800}, 'dem_descriptor': {'number_of_records': 9, 'record_length': 900}, "
   "'radar_parameter_update': {'number_of_records': 10, 'record_length': 1000}, 'annotation_data': {'number_of_records': 11, 'record_length': 1100}, "
   "'detail_processing': {'number_of_records': 12, 'record_length': 1200}, 'calibration': {'number_of_records': 13, 'record_length': 1300}, 'gcp': "
   "{'number_of_records': 14, 'record_length': 1400}, 'spare': '', 'facility_related_data_1': {'number_of_records': 0, 'record_length': 0}, "
   "'facility_related_data_2': {'number_of_records': 1, 'record_length': 1000}, 'facility_related_data_3': {'number_of_records': 2, 'record_length': "
   "2000}, 'facility_related_data_4': {'number_of_records': 3, 'record_length': 3000}, 'facility_related_data_5': {'number_of_records': 4, "
   "'record_length': 4000}, 'number_of_low_resolution_images': 1, 'low_resolution_image_sizes': [{'record_length': 12, 'number_of_pixels': 2, "
   "'number_of_lines': 3, 'number_of_bytes_per_one_sample': 2}], 'blanks': ''}",
   'list', [('ndarray', '>i2', (2, 3), (6, 2), False, True, False, [[7, 3605, 7203], [10801, 14399, 17997]])]),
  [('read', (720,), {}, 0), ('read', (), {}, 720)]),
 ('trailer', 'empty-image',
  ('returns', 'Container',
   "{'preamble': {'record_sequence_number': 1, 'first_record_subtype': 63, 'record_type': 192, 'second_record_subtype': 18, 'third_record_subtype': "
   "18, 'record_length': 720}, 'ascii_ebcdic_code': 'A', 'blanks1': '', 'format_control_document_id': 'CEOS-SAR', "
   "'format_control_document_revision_number': 'A', 'record_format_revision_level': 'A', 'software_release_and_revision_number': '001.001', "
   "'file_number': 4, 'file_id': 'BB ALOS2 SART', 'record_sequence_and_location_type_flag': 'FSEQ', 'sequence_number_of_location': 1, "
   "'field_length_of_sequence_number': 4, 'record_code_and_location_type_flag': 'FTYP', 'location_of_record_code': 5, 'field_length_of_record_code': "
   "4, 'record_length_and_location_type_flag': 'FLGT', 'location_of_record_length': 9, 'field_length_of_record_length': 4, 'dataset_summary': "
   "{'number_of_records': 0, 'record_length': 0}, 'map_projection': {'number_of_records': 1, 'record_length': 100}, 'platform_position': "
   "{'number_of_records': 2, 'record_length': 200}, 'attitude': {'number_of_records': 3, 'record_length': 300}, 'radiometric_data': "
   "{'number_of_records': 4, 'record_length': 400}, 'radiometric_compensation': {'number_of_records': 5, 'record_length': 500}, "
   "'data_quality_summary': {'number_of_records': 6, 'record_length': 600}, 'data_histogram': {'number_of_records': 7, 'record_length': 700}, "
   "'range_spectra': {'number_of_records': 8, 'record_length': 800}, 'dem_descriptor': {'number_of_records': 9, 'record_length': 900}, "
   "'radar_parameter_update': {'number_of_records': 10, 'record_length': 1000}, 'annotation_data': {'number_of_records': 11, 'record_length': 1100}, "
   "'detail_processing': {'number_of_records': 12, 'record_length': 1200}, 'calibration': {'number_of_records': 13, 'record_length': 1300}, 'gcp': "
   "{'number_of_records': 14, 'record_length': 1400}, 'spare': '', 'facility_related_data_1': {'number_of_records': 0, 'record_length': 0}, "
   "'facility_related_data_2': {'number_of_records': 1, 'record_length': 1000}, 'facility_related_data_3': {'number_of_records': 2, 'record_length': "
   "2000}, 'facility_related_data_4': {'number_of_records': 3, 'record_length': 3000}, 'facility_related_data_5': {'number_of_records': 4, "
   "'record_length': 4000}, 'number_of_low_resolution_images': 2, 'low_resolution_image_sizes': [{'record_length': 0, 'number_of_pixels': 0, "
   "'number_of_lines': 3, 'number_of_bytes_per_one_sample': 2}, {'record_length': 4, 'number_of_pixels': 2, 'number_of_lines': 1, "
   "'number_of_bytes_per_one_sample': 2}], 'blanks': ''}",
   'list', [('ndarray', '>i2', (0, 3), (6, 2), False, True, False, []), ('ndarray', '>i2', (2, 1), (2, 2), False, True, False, [[7], [3605]])]),
  [('read', (720,), {}, 0), ('read', (), {}, 720)]),
 ('trailer', 'zero-lines',
  ('returns', 'Container',
   "{'preamble': {'record_sequence_number': 1, 'first_record_subtype': 63, 'record_type': 192, 'second_record_subtype': 18, 'third_record_subtype': "
   "18, 'record_length': 720}, 'ascii_ebcdic_code': 'A', 'blanks1': '', 'format_control_document_id': 'CEOS-SAR', "
   "'format_control_document_revision_number': 'A', 'record_format_revision_level': 'A', 'software_release_and_revision_number': '001.001', "
   "'file_number': 4, 'file_id': 'BB ALOS2 SART', 'record_sequence_and_location_type_flag': 'FSEQ', 'sequence_number_of_location': 1, "
   "'field_length_of_sequence_number': 4, 'record_code_and_location_type_flag': 'FTYP', 'location_of_record_code': 5, 'field_length_of_record_code': "
   "4, 'record_length_and_location_type_flag': 'FLGT', 'location_of_record_length': 9, 'field_length_of_record_length': 4, 'dataset_summary': "
   "{'number_of_records': 0, 'record_length': 0}, 'map_projection': {'number_of_records': 1, 'record_length': 100}, 'platform_position': "
   "{'number_of_records': 2, 'record_length': 200}, 'attitude': {'number_of_records': 3, 'record_length': 300}, 'radiometric_data': "
   "{'number_of_records': 4, 'record_length': 400}, 'radiometric_compensation': {'number_of_records': 5, 'record_length': 500}, "
   "'data_quality_summary': {'number_of_records': 6, 'record_length': 600}, 'data_histogram': {'number_of_records': 7, 'record_length': 700}, "
   "'range_spectra': {'number_of_records': 8, 'record_length': 800}, 'dem_descriptor': {'number_of_records': 9, 'record_length': 900}, "
   "'radar_parameter_update': {'number_of_records': 10, 'record_length': 1000}, 'annotation_data': {'number_of_records': 11, 'record_length': 1100}, "
   "'detail_processing': {'number_of_records': 12, 'record_length': 1200}, 'calibration': {'number_of_records': 13, 'record_length': 1300}, 'gcp': "
   "{'number_of_records': 14, 'record_length': 1400}, 'spare': '', 'facility_related_data_1': {'number_of_records': 0, 'record_length': 0}, "
   "'facility_related_data_2': {'number_of_records': 1, 'record_length': 1000}, 'facility_related_data_3': {'number_of_records': 2, 'record_length': "
   "2000}, 'facility_related_data_4': {'number_of_records': 3, 'record_length': 3000}, 'facility_related_data_5': {'number_of_records': 4, "
   "'record_length': 4000}, 'number_of_low_resolution_images': 1, 'low_resolution_image_sizes': [{'record_length': 0, 'number_of_pixels': 2, "
   "'number_of_lines': 0, 'number_of_bytes_per_one_sample': 2}], 'blanks': ''}",
   'list', [('ndarray', '>i2', (2, 0), (2, 2), False, True, False, [[], []])]),
  [('read', (720,), {}, 0), ('read', (), {}, 720)]),
 ('trailer', 'short-data', ('raises', 'ValueError', 'cannot reshape array of size 5 into shape (2,3)', None, None),
  [('read', (720,), {}, 0), ('read', (), {}, 720)]),
 ('trailer', 'short-data-odd', ('raises', 'ValueError', 'buffer size must be a multiple of element size', None, None),
  [('read', (720,), {}, 0), ('read', (), {}, 720)]),
 ('trailer', 'short-second', ('raises', 'ValueError', 'cannot reshape array of size 2 into shape (4,1)', None, None),
  [('read', (720,), {}, 0), ('read', (), {}, 720)]),
 ('trailer', 'no-data', ('raises', 'ValueError', 'cannot reshape array of size 0 into shape (2,3)', None, None),
  [('read', (720,), {}, 0), ('read', (), {}, 720)]),
 ('trailer', 'padded-records', ('raises', 'ValueError', 'cannot reshape array of size 8 into shape (2,3)', None, None),
  [('read', (720,), {}, 0), ('read', (), {}, 720)]),
 ('trailer', 'length-too-small', ('raises', 'ValueError', 'cannot reshape array of size 4 into shape (2,3)', None, None),
  [('read', (720,), {}, 0), ('read', (), {}, 720)]),
 ('trailer', 'three-bytes', ('raises', 'TypeError', "data type '>i3' not understood", None, None), [('read', (720,), {}, 0), ('read', (), {}, 720)]),
 ('trailer', 'three-bytes-second', ('raises', 'TypeError', "data type '>i3' not understood", None, None),
  [('read', (720,), {}, 0), ('read', (), {}, 720)]),
 ('trailer', 'zero-bytes', ('raises', 'TypeError', "data type '>i0' not understood", None, None), [('read', (720,), {}, 0), ('read', (), {}, 720)]),
 ('trailer', 'sixteen-bytes', ('raises', 'TypeError', "data type '>i16' not understood", None, None),
  [('read', (720,), {}, 0), ('read', (), {}, 720)]),
 ('trailer', 'negative-bytes', ('raises', 'TypeError', "data type '>i-2' not understood", None, None),
  [('read', (720,), {}, 0), ('read', (), {}, 720)]),
 ('trailer', 'blank-bytes', ('raises', 'TypeError', "data type '>i-1' not understood", None, None), [('read', (720,), {}, 0), ('read', (), {}, 720)]),
 ('trailer', 'blank-length', ('raises', 'ValueError', 'cannot reshape array of size 4 into shape (2,1)', None, None),
  [('read', (720,), {}, 0), ('read', (), {}, 720)]),
 ('trailer', 'negative-length', ('raises', 'ValueError', 'cannot reshape array of size 0 into shape (2,1)', None, None),
  [('read', (720,), {}, 0), ('read', (), {}, 720)]),
 ('trailer', 'negative-first-length', ('raises', 'ValueError', 'cannot reshape array of size 4 into shape (2,1)', None, None),
  [('read', (720,), {}, 0), ('read', (), {}, 720)]),
 ('trailer', 'negative-pixels',
  ('returns', 'Container',
   "{'preamble': {'record_sequence_number': 1, 'first_record_subtype': 63, 'record_type': 192, 'second_record_subtype': 18, 'third_record_subtype': "
   "18, 'record_length': 720}, 'ascii_ebcdic_code': 'A', 'blanks1': '', 'format_control_document_id': 'CEOS-SAR', "
   "'format_control_document_revision_number': 'A', 'record_format_revision_level': 'A', 'software_release_and_revision_number': '001.001', "
   "'file_number': 4, 'file_id': 'BB ALOS2 SART', 'record_sequence_and_location_type_flag': 'FSEQ', 'sequence_number_of_location': 1, "
   "'field_length_of_sequence_number': 4, 'record_code_and_location_type_flag': 'FTYP', 'location_of_record_code': 5, 'field_length_of_record_code': "
   "4, 'record_length_and_location_type_flag': 'FLGT', 'location_of_record_length': 9, 'field_length_of_record_length': 4, 'dataset_summary': "
   "{'number_of_records': 0, 'record_length': 0}, 'map_projection': {'number_of_records': 1, 'record_length': 100}, 'platform_position': "
   "{'number_of_records': 2, 'record_length': 200}, 'attitude': {'number_of_records': 3, 'record_length': 300}, 'radiometric_data': "
   "{'number_of_records': 4, 'record_length': 400}, 'radiometric_compensation': {'number_of_records': 5, 'record_length': 500}, "
   "'data_quality_summary': {'number_of_records': 6, 'record_length': 600}, 'data_histogram': {'number_of_records': 7, 'record_length': 700}, "
   "'range_spectra': {'number_of_records': 8, 'record_length': 800}, 'dem_descriptor': {'number_of_records': 9, 'record_length': 900}, "
   "'radar_parameter_update': {'number_of_records': 10, 'record_length': 1000}, 'annotation_data': {'number_of_records': 11, 'record_length': 1100}, "
   "'detail_processing': {'number_of_records': 12, 'record_length': 1200}, 'calibration': {'number_of_records': 13, 'record_length': 1300}, 'gcp': "
   "{'number_of_records': 14, 'record_length': 1400}, 'spare': '', 'facility_related_data_1': {'number_of_records': 0, 'record_length': 0}, "
   "'facility_related_data_2': {'number_of_records': 1, 'record_length': 1000}, 'facility_related_data_3': {'number_of_records': 2, 'record_length': "
   "2000}, 'facility_related_data_4': {'number_of_records': 3, 'record_length': 3000}, 'facility_related_data_5': {'number_of_records': 4, "
   "'record_length': 4000}, 'number_of_low_resolution_images': 1, 'low_resolution_image_sizes': [{'record_length': 4, 'number_of_pixels': -1, "
   "'number_of_lines': 2, 'number_of_bytes_per_one_sample': 2}], 'blanks': ''}",
   'list', [('ndarray', '>i2', (1, 2), (4, 2), False, True, False, [[7, 3605]])]),
  [('read', (720,), {}, 0), ('read', (), {}, 720)]),
 ('trailer', 'blank-pixels',
  ('returns', 'Container',
   "{'preamble': {'record_sequence_number': 1, 'first_record_subtype': 63, 'record_type': 192, 'second_record_subtype': 18, 'third_record_subtype': "
   "18, 'record_length': 720}, 'ascii_ebcdic_code': 'A', 'blanks1': '', 'format_control_document_id': 'CEOS-SAR', "
   "'format_control_document_revision_number': 'A', 'record_format_revision_level': 'A', 'software_release_and_revision_number': '001.001', "
   "'file_number': 4, 'file_id': 'BB ALOS2 SART', 'record_sequence_and_location_type_flag': 'FSEQ', 'sequence_number_of_location': 1, "
   "'field_length_of_sequence_number': 4, 'record_code_and_location_type_flag': 'FTYP', 'location_of_record_code': 5, 'field_length_of_record_code': "
   "4, 'record_length_and_location_type_flag': 'FLGT', 'location_of_record_length': 9, 'field_length_of_record_length': 4, 'dataset_summary': "
   "{'number_of_records': 0, 'record_length': 0}, 'map_projection': {'number_of_records': 1, 'record_length': 100}, 'platform_position': "
   "{'number_of_records': 2, 'record_length': 200}, 'attitude': {'number_of_records': 3, 'record_length': 300}, 'radiometric_data': "
   "{'number_of_records': 4, 'record_length': 400}, 'radiometric_compensation': {'number_of_records': 5, 'record_length': 500}, "
   "'data_quality_summary': {'number_of_records': 6, 'record_length': 600}, 'data_histogram': {'number_of_records': 7, 'record_length': 700}, "
   "'range_spectra': {'number_of_records': 8, 'record_length': 800}, 'dem_descriptor': {'number_of_records': 9, 'record_length': 900}, "
   "'radar_parameter_update': {'number_of_records': 10, 'record_length': 1000}, 'annotation_data': {'number_of_records': 11, 'record_length': 1100}, "
   "'detail_processing': {'number_of_records': 12, 'record_length': 1200}, 'calibration': {'number_of_records': 13, 'record_length': 1300}, 'gcp': "
   "{'number_of_records': 14, 'record_length': 1400}, 'spare': '', 'facility_related_data_1': {'number_of_records': 0, 'record_length': 0}, "
   "'facility_related_data_2': {'number_of_records': 1, 'record_length': 1000}, 'facility_related_data_3': {'number_of_records': 2, 'record_length': "
   "2000}, 'facility_related_data_4': {'number_of_records': 3, 'record_length': 3000}, 'facility_related_data_5': {'number_of_records': 4, "
   "'record_length': 4000}, 'number_of_low_resolution_images': 2, 'low_resolution_image_sizes': [{'record_length': 4, 'number_of_pixels': -1, "
   "'number_of_lines': 2, 'number_of_bytes_per_one_sample': 2}, {'record_length': 4, 'number_of_pixels': 2, 'number_of_lines': -1, "
   "'number_of_bytes_per_one_sample': 2}], 'blanks': ''}",
   'list',
   [('ndarray', '>i2', (1, 2), (4, 2), False, True, False, [[7, 3605]]), ('ndarray', '>i2', (2, 1), (2, 2), False, True, False, [[7203], [10801]])]),
  [('read', (720,), {}, 0), ('read', (), {}, 720)]),
 ('trailer', 'blank-count', ('raises', 'RangeError', 'Error in path (parsing) -> low_resolution_image_sizes\ninvalid count -1', None, None),
  [('read', (720,), {}, 0)]),
 ('trailer', 'negative-count', ('raises', 'RangeError', 'Error in path (parsing) -> low_resolution_image_sizes\ninvalid count -2', None, None),
  [('read', (720,), {}, 0)]),
 ('trailer', 'count-too-large', ('raises', 'TypeError', "data type '>i-1' not understood", None, None),
  [('read', (720,), {}, 0), ('read', (), {}, 720)]),
 ('trailer', 'count-too-small',
  ('returns', 'Container',
   "{'preamble': {'record_sequence_number': 1, 'first_record_subtype': 63, 'record_type': 192, 'second_record_subtype': 18, 'third_record_subtype': "
   "18, 'record_length': 720}, 'ascii_ebcdic_code': 'A', 'blanks1': '', 'format_control_document_id': 'CEOS-SAR', "
   "'format_control_document_revision_number': 'A', 'record_format_revision_level': 'A', 'software_release_and_revision_number': '001.001', "
   "'file_number': 4, 'file_id': 'BB ALOS2 SART', 'record_sequence_and_location_type_flag': 'FSEQ', 'sequence_number_of_location': 1, "
   "'field_length_of_sequence_number': 4, 'record_code_and_location_type_flag': 'FTYP', 'location_of_record_code': 5, 'field_length_of_record_code': "
   "4, 'record_length_and_location_type_flag': 'FLGT', 'location_of_record_length': 9, 'field_length_of_record_length': 4, 'dataset_summary': "
   "{'number_of_records': 0, 'record_length': 0}, 'map_projection': {'number_of_records': 1, 'record_length': 100}, 'platform_position': "
   "{'number_of_records': 2, 'record_length': 200}, 'attitude': {'number_of_records': 3, 'record_length': 300}, 'radiometric_data': "
   "{'number_of_records': 4, 'record_length': 400}, 'radiometric_compensation': {'number_of_records': 5, 'record_length': 500}, "
   "'data_quality_summary': {'number_of_records': 6, 'record_length': 600}, 'data_histogram': {'number_of_records': 7, 'record_length': 700}, "
   "'range_spectra': {'number_of_records': 8, 'record_length': 800}, 'dem_descriptor': {'number_of_records': 9, 'record_length': 900}, "
   "'radar_parameter_update': {'number_of_records': 10, 'record_length': 1000}, 'annotation_data': {'number_of_records': 11, 'record_length': 1100}, "
   "'detail_processing': {'number_of_records': 12, 'record_length': 1200}, 'calibration': {'number_of_records': 13, 'record_length': 1300}, 'gcp': "
   "{'number_of_records': 14, 'record_length': 1400}, 'spare': '', 'facility_related_data_1': {'number_of_records': 0, 'record_length': 0}, "
   "'facility_related_data_2': {'number_of_records': 1, 'record_length': 1000}, 'facility_related_data_3': {'number_of_records': 2, 'record_length': "
   "2000}, 'facility_related_data_4': {'number_of_records': 3, 'record_length': 3000}, 'facility_related_data_5': {'number_of_records': 4, "
   "'record_length': 4000}, 'number_of_low_resolution_images': 1, 'low_resolution_image_sizes': [{'record_length': 4, 'number_of_pixels': 2, "
   "'number_of_lines': 1, 'number_of_bytes_per_one_sample': 2}], 'blanks': '4     2     1     2'}",
   'list', [('ndarray', '>i2', (2, 1), (2, 2), False, True, False, [[7], [3605]])]),
  [('read', (720,), {}, 0), ('read', (), {}, 720)]),
 ('trailer', 'garbage-length', ('raises', 'ValueError', "invalid literal for int() with base 10: '12ab'", None, None), [('read', (720,), {}, 0)]),
 ('trailer', 'short-header', ('raises', 'ValueError', 'cannot reshape array of size 0 into shape (2,3)', None, None),
  [('read', (720,), {}, 0), ('read', (), {}, 700)]),
 ('trailer', 'header-without-padding',
  ('raises', 'StreamError', 'Error in path (parsing) -> blanks\nstream read less than specified amount, expected 172, found 0', None, None),
  [('read', (720,), {}, 0)]),
 ('trailer', 'empty-file',
  ('raises', 'StreamError',
   'Error in path (parsing) -> preamble -> record_sequence_number\nstream read less than specified amount, expected 4, found 0', None, None),
  [('read', (720,), {}, 0)]),
 ('trailer-bytearray', 'two-images',
  ('returns', 'Container',
   "{'preamble': {'record_sequence_number': 1, 'first_record_subtype': 63, 'record_type': 192, 'second_record_subtype': 18, 'third_record_subtype': "
   "18, 'record_length': 720}, 'ascii_ebcdic_code': 'A', 'blanks1': '', 'format_control_document_id': 'CEOS-SAR', "
   "'format_control_document_revision_number': 'A', 'record_format_revision_level': 'A', 'software_release_and_revision_number': '001.001', "
   "'file_number': 4, 'file_id': 'BB ALOS2 SART', 'record_sequence_and_location_type_flag': 'FSEQ', 'sequence_number_of_location': 1, "
   "'field_length_of_sequence_number': 4, 'record_code_and_location_type_flag': 'FTYP', 'location_of_record_code': 5, 'field_length_of_record_code': "
   "4, 'record_length_and_location_type_flag': 'FLGT', 'location_of_record_length': 9, 'field_length_of_record_length': 4, 'dataset_summary': "
   "{'number_of_records': 0, 'record_length': 0}, 'map_projection': {'number_of_records': 1, 'record_length': 100}, 'platform_position': "
   "{'number_of_records': 2, 'record_length': 200}, 'attitude': {'number_of_records': 3, 'record_length': 300}, 'radiometric_data': "
   "{'number_of_records': 4, 'record_length': 400}, 'radiometric_compensation': {'number_of_records': 5, 'record_length': 500}, "
   "'data_quality_summary': {'number_of_records': 6, 'record_length': 600}, 'data_histogram': {'number_of_records': 7, 'record_length': 700}, "
   "'range_spectra': {'number_of_records': 8, 'record_length': 800}, 'dem_descriptor': {'number_of_records': 9, 'record_length': 900}, "
   "'radar_parameter_update': {'number_of_records': 10, 'record_length': 1000}, 'annotation_data': {'number_of_records': 11, 'record_length': 1100}, "
   "'detail_processing': {'number_of_records': 12, 'record_length': 1200}, 'calibration': {'number_of_records': 13, 'record_length': 1300}, 'gcp': "
   "{'number_of_records': 14, 'record_length': 1400}, 'spare': '', 'facility_related_data_1': {'number_of_records': 0, 'record_length': 0}, "
   "'facility_related_data_2': {'number_of_records': 1, 'record_length': 1000}, 'facility_related_data_3': {'number_of_records': 2, 'record_length': "
   "2000}, 'facility_related_data_4': {'number_of_records': 3, 'record_length': 3000}, 'facility_related_data_5': {'number_of_records': 4, "
   "'record_length': 4000}, 'number_of_low_resolution_images': 2, 'low_resolution_image_sizes': [{'record_length': 12, 'number_of_pixels': 2, "
   "'number_of_lines': 3, 'number_of_bytes_per_one_sample': 2}, {'record_length': 8, 'number_of_pixels': 4, 'number_of_lines': 1, "
   "'number_of_bytes_per_one_sample': 2}], 'blanks': ''}",
   'list',
   [('ndarray', '>i2', (2, 3), (6, 2), True, True, False, [[7, 3605, 7203], [10801, 14399, 17997]]),
    ('ndarray', '>i2', (4, 1), (2, 2), True, True, False, [[21595], [25193], [28791], [32389]])]),
  [('read', (720,), {}, 0), ('read', (), {}, 720)]),
 ('trailer-memoryview', 'two-images',
  ('returns', 'Container',
   "{'preamble': {'record_sequence_number': 1, 'first_record_subtype': 63, 'record_type': 192, 'second_record_subtype': 18, 'third_record_subtype': "
   "18, 'record_length': 720}, 'ascii_ebcdic_code': 'A', 'blanks1': '', 'format_control_document_id': 'CEOS-SAR', "
   "'format_control_document_revision_number': 'A', 'record_format_revision_level': 'A', 'software_release_and_revision_number': '001.001', "
   "'file_number': 4, 'file_id': 'BB ALOS2 SART', 'record_sequence_and_location_type_flag': 'FSEQ', 'sequence_number_of_location': 1, "
   "'field_length_of_sequence_number': 4, 'record_code_and_location_type_flag': 'FTYP', 'location_of_record_code': 5, 'field_length_of_record_code': "
   "4, 'record_length_and_location_type_flag': 'FLGT', 'location_of_record_length': 9, 'field_length_of_record_length': 4, 'dataset_summary': "
   "{'number_of_records': 0, 'record_length': 0}, 'map_projection': {'number_of_records': 1, 'record_length': 100}, 'platform_position': "
   "{'number_of_records': 2, 'record_length': 200}, 'attitude': {'number_of_records': 3, 'record_length': 300}, 'radiometric_data': "
   "{'number_of_records': 4, 'record_length': 400}, 'radiometric_compensation': {'number_of_records': 5, 'record_length': 500}, "
   "'data_quality_summary': {'number_of_records': 6, 'record_length': 600}, 'data_histogram': {'number_of_records': 7, 'record_length': 700}, "
   "'range_spectra': {'number_of_records': 8, 'record_length': 800}, 'dem_descriptor': {'number_of_records': 9, 'record_length': 900}, "
   "'radar_parameter_update': {'number_of_records': 10, 'record_length': 1000}, 'annotation_data': {'number_of_records': 11, 'record_length': 1100}, "
   "'detail_processing': {'number_of_records': 12, 'record_length': 1200}, 'calibration': {'number_of_records': 13, 'record_length': 1300}, 'gcp': "
   "{'number_of_records': 14, 'record_length': 1400}, 'spare': '', 'facility_related_data_1': {'number_of_records': 0, 'record_length': 0}, "
   "'facility_related_data_2': {'number_of_records': 1, 'record_length': 1000}, 'facility_related_data_3': {'number_of_records': 2, 'record_length': "
   "2000}, 'facility_related_data_4': {'number_of_records': 3, 'record_length': 3000}, 'facility_related_data_5': {'number_of_records': 4, "
   "'record_length': 4000}, 'number_of_low_resolution_images': 2, 'low_resolution_image_sizes': [{'record_length': 12, 'number_of_pixels': 2, "
   "'number_of_lines': 3, 'number_of_bytes_per_one_sample': 2}, {'record_length': 8, 'number_of_pixels': 4, 'number_of_lines': 1, "
   "'number_of_bytes_per_one_sample': 2}], 'blanks': ''}",
   'list',
   [('ndarray', '>i2', (2, 3), (6, 2), False, True, False, [[7, 3605, 7203], [10801, 14399, 17997]]),
    ('ndarray', '>i2', (4, 1), (2, 2), False, True, False, [[21595], [25193], [28791], [32389]])]),
  [('read', (720,), {}, 0), ('read', (), {}, 720)]),
 ('trailer-bytearray', 'short-second', ('raises', 'ValueError', 'cannot reshape array of size 2 into shape (4,1)', None, None),
  [('read', (720,), {}, 0), ('read', (), {}, 720)]),
 ('trailer-memoryview', 'short-second', ('raises', 'ValueError', 'cannot reshape array of size 2 into shape (4,1)', None, None),
  [('read', (720,), {}, 0), ('read', (), {}, 720)]),
 ('trailer-bytearray', 'no-images-no-data',
  ('returns', 'Container',
   "{'preamble': {'record_sequence_number': 1, 'first_record_subtype': 63, 'record_type': 192, 'second_record_subtype': 18, 'third_record_subtype': "
   "18, 'record_length': 720}, 'ascii_ebcdic_code': 'A', 'blanks1': '', 'format_control_document_id': 'CEOS-SAR', "
   "'format_control_document_revision_number': 'A', 'record_format_revision_level': 'A', 'software_release_and_revision_number': '001.001', "
   "'file_number': 4, 'file_id': 'BB ALOS2 SART', 'record_sequence_and_location_type_flag': 'FSEQ', 'sequence_number_of_location': 1, "
   "'field_length_of_sequence_number': 4, 'record_code_and_location_type_flag': 'FTYP', 'location_of_record_code': 5, 'field_length_of_record_code': "
   "4, 'record_length_and_location_type_flag': 'FLGT', 'location_of_record_length': 9, 'field_length_of_record_length': 4, 'dataset_summary': "
   "{'number_of_records': 0, 'record_length': 0}, 'map_projection': {'number_of_records': 1, 'record_length': 100}, 'platform_position': "
   "{'number_of_records': 2, 'record_length': 200}, 'attitude': {'number_of_records': 3, 'record_length': 300}, 'radiometric_data': "
   "{'number_of_records': 4, 'record_length': 400}, 'radiometric_compensation': {'number_of_records': 5, 'record_length': 500}, "
   "'data_quality_summary': {'number_of_records': 6, 'record_length': 600}, 'data_histogram': {'number_of_records': 7, 'record_length': 700}, "
   "'range_spectra': {'number_of_records': 8, 'record_length': 800}, 'dem_descriptor': {'number_of_records': 9, 'record_length': 900}, "
   "'radar_parameter_update': {'number_of_records': 10, 'record_length': 1000}, 'annotation_data': {'number_of_records': 11, 'record_length': 1100}, "
   "'detail_processing': {'number_of_records': 12, 'record_length': 1200}, 'calibration': {'number_of_records': 13, 'record_length': 1300}, 'gcp': "
   "{'number_of_records': 14, 'record_length': 1400}, 'spare': '', 'facility_related_data_1': {'number_of_records': 0, 'record_length': 0}, "
   "'facility_related_data_2': {'number_of_records': 1, 'record_length': 1000}, 'facility_related_data_3': {'number_of_records': 2, 'record_length': "
   "2000}, 'facility_related_data_4': {'number_of_records': 3, 'record_length': 3000}, 'facility_related_data_5': {'number_of_records': 4, "
   "'record_length': 4000}, 'number_of_low_resolution_images': 0, 'low_resolution_image_sizes': [], 'blanks': ''}",
   'list', []),
  [('read', (720,), {}, 0), ('read', (), {}, 720)]),
 ('trailer-memoryview', 'no-images-no-data',
  ('returns', 'Container',
   "{'preamble': {'record_sequence_number': 1, 'first_record_subtype': 63, 'record_type': 192, 'second_record_subtype': 18, 'third_record_subtype': "
   "18, 'record_length': 720}, 'ascii_ebcdic_code': 'A', 'blanks1': '', 'format_control_document_id': 'CEOS-SAR', "
   "'format_control_document_revision_number': 'A', 'record_format_revision_level': 'A', 'software_release_and_revision_number': '001.001', "
   "'file_number': 4, 'file_id': 'BB ALOS2 SART', 'record_sequence_and_location_type_flag': 'FSEQ', 'sequence_number_of_location': 1, "
   "'field_length_of_sequence_number': 4, 'record_code_and_location_type_flag': 'FTYP', 'location_of_record_code': 5, 'field_length_of_record_code': "
   "4, 'record_length_and_location_type_flag': 'FLGT', 'location_of_record_length': 9, 'field_length_of_record_length': 4, 'dataset_summary': "
   "{'number_of_records': 0, 'record_length': 0}, 'map_projection': {'number_of_records': 1, 'record_length': 100}, 'platform_position': "
   "{'number_of_records': 2, 'record_length': 200}, 'attitude': {'number_of_records': 3, 'record_length': 300}, 'radiometric_data': "
   "{'number_of_records': 4, 'record_length': 400}, 'radiometric_compensation': {'number_of_records': 5, 'record_length': 500}, "
   "'data_quality_summary': {'number_of_records': 6, 'record_length': 600}, 'data_histogram': {'number_of_records': 7, 'record_length': 700}, "
   "'range_spectra': {'number_of_records': 8, 'record_length': 800}, 'dem_descriptor': {'number_of_records': 9, 'record_length': 900}, "
   "'radar_parameter_update': {'number_of_records': 10, 'record_length': 1000}, 'annotation_data': {'number_of_records': 11, 'record_length': 1100}, "
   "'detail_processing': {'number_of_records': 12, 'record_length': 1200}, 'calibration': {'number_of_records': 13, 'record_length': 1300}, 'gcp': "
   "{'number_of_records': 14, 'record_length': 1400}, 'spare': '', 'facility_related_data_1': {'number_of_records': 0, 'record_length': 0}, "
   "'facility_related_data_2': {'number_of_records': 1, 'record_length': 1000}, 'facility_related_data_3': {'number_of_records': 2, 'record_length': "
   "2000}, 'facility_related_data_4': {'number_of_records': 3, 'record_length': 3000}, 'facility_related_data_5': {'number_of_records': 4, "
   "'record_length': 4000}, 'number_of_low_resolution_images': 0, 'low_resolution_image_sizes': [], 'blanks': ''}",
   'list', []),
  [('read', (720,), {}, 0), ('read', (), {}, 720)]),
 ('positioned',
  ('returns', 'Container',
   "{'preamble': {'record_sequence_number': 1, 'first_record_subtype': 63, 'record_type': 192, 'second_record_subtype': 18, 'third_record_subtype': "
   "18, 'record_length': 720}, 'ascii_ebcdic_code': 'A', 'blanks1': '', 'format_control_document_id': 'CEOS-SAR', "
   "'format_control_document_revision_number': 'A', 'record_format_revision_level': 'A', 'software_release_and_revision_number': '001.001', "
   "'file_number': 4, 'file_id': 'BB ALOS2 SART', 'record_sequence_and_location_type_flag': 'FSEQ', 'sequence_number_of_location': 1, "
   "'field_length_of_sequence_number': 4, 'record_code_and_location_type_flag': 'FTYP', 'location_of_record_code': 5, 'field_length_of_record_code': "
   "4, 'record_length_and_location_type_flag': 'FLGT', 'location_of_record_length': 9, 'field_length_of_record_length': 4, 'dataset_summary': "
   "{'number_of_records': 0, 'record_length': 0}, 'map_projection': {'number_of_records': 1, 'record_length': 100}, 'platform_position': "
   "{'number_of_records': 2, 'record_length': 200}, 'attitude': {'number_of_records': 3, 'record_length': 300}, 'radiometric_data': "
   "{'number_of_records': 4, 'record_length': 400}, 'radiometric_compensation': {'number_of_records': 5, 'record_length': 500}, "
   "'data_quality_summary': {'number_of_records': 6, 'record_length': 600}, 'data_histogram': {'number_of_records': 7, 'record_length': 700}, "
   "'range_spectra': {'number_of_records': 8, 'record_length': 800}, 'dem_descriptor': {'number_of_records': 9, 'record_length': 900}, "
   "'radar_parameter_update': {'number_of_records': 10, 'record_length': 1000}, 'annotation_data': {'number_of_records': 11, 'record_length': 1100}, "
   "'detail_processing': {'number_of_records': 12, 'record_length': 1200}, 'calibration': {'number_of_records': 13, 'record_length': 1300}, 'gcp': "
   "{'number_of_records': 14, 'record_length': 1400}, 'spare': '', 'facility_related_data_1': {'number_of_records': 0, 'record_length': 0}, "
   "'facility_related_data_2': {'number_of_records': 1, 'record_length': 1000}, 'facility_related_data_3': {'number_of_records': 2, 'record_length': "
   "2000}, 'facility_related_data_4': {'number_of_records': 3, 'record_length': 3000}, 'facility_related_data_5': {'number_of_records': 4, "
   "'record_length': 4000}, 'number_of_low_resolution_images': 2, 'low_resolution_image_sizes': [{'record_length': 12, 'number_of_pixels': 2, "
   "'number_of_lines': 3, 'number_of_bytes_per_one_sample': 2}, {'record_length': 8, 'number_of_pixels': 4, 'number_of_lines': 1, "
   "'number_of_bytes_per_one_sample': 2}], 'blanks': ''}",
   'list',
   [('ndarray', '>i2', (2, 3), (6, 2), False, True, False, [[7, 3605, 7203], [10801, 14399, 17997]]),
    ('ndarray', '>i2', (4, 1), (2, 2), False, True, False, [[21595], [25193], [28791], [32389]])]),
  [('seek', (5,), {}), ('read', (720,), {}, 5), ('read', (), {}, 725)]),
 ('fsspec',
  ('returns', 'Container',
   "{'preamble': {'record_sequence_number': 1, 'first_record_subtype': 63, 'record_type': 192, 'second_record_subtype': 18, 'third_record_subtype': "
   "18, 'record_length': 720}, 'ascii_ebcdic_code': 'A', 'blanks1': '', 'format_control_document_id': 'CEOS-SAR', "
   "'format_control_document_revision_number': 'A', 'record_format_revision_level': 'A', 'software_release_and_revision_number': '001.001', "
   "'file_number': 4, 'file_id': 'BB ALOS2 SART', 'record_sequence_and_location_type_flag': 'FSEQ', 'sequence_number_of_location': 1, "
   "'field_length_of_sequence_number': 4, 'record_code_and_location_type_flag': 'FTYP', 'location_of_record_code': 5, 'field_length_of_record_code': "
   "4, 'record_length_and_location_type_flag': 'FLGT', 'location_of_record_length': 9, 'field_length_of_record_length': 4, 'dataset_summary': "
   "{'number_of_records': 0, 'record_length': 0}, 'map_projection': {'number_of_records': 1, 'record_length': 100}, 'platform_position': "
   "{'number_of_records': 2, 'record_length': 200}, 'attitude': {'number_of_records': 3, 'record_length': 300}, 'radiometric_data': "
   "{'number_of_records': 4, 'record_length': 400}, 'radiometric_compensation': {'number_of_records': 5, 'record_length': 500}, "
   "'data_quality_summary': {'number_of_records': 6, 'record_length': 600}, 'data_histogram': {'number_of_records': 7, 'record_length': 700}, "
   "'range_spectra': {'number_of_records': 8, 'record_length': 800}, 'dem_descriptor': {'number_of_records': 9, 'record_length': 900}, "
   "'radar_parameter_update': {'number_of_records': 10, 'record_length': 1000}, 'annotation_data': {'number_of_records': 11, 'record_length': 1100}, "
   "'detail_processing': {'number_of_records': 12, 'record_length': 1200}, 'calibration': {'number_of_records': 13, 'record_length': 1300}, 'gcp': "
   "{'number_of_records': 14, 'record_length': 1400}, 'spare': '', 'facility_related_data_1': {'number_of_records': 0, 'record_length': 0}, "
   "'facility_related_data_2': {'number_of_records': 1, 'record_length': 1000}, 'facility_related_data_3': {'number_of_records': 2, 'record_length': "
   "2000}, 'facility_related_data_4': {'number_of_records': 3, 'record_length': 3000}, 'facility_related_data_5': {'number_of_records': 4, "
   "'record_length': 4000}, 'number_of_low_resolution_images': 3, 'low_resolution_image_sizes': [{'record_length': 4, 'number_of_pixels': 2, "
   "'number_of_lines': 2, 'number_of_bytes_per_one_sample': 1}, {'record_length': 16, 'number_of_pixels': 2, 'number_of_lines': 2, "
   "'number_of_bytes_per_one_sample': 4}, {'record_length': 6, 'number_of_pixels': 3, 'number_of_lines': 1, 'number_of_bytes_per_one_sample': 2}], "
   "'blanks': ''}",
   'list',
   [('ndarray', '|i1', (2, 2), (2, 1), False, True, False, [[100, 107], [114, 121]]),
    ('ndarray', '>i4', (2, 2), (8, 4), False, True, False, [[-2138599787, -1666995535], [-1195391283, -723787031]]),
    ('ndarray', '>i2', (3, 1), (2, 2), False, True, False, [[-3849], [-507], [3091]])])),
 ('not-a-file', 'None', ('raises', 'AttributeError', "'NoneType' object has no attribute 'read'", None, None)),
 ('not-a-file', "b'abc'", ('raises', 'AttributeError', "'bytes' object has no attribute 'read'", None, None)),
 ('not-a-file', '5', ('raises', 'AttributeError', "'int' object has no attribute 'read'", None, None)), ('views', [True, True], 2),
 ('patched', 'no-images-extra-data', ('returns', 'list', []), []),
 ('patched', 'two-images', ('returns', 'list', [(12, (2, 3), 2), (8, (4, 1), 2)]),
  [('bytes', b'\x00\x07\x0e\x15\x1c#*18?FM', 'tuple', (2, 3), 'int', 2), ('bytes', b'T[bipw~\x85', 'tuple', (4, 1), 'int', 2)]),
 ('patched', 'seven-images',
  ('returns', 'list', [(2, (1, 1), 2), (4, (2, 1), 2), (6, (3, 1), 2), (8, (4, 1), 2), (10, (5, 1), 2), (12, (6, 1), 2), (14, (7, 1), 2)]),
  [('bytes', b'\x00\x07', 'tuple', (1, 1), 'int', 2), ('bytes', b'\x0e\x15\x1c#', 'tuple', (2, 1), 'int', 2),
   ('bytes', b'*18?FM', 'tuple', (3, 1), 'int', 2), ('bytes', b'T[bipw~\x85', 'tuple', (4, 1), 'int', 2),
   ('bytes', b'\x8c\x93\x9a\xa1\xa8\xaf\xb6\xbd\xc4\xcb', 'tuple', (5, 1), 'int', 2),
   ('bytes', b'\xd2\xd9\xe0\xe7\xee\xf5\xfc\x03\n\x11\x18\x1f', 'tuple', (6, 1), 'int', 2),
   ('bytes', b'&-4;BIPW^elsz\x81', 'tuple', (7, 1), 'int', 2)]),
 ('patched', 'short-second', ('returns', 'list', [(12, (2, 3), 2), (4, (4, 1), 2)]),
  [('bytes', b'\x00\x07\x0e\x15\x1c#*18?FM', 'tuple', (2, 3), 'int', 2), ('bytes', b'T[bi', 'tuple', (4, 1), 'int', 2)]),
 ('patched', 'negative-length', ('returns', 'list', [(8, (2, 2), 2), (0, (2, 1), 2), (4, (1, 2), 2)]),
  [('bytes', b'\x00\x07\x0e\x15\x1c#*1', 'tuple', (2, 2), 'int', 2), ('bytes', b'', 'tuple', (2, 1), 'int', 2),
   ('bytes', b'\x1c#*1', 'tuple', (1, 2), 'int', 2)]),
 ('patched', 'negative-first-length', ('returns', 'list', [(8, (2, 1), 2), (0, (2, 1), 2)]),
  [('bytes', b'\x00\x07\x0e\x15\x1c#*1', 'tuple', (2, 1), 'int', 2), ('bytes', b'', 'tuple', (2, 1), 'int', 2)]),
 ('patched', 'blank-length', ('returns', 'list', [(8, (2, 1), 2), (0, (2, 1), 2)]),
  [('bytes', b'\x00\x07\x0e\x15\x1c#*1', 'tuple', (2, 1), 'int', 2), ('bytes', b'', 'tuple', (2, 1), 'int', 2)]),
 ('patched', 'three-bytes-second', ('raises', 'RuntimeError', 'three', None, None),
  [('bytes', b'\x00\x07\x0e\x15', 'tuple', (2, 1), 'int', 2), ('bytes', b'\x1c#*18?', 'tuple', (2, 1), 'int', 3)]),
 ('patched', 'padded-records', ('returns', 'list', [(16, (2, 3), 2)]), [('bytes', b'\x00\x07\x0e\x15\x1c#*18?FMT[bi', 'tuple', (2, 3), 'int', 2)]),
 ('image', 'bytes', '(2, 3)', '1', ('raises', 'ValueError', 'cannot reshape array of size 24 into shape (2,3)', None, None)),
 ('image', 'bytes', '(3, 2)', '1', ('raises', 'ValueError', 'cannot reshape array of size 24 into shape (3,2)', None, None)),
 ('image', 'bytes', '(24,)', '1',
  ('returns',
   ('ndarray', '|i1', (24,), (1,), False, True, False,
    [17, 24, 31, 38, 45, 52, 59, 66, 73, 80, 87, 94, 101, 108, 115, 122, -127, -120, -113, -106, -99, -92, -85, -78]))),
 ('image', 'bytes', '(1, 24)', '1',
  ('returns',
   ('ndarray', '|i1', (1, 24), (24, 1), False, True, False,
    [[17, 24, 31, 38, 45, 52, 59, 66, 73, 80, 87, 94, 101, 108, 115, 122, -127, -120, -113, -106, -99, -92, -85, -78]]))),
 ('image', 'bytes', '(4, 3, 2)', '1',
  ('returns',
   ('ndarray', '|i1', (4, 3, 2), (6, 2, 1), False, True, False,
    [[[17, 24], [31, 38], [45, 52]], [[59, 66], [73, 80], [87, 94]], [[101, 108], [115, 122], [-127, -120]],
     [[-113, -106], [-99, -92], [-85, -78]]]))),
 ('image', 'bytes', '(6, 4)', '1',
  ('returns',
   ('ndarray', '|i1', (6, 4), (4, 1), False, True, False,
    [[17, 24, 31, 38], [45, 52, 59, 66], [73, 80, 87, 94], [101, 108, 115, 122], [-127, -120, -113, -106], [-99, -92, -85, -78]]))),
 ('image', 'bytes', '(12, 2)', '1',
  ('returns',
   ('ndarray', '|i1', (12, 2), (2, 1), False, True, False,
    [[17, 24], [31, 38], [45, 52], [59, 66], [73, 80], [87, 94], [101, 108], [115, 122], [-127, -120], [-113, -106], [-99, -92], [-85, -78]]))),
 ('image', 'bytes', '(3, 8)', '1',
  ('returns',
   ('ndarray', '|i1', (3, 8), (8, 1), False, True, False,
    [[17, 24, 31, 38, 45, 52, 59, 66], [73, 80, 87, 94, 101, 108, 115, 122], [-127, -120, -113, -106, -99, -92, -85, -78]]))),
 ('image', 'bytes', '(0, 5)', '1', ('raises', 'ValueError', 'cannot reshape array of size 24 into shape (0,5)', None, None)),
 ('image', 'bytes', '()', '1', ('raises', 'ValueError', 'cannot reshape array of size 24 into shape ()', None, None)),
 ('image', 'bytes', '(-1, 3)', '1',
  ('returns',
   ('ndarray', '|i1', (8, 3), (3, 1), False, True, False,
    [[17, 24, 31], [38, 45, 52], [59, 66, 73], [80, 87, 94], [101, 108, 115], [122, -127, -120], [-113, -106, -99], [-92, -85, -78]]))),
 ('image', 'bytes', '(-1,)', '1',
  ('returns',
   ('ndarray', '|i1', (24,), (1,), False, True, False,
    [17, 24, 31, 38, 45, 52, 59, 66, 73, 80, 87, 94, 101, 108, 115, 122, -127, -120, -113, -106, -99, -92, -85, -78]))),
 ('image', 'bytes', '24', '1',
  ('returns',
   ('ndarray', '|i1', (24,), (1,), False, True, False,
    [17, 24, 31, 38, 45, 52, 59, 66, 73, 80, 87, 94, 101, 108, 115, 122, -127, -120, -113, -106, -99, -92, -85, -78]))),
 ('image', 'bytes', '12', '1', ('raises', 'ValueError', 'cannot reshape array of size 24 into shape (12,)', None, None)),
 ('image', 'bytes', '[4, 6]', '1',
  ('returns',
   ('ndarray', '|i1', (4, 6), (6, 1), False, True, False,
    [[17, 24, 31, 38, 45, 52], [59, 66, 73, 80, 87, 94], [101, 108, 115, 122, -127, -120], [-113, -106, -99, -92, -85, -78]]))),
 ('image', 'bytes', '(2.0, 3)', '1', ('raises', 'TypeError', "'float' object cannot be interpreted as an integer", None, None)),
 ('image', 'bytes', 'None', '1',
  ('returns',
   ('ndarray', '|i1', (24,), (1,), False, True, False,
    [17, 24, 31, 38, 45, 52, 59, 66, 73, 80, 87, 94, 101, 108, 115, 122, -127, -120, -113, -106, -99, -92, -85, -78]))),
 ('image', 'bytes', "'ab'", '1', ('raises', 'TypeError', "'str' object cannot be interpreted as an integer", None, None)),
 ('image', 'bytes', '(2, 3)', '2', ('raises', 'ValueError', 'cannot reshape array of size 12 into shape (2,3)', None, None)),
 ('image', 'bytes', '(3, 2)', '2', ('raises', 'ValueError', 'cannot reshape array of size 12 into shape (3,2)', None, None)),
 ('image', 'bytes', '(24,)', '2', ('raises', 'ValueError', 'cannot reshape array of size 12 into shape (24,)', None, None)),
 ('image', 'bytes', '(1, 24)', '2', ('raises', 'ValueError', 'cannot reshape array of size 12 into shape (1,24)', None, None)),
 ('image', 'bytes', '(4, 3, 2)', '2', ('raises', 'ValueError', 'cannot reshape array of size 12 into shape (4,3,2)', None, None)),
 ('image', 'bytes', '(6, 4)', '2', ('raises', 'ValueError', 'cannot reshape array of size 12 into shape (6,4)', None, None)),
 ('image', 'bytes', '(12, 2)', '2', ('raises', 'ValueError', 'cannot reshape array of size 12 into shape (12,2)', None, None)),
 ('image', 'bytes', '(3, 8)', '2', ('raises', 'ValueError', 'cannot reshape array of size 12 into shape (3,8)', None, None)),
 ('image', 'bytes', '(0, 5)', '2', ('raises', 'ValueError', 'cannot reshape array of size 12 into shape (0,5)', None, None)),
 ('image', 'bytes', '()', '2', ('raises', 'ValueError', 'cannot reshape array of size 12 into shape ()', None, None)),
 ('image', 'bytes', '(-1, 3)', '2',
  ('returns',
   ('ndarray', '>i2', (4, 3), (6, 2), False, True, False,
    [[4376, 7974, 11572], [15170, 18768, 22366], [25964, 29562, -32376], [-28778, -25180, -21582]]))),
 ('image', 'bytes', '(-1,)', '2',
  ('returns',
   ('ndarray', '>i2', (12,), (2,), False, True, False, [4376, 7974, 11572, 15170, 18768, 22366, 25964, 29562, -32376, -28778, -25180, -21582]))),
 ('image', 'bytes', '24', '2', ('raises', 'ValueError', 'cannot reshape array of size 12 into shape (24,)', None, None)),
 ('image', 'bytes', '12', '2',
  ('returns',
   ('ndarray', '>i2', (12,), (2,), False, True, False, [4376, 7974, 11572, 15170, 18768, 22366, 25964, 29562, -32376, -28778, -25180, -21582]))),
 ('image', 'bytes', '[4, 6]', '2', ('raises', 'ValueError', 'cannot reshape array of size 12 into shape (4,6)', None, None)),
 ('image', 'bytes', '(2.0, 3)', '2', ('raises', 'TypeError', "'float' object cannot be interpreted as an integer", None, None)),
 ('image', 'bytes', 'None', '2',
  ('returns',
   ('ndarray', '>i2', (12,), (2,), False, True, False, [4376, 7974, 11572, 15170, 18768, 22366, 25964, 29562, -32376, -28778, -25180, -21582]))),
 ('image', 'bytes', "'ab'", '2', ('raises', 'TypeError', "'str' object cannot be interpreted as an integer", None, None)),
 ('image', 'bytes', '(2, 3)', '4',
  ('returns', ('ndarray', '>i4', (2, 3), (12, 4), False, True, False, [[286793510, 758397762, 1230002014], [1701606266, -2121756778, -1650152526]]))),
 ('image', 'bytes', '(3, 2)', '4',
  ('returns',
   ('ndarray', '>i4', (3, 2), (8, 4), False, True, False, [[286793510, 758397762], [1230002014, 1701606266], [-2121756778, -1650152526]]))),
 ('image', 'bytes', '(24,)', '4', ('raises', 'ValueError', 'cannot reshape array of size 6 into shape (24,)', None, None)),
 ('image', 'bytes', '(1, 24)', '4', ('raises', 'ValueError', 'cannot reshape array of size 6 into shape (1,24)', None, None)),
 ('image', 'bytes', '(4, 3, 2)', '4', ('raises', 'ValueError', 'cannot reshape array of size 6 into shape (4,3,2)', None, None)),
 ('image', 'bytes', '(6, 4)', '4', ('raises', 'ValueError', 'cannot reshape array of size 6 into shape (6,4)', None, None)),
 ('image', 'bytes', '(12, 2)', '4', ('raises', 'ValueError', 'cannot reshape array of size 6 into shape (12,2)', None, None)),
 ('image', 'bytes', '(3, 8)', '4', ('raises', 'ValueError', 'cannot reshape array of size 6 into shape (3,8)', None, None)),
 ('image', 'bytes', '(0, 5)', '4', ('raises', 'ValueError', 'cannot reshape array of size 6 into shape (0,5)', None, None)),
 ('image', 'bytes', '()', '4', ('raises', 'ValueError', 'cannot reshape array of size 6 into shape ()', None, None)),
 ('image', 'bytes', '(-1, 3)', '4',
  ('returns', ('ndarray', '>i4', (2, 3), (12, 4), False, True, False, [[286793510, 758397762, 1230002014], [1701606266, -2121756778, -1650152526]]))),
 ('image', 'bytes', '(-1,)', '4',
  ('returns', ('ndarray', '>i4', (6,), (4,), False, True, False, [286793510, 758397762, 1230002014, 1701606266, -2121756778, -1650152526]))),
 ('image', 'bytes', '24', '4', ('raises', 'ValueError', 'cannot reshape array of size 6 into shape (24,)', None, None)),
 ('image', 'bytes', '12', '4', ('raises', 'ValueError', 'cannot reshape array of size 6 into shape (12,)', None, None)),
 ('image', 'bytes', '[4, 6]', '4', ('raises', 'ValueError', 'cannot reshape array of size 6 into shape (4,6)', None, None)),
 ('image', 'bytes', '(2.0, 3)', '4', ('raises', 'TypeError', "'float' object cannot be interpreted as an integer", None, None)),
 ('image', 'bytes', 'None', '4',
  ('returns', ('ndarray', '>i4', (6,), (4,), False, True, False, [286793510, 758397762, 1230002014, 1701606266, -2121756778, -1650152526]))),
 ('image', 'bytes', "'ab'", '4', ('raises', 'TypeError', "'str' object cannot be interpreted as an integer", None, None)),
 ('image', 'bytes', '(2, 3)', '8', ('raises', 'ValueError', 'cannot reshape array of size 3 into shape (2,3)', None, None)),
 ('image', 'bytes', '(3, 2)', '8', ('raises', 'ValueError', 'cannot reshape array of size 3 into shape (3,2)', None, None)),
 ('image', 'bytes', '(24,)', '8', ('raises', 'ValueError', 'cannot reshape array of size 3 into shape (24,)', None, None)),
 ('image', 'bytes', '(1, 24)', '8', ('raises', 'ValueError', 'cannot reshape array of size 3 into shape (1,24)', None, None)),
 ('image', 'bytes', '(4, 3, 2)', '8', ('raises', 'ValueError', 'cannot reshape array of size 3 into shape (4,3,2)', None, None)),
 ('image', 'bytes', '(6, 4)', '8', ('raises', 'ValueError', 'cannot reshape array of size 3 into shape (6,4)', None, None)),
 ('image', 'bytes', '(12, 2)', '8', ('raises', 'ValueError', 'cannot reshape array of size 3 into shape (12,2)', None, None)),
 ('image', 'bytes', '(3, 8)', '8', ('raises', 'ValueError', 'cannot reshape array of size 3 into shape (3,8)', None, None)),
 ('image', 'bytes', '(0, 5)', '8', ('raises', 'ValueError', 'cannot reshape array of size 3 into shape (0,5)', None, None)),
 ('image', 'bytes', '()', '8', ('raises', 'ValueError', 'cannot reshape array of size 3 into shape ()', None, None)),
 ('image', 'bytes', '(-1, 3)', '8',
  ('returns', ('ndarray', '>i8', (1, 3), (24, 8), False, True, False, [[1231768746913446722, 5282818425845740410, -9112875968931517518]]))),
 ('image', 'bytes', '(-1,)', '8',
  ('returns', ('ndarray', '>i8', (3,), (8,), False, True, False, [1231768746913446722, 5282818425845740410, -9112875968931517518]))),
 ('image', 'bytes', '24', '8', ('raises', 'ValueError', 'cannot reshape array of size 3 into shape (24,)', None, None)),
 ('image', 'bytes', '12', '8', ('raises', 'ValueError', 'cannot reshape array of size 3 into shape (12,)', None, None)),
 ('image', 'bytes', '[4, 6]', '8', ('raises', 'ValueError', 'cannot reshape array of size 3 into shape (4,6)', None, None)),
 ('image', 'bytes', '(2.0, 3)', '8', ('raises', 'TypeError', "'float' object cannot be interpreted as an integer", None, None)),
 ('image', 'bytes', 'None', '8',
  ('returns', ('ndarray', '>i8', (3,), (8,), False, True, False, [1231768746913446722, 5282818425845740410, -9112875968931517518]))),
 ('image', 'bytes', "'ab'", '8', ('raises', 'TypeError', "'str' object cannot be interpreted as an integer", None, None)),
 ('image', 'bytes', '(2, 3)', '3', ('raises', 'TypeError', "data type '>i3' not understood", None, None)),
 ('image', 'bytes', '(3, 2)', '3', ('raises', 'TypeError', "data type '>i3' not understood", None, None)),
 ('image', 'bytes', '(24,)', '3', ('raises', 'TypeError', "data type '>i3' not understood", None, None)),
 ('image', 'bytes', '(1, 24)', '3', ('raises', 'TypeError', "data type '>i3' not understood", None, None)),
 ('image', 'bytes', '(4, 3, 2)', '3', ('raises', 'TypeError', "data type '>i3' not understood", None, None)),
 ('image', 'bytes', '(6, 4)', '3', ('raises', 'TypeError', "data type '>i3' not understood", None, None)),
 ('image', 'bytes', '(12, 2)', '3', ('raises', 'TypeError', "data type '>i3' not understood", None, None)),
 ('image', 'bytes', '(3, 8)', '3', ('raises', 'TypeError', "data type '>i3' not understood", None, None)),
 ('image', 'bytes', '(0, 5)', '3', ('raises', 'TypeError', "data type '>i3' not understood", None, None)),
 ('image', 'bytes', '()', '3', ('raises', 'TypeError', "data type '>i3' not understood", None, None)),
 ('image', 'bytes', '(-1, 3)', '3', ('raises', 'TypeError', "data type '>i3' not understood", None, None)),
 ('image', 'bytes', '(-1,)', '3', ('raises', 'TypeError', "data type '>i3' not understood", None, None)),
 ('image', 'bytes', '24', '3', ('raises', 'TypeError', "data type '>i3' not understood", None, None)),
 ('image', 'bytes', '12', '3', ('raises', 'TypeError', "data type '>i3' not understood", None, None)),
 ('image', 'bytes', '[4, 6]', '3', ('raises', 'TypeError', "data type '>i3' not understood", None, None)),
 ('image', 'bytes', '(2.0, 3)', '3', ('raises', 'TypeError', "data type '>i3' not understood", None, None)),
 ('image', 'bytes', 'None', '3', ('raises', 'TypeError', "data type '>i3' not understood", None, None)),
 ('image', 'bytes', "'ab'", '3', ('raises', 'TypeError', "data type '>i3' not understood", None, None)),
 ('image', 'bytes', '(2, 3)', '0', ('raises', 'TypeError', "data type '>i0' not understood", None, None)),
 ('image', 'bytes', '(3, 2)', '0', ('raises', 'TypeError', "data type '>i0' not understood", None, None)),
 ('image', 'bytes', '(24,)', '0', ('raises', 'TypeError', "data type '>i0' not understood", None, None)),
 ('image', 'bytes', '(1, 24)', '0', ('raises', 'TypeError', "data type '>i0' not understood", None, None)),
 ('image', 'bytes', '(4, 3, 2)', '0', ('raises', 'TypeError', "data type '>i0' not understood", None, None)),
 ('image', 'bytes', '(6, 4)', '0', ('raises', 'TypeError', "data type '>i0' not understood", None, None)),
 ('image', 'bytes', '(12, 2)', '0', ('raises', 'TypeError', "data type '>i0' not understood", None, None)),
 ('image', 'bytes', '(3, 8)', '0', ('raises', 'TypeError', "data type '>i0' not understood", None, None)),
 ('image', 'bytes', '(0, 5)', '0', ('raises', 'TypeError', "data type '>i0' not understood", None, None)),
 ('image', 'bytes', '()', '0', ('raises', 'TypeError', "data type '>i0' not understood", None, None)),
 ('image', 'bytes', '(-1, 3)', '0', ('raises', 'TypeError', "data type '>i0' not understood", None, None)),
 ('image', 'bytes', '(-1,)', '0', ('raises', 'TypeError', "data type '>i0' not understood", None, None)),
 ('image', 'bytes', '24', '0', ('raises', 'TypeError', "data type '>i0' not understood", None, None)),
 ('image', 'bytes', '12', '0', ('raises', 'TypeError', "data type '>i0' not understood", None, None)),
 ('image', 'bytes', '[4, 6]', '0', ('raises', 'TypeError', "data type '>i0' not understood", None, None)),
 ('image', 'bytes', '(2.0, 3)', '0', ('raises', 'TypeError', "data type '>i0' not understood", None, None)),
 ('image', 'bytes', 'None', '0', ('raises', 'TypeError', "data type '>i0' not understood", None, None)),
 ('image', 'bytes', "'ab'", '0', ('raises', 'TypeError', "data type '>i0' not understood", None, None)),
 ('image', 'bytes', '(2, 3)', '16', ('raises', 'TypeError', "data type '>i16' not understood", None, None)),
 ('image', 'bytes', '(3, 2)', '16', ('raises', 'TypeError', "data type '>i16' not understood", None, None)),
 ('image', 'bytes', '(24,)', '16', ('raises', 'TypeError', "data type '>i16' not understood", None, None)),
 ('image', 'bytes', '(1, 24)', '16', ('raises', 'TypeError', "data type '>i16' not understood", None, None)),
 ('image', 'bytes', '(4, 3, 2)', '16', ('raises', 'TypeError', "data type '>i16' not understood", None, None)),
 ('image', 'bytes', '(6, 4)', '16', ('raises', 'TypeError', "data type '>i16' not understood", None, None)),
 ('image', 'bytes', '(12, 2)', '16', ('raises', 'TypeError', "data type '>i16' not understood", None, None)),
 ('image', 'bytes', '(3, 8)', '16', ('raises', 'TypeError', "data type '>i16' not understood", None, None)),
 ('image', 'bytes', '(0, 5)', '16', ('raises', 'TypeError', "data type '>i16' not understood", None, None)),
 ('image', 'bytes', '()', '16', ('raises', 'TypeError', "data type '>i16' not understood", None, None)),
 ('image', 'bytes', '(-1, 3)', '16', ('raises', 'TypeError', "data type '>i16' not understood", None, None)),
 ('image', 'bytes', '(-1,)', '16', ('raises', 'TypeError', "data type '>i16' not understood", None, None)),
 ('image', 'bytes', '24', '16', ('raises', 'TypeError', "data type '>i16' not understood", None, None)),
 ('image', 'bytes', '12', '16', ('raises', 'TypeError', "data type '>i16' not understood", None, None)),
 ('image', 'bytes', '[4, 6]', '16', ('raises', 'TypeError', "data type '>i16' not understood", None, None)),
 ('image', 'bytes', '(2.0, 3)', '16', ('raises', 'TypeError', "data type '>i16' not understood", None, None)),
 ('image', 'bytes', 'None', '16', ('raises', 'TypeError', "data type '>i16' not understood", None, None)),
 ('image', 'bytes', "'ab'", '16', ('raises', 'TypeError', "data type '>i16' not understood", None, None)),
 ('image', 'bytes', '(2, 3)', '-1', ('raises', 'TypeError', "data type '>i-1' not understood", None, None)),
 ('image', 'bytes', '(3, 2)', '-1', ('raises', 'TypeError', "data type '>i-1' not understood", None, None)),
 ('image', 'bytes', '(24,)', '-1', ('raises', 'TypeError', "data type '>i-1' not understood", None, None)),
 ('image', 'bytes', '(1, 24)', '-1', ('raises', 'TypeError', "data type '>i-1' not understood", None, None)),
 ('image', 'bytes', '(4, 3, 2)', '-1', ('raises', 'TypeError', "data type '>i-1' not understood", None, None)),
 ('image', 'bytes', '(6, 4)', '-1', ('raises', 'TypeError', "data type '>i-1' not understood", None, None)),
 ('image', 'bytes', '(12, 2)', '-1', ('raises', 'TypeError', "data type '>i-1' not understood", None, None)),
 ('image', 'bytes', '(3, 8)', '-1', ('raises', 'TypeError', "data type '>i-1' not understood", None, None)),
 ('image', 'bytes', '(0, 5)', '-1', ('raises', 'TypeError', "data type '>i-1' not understood", None, None)),
 ('image', 'bytes', '()', '-1', ('raises', 'TypeError', "data type '>i-1' not understood", None, None)),
 ('image', 'bytes', '(-1, 3)', '-1', ('raises', 'TypeError', "data type '>i-1' not understood", None, None)),
 ('image', 'bytes', '(-1,)', '-1', ('raises', 'TypeError', "data type '>i-1' not understood", None, None)),
 ('image', 'bytes', '24', '-1', ('raises', 'TypeError', "data type '>i-1' not understood", None, None)),
 ('image', 'bytes', '12', '-1', ('raises', 'TypeError', "data type '>i-1' not understood", None, None)),
 ('image', 'bytes', '[4, 6]', '-1', ('raises', 'TypeError', "data type '>i-1' not understood", None, None)),
 ('image', 'bytes', '(2.0, 3)', '-1', ('raises', 'TypeError', "data type '>i-1' not understood", None, None)),
 ('image', 'bytes', 'None', '-1', ('raises', 'TypeError', "data type '>i-1' not understood", None, None)),
 ('image', 'bytes', "'ab'", '-1', ('raises', 'TypeError', "data type '>i-1' not understood", None, None)),
 ('image', 'bytes', '(2, 3)', "'2'", ('raises', 'ValueError', 'cannot reshape array of size 12 into shape (2,3)', None, None)),
 ('image', 'bytes', '(3, 2)', "'2'", ('raises', 'ValueError', 'cannot reshape array of size 12 into shape (3,2)', None, None)),
 ('image', 'bytes', '(24,)', "'2'", ('raises', 'ValueError', 'cannot reshape array of size 12 into shape (24,)', None, None)),
 ('image', 'bytes', '(1, 24)', "'2'", ('raises', 'ValueError', 'cannot reshape array of size 12 into shape (1,24)', None, None)),
 ('image', 'bytes', '(4, 3, 2)', "'2'", ('raises', 'ValueError', 'cannot reshape array of size 12 into shape (4,3,2)', None, None)),
 ('image', 'bytes', '(6, 4)', "'2'", ('raises', 'ValueError', 'cannot reshape array of size 12 into shape (6,4)', None, None)),
 ('image', 'bytes', '(12, 2)', "'2'", ('raises', 'ValueError', 'cannot reshape array of size 12 into shape (12,2)', None, None)),
 ('image', 'bytes', '(3, 8)', "'2'", ('raises', 'ValueError', 'cannot reshape array of size 12 into shape (3,8)', None, None)),
 ('image', 'bytes', '(0, 5)', "'2'", ('raises', 'ValueError', 'cannot reshape array of size 12 into shape (0,5)', None, None)),
 ('image', 'bytes', '()', "'2'", ('raises', 'ValueError', 'cannot reshape array of size 12 into shape ()', None, None)),
 ('image', 'bytes', '(-1, 3)', "'2'",
  ('returns',
   ('ndarray', '>i2', (4, 3), (6, 2), False, True, False,
    [[4376, 7974, 11572], [15170, 18768, 22366], [25964, 29562, -32376], [-28778, -25180, -21582]]))),
 ('image', 'bytes', '(-1,)', "'2'",
  ('returns',
   ('ndarray', '>i2', (12,), (2,), False, True, False, [4376, 7974, 11572, 15170, 18768, 22366, 25964, 29562, -32376, -28778, -25180, -21582]))),
 ('image', 'bytes', '24', "'2'", ('raises', 'ValueError', 'cannot reshape array of size 12 into shape (24,)', None, None)),
 ('image', 'bytes', '12', "'2'",
  ('returns',
   ('ndarray', '>i2', (12,), (2,), False, True, False, [4376, 7974, 11572, 15170, 18768, 22366, 25964, 29562, -32376, -28778, -25180, -21582]))),
 ('image', 'bytes', '[4, 6]', "'2'", ('raises', 'ValueError', 'cannot reshape array of size 12 into shape (4,6)', None, None)),
 ('image', 'bytes', '(2.0, 3)', "'2'", ('raises', 'TypeError', "'float' object cannot be interpreted as an integer", None, None)),
 ('image', 'bytes', 'None', "'2'",
  ('returns',
   ('ndarray', '>i2', (12,), (2,), False, True, False, [4376, 7974, 11572, 15170, 18768, 22366, 25964, 29562, -32376, -28778, -25180, -21582]))),
 ('image', 'bytes', "'ab'", "'2'", ('raises', 'TypeError', "'str' object cannot be interpreted as an integer", None, None)),
 ('image', 'bytes', '(2, 3)', '2.0', ('raises', 'TypeError', "data type '>i2.0' not understood", None, None)),
 ('image', 'bytes', '(3, 2)', '2.0', ('raises', 'TypeError', "data type '>i2.0' not understood", None, None)),
 ('image', 'bytes', '(24,)', '2.0', ('raises', 'TypeError', "data type '>i2.0' not understood", None, None)),
 ('image', 'bytes', '(1, 24)', '2.0', ('raises', 'TypeError', "data type '>i2.0' not understood", None, None)),
 ('image', 'bytes', '(4, 3, 2)', '2.0', ('raises', 'TypeError', "data type '>i2.0' not understood", None, None)),
 ('image', 'bytes', '(6, 4)', '2.0', ('raises', 'TypeError', "data type '>i2.0' not understood", None, None)),
 ('image', 'bytes', '(12, 2)', '2.0', ('raises', 'TypeError', "data type '>i2.0' not understood", None, None)),
 ('image', 'bytes', '(3, 8)', '2.0', ('raises', 'TypeError', "data type '>i2.0' not understood", None, None)),
 ('image', 'bytes', '(0, 5)', '2.0', ('raises', 'TypeError', "data type '>i2.0' not understood", None, None)),
 ('image', 'bytes', '()', '2.0', ('raises', 'TypeError', "data type '>i2.0' not understood", None, None)),
 ('image', 'bytes', '(-1, 3)', '2.0', ('raises', 'TypeError', "data type '>i2.0' not understood", None, None)),
 ('image', 'bytes', '(-1,)', '2.0', ('raises', 'TypeError', "data type '>i2.0' not understood", None, None)),
 ('image', 'bytes', '24', '2.0', ('raises', 'TypeError', "data type '>i2.0' not understood", None, None)),
 ('image', 'bytes', '12', '2.0', ('raises', 'TypeError', "data type '>i2.0' not understood", None, None)),
 ('image', 'bytes', '[4, 6]', '2.0', ('raises', 'TypeError', "data type '>i2.0' not understood", None, None)),
 ('image', 'bytes', '(2.0, 3)', '2.0', ('raises', 'TypeError', "data type '>i2.0' not understood", None, None)),
 ('image', 'bytes', 'None', '2.0', ('raises', 'TypeError', "data type '>i2.0' not understood", None, None)),
 ('image', 'bytes', "'ab'", '2.0', ('raises', 'TypeError', "data type '>i2.0' not understood", None, None)),
 ('image', 'bytes', '(2, 3)', 'None', ('raises', 'TypeError', "data type '>iNone' not understood", None, None)),
 ('image', 'bytes', '(3, 2)', 'None', ('raises', 'TypeError', "data type '>iNone' not understood", None, None)),
 ('image', 'bytes', '(24,)', 'None', ('raises', 'TypeError', "data type '>iNone' not understood", None, None)),
 ('image', 'bytes', '(1, 24)', 'None', ('raises', 'TypeError', "data type '>iNone' not understood", None, None)),
 ('image', 'bytes', '(4, 3, 2)', 'None', ('raises', 'TypeError', "data type '>iNone' not understood", None, None)),
 ('image', 'bytes', '(6, 4)', 'None', ('raises', 'TypeError', "data type '>iNone' not understood", None, None)),
 ('image', 'bytes', '(12, 2)', 'None', ('raises', 'TypeError', "data type '>iNone' not understood", None, None)),
 ('image', 'bytes', '(3, 8)', 'None', ('raises', 'TypeError', "data type '>iNone' not understood", None, None)),
 ('image', 'bytes', '(0, 5)', 'None', ('raises', 'TypeError', "data type '>iNone' not understood", None, None)),
 ('image', 'bytes', '()', 'None', ('raises', 'TypeError', "data type '>iNone' not understood", None, None)),
 ('image', 'bytes', '(-1, 3)', 'None', ('raises', 'TypeError', "data type '>iNone' not understood", None, None)),
 ('image', 'bytes', '(-1,)', 'None', ('raises', 'TypeError', "data type '>iNone' not understood", None, None)),
 ('image', 'bytes', '24', 'None', ('raises', 'TypeError', "data type '>iNone' not understood", None, None)),
 ('image', 'bytes', '12', 'None', ('raises', 'TypeError', "data type '>iNone' not understood", None, None)),
 ('image', 'bytes', '[4, 6]', 'None', ('raises', 'TypeError', "data type '>iNone' not understood", None, None)),
 ('image', 'bytes', '(2.0, 3)', 'None', ('raises', 'TypeError', "data type '>iNone' not understood", None, None)),
 ('image', 'bytes', 'None', 'None', ('raises', 'TypeError', "data type '>iNone' not understood", None, None)),
 ('image', 'bytes', "'ab'", 'None', ('raises', 'TypeError', "data type '>iNone' not understood", None, None)),
 ('image', 'bytes', '(2, 3)', 'True', ('raises', 'TypeError', "data type '>iTrue' not understood", None, None)),
 ('image', 'bytes', '(3, 2)', 'True', ('raises', 'TypeError', "data type '>iTrue' not understood", None, None)),
 ('image', 'bytes', '(24,)', 'True', ('raises', 'TypeError', "data type '>iTrue' not understood", None, None)),
 ('image', 'bytes', '(1, 24)', 'True', ('raises', 'TypeError', "data type '>iTrue' not understood", None, None)),
 ('image', 'bytes', '(4, 3, 2)', 'True', ('raises', 'TypeError', "data type '>iTrue' not understood", None, None)),
 ('image', 'bytes', '(6, 4)', 'True', ('raises', 'TypeError', "data type '>iTrue' not understood", None, None)),
 ('image', 'bytes', '(12, 2)', 'True', ('raises', 'TypeError', "data type '>iTrue' not understood", None, None)),
 ('image', 'bytes', '(3, 8)', 'True', ('raises', 'TypeError', "data type '>iTrue' not understood", None, None)),
 ('image', 'bytes', '(0, 5)', 'True', ('raises', 'TypeError', "data type '>iTrue' not understood", None, None)),
 ('image', 'bytes', '()', 'True', ('raises', 'TypeError', "data type '>iTrue' not understood", None, None)),
 ('image', 'bytes', '(-1, 3)', 'True', ('raises', 'TypeError', "data type '>iTrue' not understood", None, None)),
 ('image', 'bytes', '(-1,)', 'True', ('raises', 'TypeError', "data type '>iTrue' not understood", None, None)),
 ('image', 'bytes', '24', 'True', ('raises', 'TypeError', "data type '>iTrue' not understood", None, None)),
 ('image', 'bytes', '12', 'True', ('raises', 'TypeError', "data type '>iTrue' not understood", None, None)),
 ('image', 'bytes', '[4, 6]', 'True', ('raises', 'TypeError', "data type '>iTrue' not understood", None, None)),
 ('image', 'bytes', '(2.0, 3)', 'True', ('raises', 'TypeError', "data type '>iTrue' not understood", None, None)),
 ('image', 'bytes', 'None', 'True', ('raises', 'TypeError', "data type '>iTrue' not understood", None, None)),
 ('image', 'bytes', "'ab'", 'True', ('raises', 'TypeError', "data type '>iTrue' not understood", None, None)),
 ('image', 'bytes', '(2, 3)', 'np.int64(4)',
  ('returns', ('ndarray', '>i4', (2, 3), (12, 4), False, True, False, [[286793510, 758397762, 1230002014], [1701606266, -2121756778, -1650152526]]))),
 ('image', 'bytes', '(3, 2)', 'np.int64(4)',
  ('returns',
   ('ndarray', '>i4', (3, 2), (8, 4), False, True, False, [[286793510, 758397762], [1230002014, 1701606266], [-2121756778, -1650152526]]))),
 ('image', 'bytes', '(24,)', 'np.int64(4)', ('raises', 'ValueError', 'cannot reshape array of size 6 into shape (24,)', None, None)),
 ('image', 'bytes', '(1, 24)', 'np.int64(4)', ('raises', 'ValueError', 'cannot reshape array of size 6 into shape (1,24)', None, None)),
 ('image', 'bytes', '(4, 3, 2)', 'np.int64(4)', ('raises', 'ValueError', 'cannot reshape array of size 6 into shape (4,3,2)', None, None)),
 ('image', 'bytes', '(6, 4)', 'np.int64(4)', ('raises', 'ValueError', 'cannot reshape array of size 6 into shape (6,4)', None, None)),
 ('image', 'bytes', '(12, 2)', 'np.int64(4)', ('raises', 'ValueError', 'cannot reshape array of size 6 into shape (12,2)', None, None)),
 ('image', 'bytes', '(3, 8)', 'np.int64(4)', ('raises', 'ValueError', 'cannot reshape array of size 6 into shape (3,8)', None, None)),
 ('image', 'bytes', '(0, 5)', 'np.int64(4)', ('raises', 'ValueError', 'cannot reshape array of size 6 into shape (0,5)', None, None)),
 ('image', 'bytes', '()', 'np.int64(4)', ('raises', 'ValueError', 'cannot reshape array of size 6 into shape ()', None, None)),
 ('image', 'bytes', '(-1, 3)', 'np.int64(4)',
  ('returns', ('ndarray', '>i4', (2, 3), (12, 4), False, True, False, [[286793510, 758397762, 1230002014], [1701606266, -2121756778, -1650152526]]))),
 ('image', 'bytes', '(-1,)', 'np.int64(4)',
  ('returns', ('ndarray', '>i4', (6,), (4,), False, True, False, [286793510, 758397762, 1230002014, 1701606266, -2121756778, -1650152526]))),
 ('image', 'bytes', '24', 'np.int64(4)', ('raises', 'ValueError', 'cannot reshape array of size 6 into shape (24,)', None, None)),
 ('image', 'bytes', '12', 'np.int64(4)', ('raises', 'ValueError', 'cannot reshape array of size 6 into shape (12,)', None, None)),
 ('image', 'bytes', '[4, 6]', 'np.int64(4)', ('raises', 'ValueError', 'cannot reshape array of size 6 into shape (4,6)', None, None)),
 ('image', 'bytes', '(2.0, 3)', 'np.int64(4)', ('raises', 'TypeError', "'float' object cannot be interpreted as an integer", None, None)),
 ('image', 'bytes', 'None', 'np.int64(4)',
  ('returns', ('ndarray', '>i4', (6,), (4,), False, True, False, [286793510, 758397762, 1230002014, 1701606266, -2121756778, -1650152526]))),
 ('image', 'bytes', "'ab'", 'np.int64(4)', ('raises', 'TypeError', "'str' object cannot be interpreted as an integer", None, None)),
 ('image', 'bytearray', '(2, 3)', '1', ('raises', 'ValueError', 'cannot reshape array of size 24 into shape (2,3)', None, None)),
 ('image', 'bytearray', '(-1,)', '1',
  ('returns',
   ('ndarray', '|i1', (24,), (1,), True, True, False,
    [17, 24, 31, 38, 45, 52, 59, 66, 73, 80, 87, 94, 101, 108, 115, 122, -127, -120, -113, -106, -99, -92, -85, -78]))),
 ('image', 'bytearray', '(24,)', '1',
  ('returns',
   ('ndarray', '|i1', (24,), (1,), True, True, False,
    [17, 24, 31, 38, 45, 52, 59, 66, 73, 80, 87, 94, 101, 108, 115, 122, -127, -120, -113, -106, -99, -92, -85, -78]))),
 ('image', 'bytearray', '(2, 3)', '2', ('raises', 'ValueError', 'cannot reshape array of size 12 into shape (2,3)', None, None)),
 ('image', 'bytearray', '(-1,)', '2',
  ('returns',
   ('ndarray', '>i2', (12,), (2,), True, True, False, [4376, 7974, 11572, 15170, 18768, 22366, 25964, 29562, -32376, -28778, -25180, -21582]))),
 ('image', 'bytearray', '(24,)', '2', ('raises', 'ValueError', 'cannot reshape array of size 12 into shape (24,)', None, None)),
 ('image', 'bytearray', '(2, 3)', '4',
  ('returns', ('ndarray', '>i4', (2, 3), (12, 4), True, True, False, [[286793510, 758397762, 1230002014], [1701606266, -2121756778, -1650152526]]))),
 ('image', 'bytearray', '(-1,)', '4',
  ('returns', ('ndarray', '>i4', (6,), (4,), True, True, False, [286793510, 758397762, 1230002014, 1701606266, -2121756778, -1650152526]))),
 ('image', 'bytearray', '(24,)', '4', ('raises', 'ValueError', 'cannot reshape array of size 6 into shape (24,)', None, None)),
 ('image', 'bytearray', '(2, 3)', '8', ('raises', 'ValueError', 'cannot reshape array of size 3 into shape (2,3)', None, None)),
 ('image', 'bytearray', '(-1,)', '8',
  ('returns', ('ndarray', '>i8', (3,), (8,), True, True, False, [1231768746913446722, 5282818425845740410, -9112875968931517518]))),
 ('image', 'bytearray', '(24,)', '8', ('raises', 'ValueError', 'cannot reshape array of size 3 into shape (24,)', None, None)),
 ('image', 'bytearray', '(2, 3)', '3', ('raises', 'TypeError', "data type '>i3' not understood", None, None)),
 ('image', 'bytearray', '(-1,)', '3', ('raises', 'TypeError', "data type '>i3' not understood", None, None)),
 ('image', 'bytearray', '(24,)', '3', ('raises', 'TypeError', "data type '>i3' not understood", None, None)),
 ('image', 'bytearray', '(2, 3)', '0', ('raises', 'TypeError', "data type '>i0' not understood", None, None)),
 ('image', 'bytearray', '(-1,)', '0', ('raises', 'TypeError', "data type '>i0' not understood", None, None)),
 ('image', 'bytearray', '(24,)', '0', ('raises', 'TypeError', "data type '>i0' not understood", None, None)),
 ('image', 'bytearray', '(2, 3)', '16', ('raises', 'TypeError', "data type '>i16' not understood", None, None)),
 ('image', 'bytearray', '(-1,)', '16', ('raises', 'TypeError', "data type '>i16' not understood", None, None)),
 ('image', 'bytearray', '(24,)', '16', ('raises', 'TypeError', "data type '>i16' not understood", None, None)),
 ('image', 'bytearray', '(2, 3)', '-1', ('raises', 'TypeError', "data type '>i-1' not understood", None, None)),
 ('image', 'bytearray', '(-1,)', '-1', ('raises', 'TypeError', "data type '>i-1' not understood", None, None)),
 ('image', 'bytearray', '(24,)', '-1', ('raises', 'TypeError', "data type '>i-1' not understood", None, None)),
 ('image', 'bytearray', '(2, 3)', "'2'", ('raises', 'ValueError', 'cannot reshape array of size 12 into shape (2,3)', None, None)),
 ('image', 'bytearray', '(-1,)', "'2'",
  ('returns',
   ('ndarray', '>i2', (12,), (2,), True, True, False, [4376, 7974, 11572, 15170, 18768, 22366, 25964, 29562, -32376, -28778, -25180, -21582]))),
 ('image', 'bytearray', '(24,)', "'2'", ('raises', 'ValueError', 'cannot reshape array of size 12 into shape (24,)', None, None)),
 ('image', 'bytearray', '(2, 3)', '2.0', ('raises', 'TypeError', "data type '>i2.0' not understood", None, None)),
 ('image', 'bytearray', '(-1,)', '2.0', ('raises', 'TypeError', "data type '>i2.0' not understood", None, None)),
 ('image', 'bytearray', '(24,)', '2.0', ('raises', 'TypeError', "data type '>i2.0' not understood", None, None)),
 ('image', 'bytearray', '(2, 3)', 'None', ('raises', 'TypeError', "data type '>iNone' not understood", None, None)),
 ('image', 'bytearray', '(-1,)', 'None', ('raises', 'TypeError', "data type '>iNone' not understood", None, None)),
 ('image', 'bytearray', '(24,)', 'None', ('raises', 'TypeError', "data type '>iNone' not understood", None, None)),
 ('image', 'bytearray', '(2, 3)', 'True', ('raises', 'TypeError', "data type '>iTrue' not understood", None, None)),
 ('image', 'bytearray', '(-1,)', 'True', ('raises', 'TypeError', "data type '>iTrue' not understood", None, None)),
 ('image', 'bytearray', '(24,)', 'True', ('raises', 'TypeError', "data type '>iTrue' not understood", None, None)),
 ('image', 'bytearray', '(2, 3)', 'np.int64(4)',
  ('returns', ('ndarray', '>i4', (2, 3), (12, 4), True, True, False, [[286793510, 758397762, 1230002014], [1701606266, -2121756778, -1650152526]]))),
 ('image', 'bytearray', '(-1,)', 'np.int64(4)',
  ('returns', ('ndarray', '>i4', (6,), (4,), True, True, False, [286793510, 758397762, 1230002014, 1701606266, -2121756778, -1650152526]))),
 ('image', 'bytearray', '(24,)', 'np.int64(4)', ('raises', 'ValueError', 'cannot reshape array of size 6 into shape (24,)', None, None)),
 ('image', 'memoryview', '(2, 3)', '1', ('raises', 'ValueError', 'cannot reshape array of size 24 into shape (2,3)', None, None)),
 ('image', 'memoryview', '(-1,)', '1',
  ('returns',
   ('ndarray', '|i1', (24,), (1,), False, True, False,
    [17, 24, 31, 38, 45, 52, 59, 66, 73, 80, 87, 94, 101, 108, 115, 122, -127, -120, -113, -106, -99, -92, -85, -78]))),
 ('image', 'memoryview', '(24,)', '1',
  ('returns',
   ('ndarray', '|i1', (24,), (1,), False, True, False,
    [17, 24, 31, 38, 45, 52, 59, 66, 73, 80, 87, 94, 101, 108, 115, 122, -127, -120, -113, -106, -99, -92, -85, -78]))),
 ('image', 'memoryview', '(2, 3)', '2', ('raises', 'ValueError', 'cannot reshape array of size 12 into shape (2,3)', None, None)),
 ('image', 'memoryview', '(-1,)', '2',
  ('returns',
   ('ndarray', '>i2', (12,), (2,), False, True, False, [4376, 7974, 11572, 15170, 18768, 22366, 25964, 29562, -32376, -28778, -25180, -21582]))),
 ('image', 'memoryview', '(24,)', '2', ('raises', 'ValueError', 'cannot reshape array of size 12 into shape (24,)', None, None)),
 ('image', 'memoryview', '(2, 3)', '4',
  ('returns', ('ndarray', '>i4', (2, 3), (12, 4), False, True, False, [[286793510, 758397762, 1230002014], [1701606266, -2121756778, -1650152526]]))),
 ('image', 'memoryview', '(-1,)', '4',
  ('returns', ('ndarray', '>i4', (6,), (4,), False, True, False, [286793510, 758397762, 1230002014, 1701606266, -2121756778, -1650152526]))),
 ('image', 'memoryview', '(24,)', '4', ('raises', 'ValueError', 'cannot reshape array of size 6 into shape (24,)', None, None)),
 ('image', 'memoryview', '(2, 3)', '8', ('raises', 'ValueError', 'cannot reshape array of size 3 into shape (2,3)', None, None)),
 ('image', 'memoryview', '(-1,)', '8',
  ('returns', ('ndarray', '>i8', (3,), (8,), False, True, False, [1231768746913446722, 5282818425845740410, -9112875968931517518]))),
 ('image', 'memoryview', '(24,)', '8', ('raises', 'ValueError', 'cannot reshape array of size 3 into shape (24,)', None, None)),
 ('image', 'memoryview', '(2, 3)', '3', ('raises', 'TypeError', "data type '>i3' not understood", None, None)),
 ('image', 'memoryview', '(-1,)', '3', ('raises', 'TypeError', "data type '>i3' not understood", None, None)),
 ('image', 'memoryview', '(24,)', '3', ('raises', 'TypeError', "data type '>i3' not understood", None, None)),
 ('image', 'memoryview', '(2, 3)', '0', ('raises', 'TypeError', "data type '>i0' not understood", None, None)),
 ('image', 'memoryview', '(-1,)', '0', ('raises', 'TypeError', "data type '>i0' not understood", None, None)),
 ('image', 'memoryview', '(24,)', '0', ('raises', 'TypeError', "data type '>i0' not understood", None, None)),
 ('image', 'memoryview', '(2, 3)', '16', ('raises', 'TypeError', "data type '>i16' not understood", None, None)),
 ('image', 'memoryview', '(-1,)', '16', ('raises', 'TypeError', "data type '>i16' not understood", None, None)),
 ('image', 'memoryview', '(24,)', '16', ('raises', 'TypeError', "data type '>i16' not understood", None, None)),
 ('image', 'memoryview', '(2, 3)', '-1', ('raises', 'TypeError', "data type '>i-1' not understood", None, None)),
 ('image', 'memoryview', '(-1,)', '-1', ('raises', 'TypeError', "data type '>i-1' not understood", None, None)),
 ('image', 'memoryview', '(24,)', '-1', ('raises', 'TypeError', "data type '>i-1' not understood", None, None)),
 ('image', 'memoryview', '(2, 3)', "'2'", ('raises', 'ValueError', 'cannot reshape array of size 12 into shape (2,3)', None, None)),
 ('image', 'memoryview', '(-1,)', "'2'",
  ('returns',
   ('ndarray', '>i2', (12,), (2,), False, True, False, [4376, 7974, 11572, 15170, 18768, 22366, 25964, 29562, -32376, -28778, -25180, -21582]))),
 ('image', 'memoryview', '(24,)', "'2'", ('raises', 'ValueError', 'cannot reshape array of size 12 into shape (24,)', None, None)),
 ('image', 'memoryview', '(2, 3)', '2.0', ('raises', 'TypeError', "data type '>i2.0' not understood", None, None)),
 ('image', 'memoryview', '(-1,)', '2.0', ('raises', 'TypeError', "data type '>i2.0' not understood", None, None)),
 ('image', 'memoryview', '(24,)', '2.0', ('raises', 'TypeError', "data type '>i2.0' not understood", None, None)),
 ('image', 'memoryview', '(2, 3)', 'None', ('raises', 'TypeError', "data type '>iNone' not understood", None, None)),
 ('image', 'memoryview', '(-1,)', 'None', ('raises', 'TypeError', "data type '>iNone' not understood", None, None)),
 ('image', 'memoryview', '(24,)', 'None', ('raises', 'TypeError', "data type '>iNone' not understood", None, None)),
 ('image', 'memoryview', '(2, 3)', 'True', ('raises', 'TypeError', "data type '>iTrue' not understood", None, None)),
 ('image', 'memoryview', '(-1,)', 'True', ('raises', 'TypeError', "data type '>iTrue' not understood", None, None)),
 ('image', 'memoryview', '(24,)', 'True', ('raises', 'TypeError', "data type '>iTrue' not understood", None, None)),
 ('image', 'memoryview', '(2, 3)', 'np.int64(4)',
  ('returns', ('ndarray', '>i4', (2, 3), (12, 4), False, True, False, [[286793510, 758397762, 1230002014], [1701606266, -2121756778, -1650152526]]))),
 ('image', 'memoryview', '(-1,)', 'np.int64(4)',
  ('returns', ('ndarray', '>i4', (6,), (4,), False, True, False, [286793510, 758397762, 1230002014, 1701606266, -2121756778, -1650152526]))),
 ('image', 'memoryview', '(24,)', 'np.int64(4)', ('raises', 'ValueError', 'cannot reshape array of size 6 into shape (24,)', None, None)),
 ('image', 'memoryview-slice', '(2, 3)', '1', ('raises', 'ValueError', 'cannot reshape array of size 24 into shape (2,3)', None, None)),
 ('image', 'memoryview-slice', '(3, 2)', '1', ('raises', 'ValueError', 'cannot reshape array of size 24 into shape (3,2)', None, None)),
 ('image', 'memoryview-slice', '(24,)', '1',
  ('returns',
   ('ndarray', '|i1', (24,), (1,), False, True, False,
    [38, 45, 52, 59, 66, 73, 80, 87, 94, 101, 108, 115, 122, -127, -120, -113, -106, -99, -92, -85, -78, 17, 24, 31]))),
 ('image', 'memoryview-slice', '(1, 24)', '1',
  ('returns',
   ('ndarray', '|i1', (1, 24), (24, 1), False, True, False,
    [[38, 45, 52, 59, 66, 73, 80, 87, 94, 101, 108, 115, 122, -127, -120, -113, -106, -99, -92, -85, -78, 17, 24, 31]]))),
 ('image', 'memoryview-slice', '(4, 3, 2)', '1',
  ('returns',
   ('ndarray', '|i1', (4, 3, 2), (6, 2, 1), False, True, False,
    [[[38, 45], [52, 59], [66, 73]], [[80, 87], [94, 101], [108, 115]], [[122, -127], [-120, -113], [-106, -99]],
     [[-92, -85], [-78, 17], [24, 31]]]))),
 ('image', 'memoryview-slice', '(6, 4)', '1',
  ('returns',
   ('ndarray', '|i1', (6, 4), (4, 1), False, True, False,
    [[38, 45, 52, 59], [66, 73, 80, 87], [94, 101, 108, 115], [122, -127, -120, -113], [-106, -99, -92, -85], [-78, 17, 24, 31]]))),
 ('image', 'memoryview-slice', '(12, 2)', '1',
  ('returns',
   ('ndarray', '|i1', (12, 2), (2, 1), False, True, False,
    [[38, 45], [52, 59], [66, 73], [80, 87], [94, 101], [108, 115], [122, -127], [-120, -113], [-106, -99], [-92, -85], [-78, 17], [24, 31]]))),
 ('image', 'memoryview-slice', '(3, 8)', '1',
  ('returns',
   ('ndarray', '|i1', (3, 8), (8, 1), False, True, False,
    [[38, 45, 52, 59, 66, 73, 80, 87], [94, 101, 108, 115, 122, -127, -120, -113], [-106, -99, -92, -85, -78, 17, 24, 31]]))),
 ('image', 'memoryview-slice', '(0, 5)', '1', ('raises', 'ValueError', 'cannot reshape array of size 24 into shape (0,5)', None, None)),
 ('image', 'memoryview-slice', '()', '1', ('raises', 'ValueError', 'cannot reshape array of size 24 into shape ()', None, None)),
 ('image', 'memoryview-slice', '(-1, 3)', '1',
  ('returns',
   ('ndarray', '|i1', (8, 3), (3, 1), False, True, False,
    [[38, 45, 52], [59, 66, 73], [80, 87, 94], [101, 108, 115], [122, -127, -120], [-113, -106, -99], [-92, -85, -78], [17, 24, 31]]))),
 ('image', 'memoryview-slice', '(-1,)', '1',
  ('returns',
   ('ndarray', '|i1', (24,), (1,), False, True, False,
    [38, 45, 52, 59, 66, 73, 80, 87, 94, 101, 108, 115, 122, -127, -120, -113, -106, -99, -92, -85, -78, 17, 24, 31]))),
 ('image', 'memoryview-slice', '24', '1',
  ('returns',
   ('ndarray', '|i1', (24,), (1,), False, True, False,
    [38, 45, 52, 59, 66, 73, 80, 87, 94, 101, 108, 115, 122, -127, -120, -113, -106, -99, -92, -85, -78, 17, 24, 31]))),
 ('image', 'memoryview-slice', '12', '1', ('raises', 'ValueError', 'cannot reshape array of size 24 into shape (12,)', None, None)),
 ('image', 'memoryview-slice', '[4, 6]', '1',
  ('returns',
   ('ndarray', '|i1', (4, 6), (6, 1), False, True, False,
    [[38, 45, 52, 59, 66, 73], [80, 87, 94, 101, 108, 115], [122, -127, -120, -113, -106, -99], [-92, -85, -78, 17, 24, 31]]))),
 ('image', 'memoryview-slice', '(2.0, 3)', '1', ('raises', 'TypeError', "'float' object cannot be interpreted as an integer", None, None)),
 ('image', 'memoryview-slice', 'None', '1',
  ('returns',
   ('ndarray', '|i1', (24,), (1,), False, True, False,
    [38, 45, 52, 59, 66, 73, 80, 87, 94, 101, 108, 115, 122, -127, -120, -113, -106, -99, -92, -85, -78, 17, 24, 31]))),
 ('image', 'memoryview-slice', "'ab'", '1', ('raises', 'TypeError', "'str' object cannot be interpreted as an integer", None, None)),
 ('image', 'memoryview-slice', '(2, 3)', '2', ('raises', 'ValueError', 'cannot reshape array of size 12 into shape (2,3)', None, None)),
 ('image', 'memoryview-slice', '(3, 2)', '2', ('raises', 'ValueError', 'cannot reshape array of size 12 into shape (3,2)', None, None)),
 ('image', 'memoryview-slice', '(24,)', '2', ('raises', 'ValueError', 'cannot reshape array of size 12 into shape (24,)', None, None)),
 ('image', 'memoryview-slice', '(1, 24)', '2', ('raises', 'ValueError', 'cannot reshape array of size 12 into shape (1,24)', None, None)),
 ('image', 'memoryview-slice', '(4, 3, 2)', '2', ('raises', 'ValueError', 'cannot reshape array of size 12 into shape (4,3,2)', None, None)),
 ('image', 'memoryview-slice', '(6, 4)', '2', ('raises', 'ValueError', 'cannot reshape array of size 12 into shape (6,4)', None, None)),
 ('image', 'memoryview-slice', '(12, 2)', '2', ('raises', 'ValueError', 'cannot reshape array of size 12 into shape (12,2)', None, None)),
 ('image', 'memoryview-slice', '(3, 8)', '2', ('raises', 'ValueError', 'cannot reshape array of size 12 into shape (3,8)', None, None)),
 ('image', 'memoryview-slice', '(0, 5)', '2', ('raises', 'ValueError', 'cannot reshape array of size 12 into shape (0,5)', None, None)),
 ('image', 'memoryview-slice', '()', '2', ('raises', 'ValueError', 'cannot reshape array of size 12 into shape ()', None, None)),
 ('image', 'memoryview-slice', '(-1, 3)', '2',
  ('returns',
   ('ndarray', '>i2', (4, 3), (6, 2), False, True, False,
    [[9773, 13371, 16969], [20567, 24165, 27763], [31361, -30577, -26979], [-23381, -19951, 6175]]))),
 ('image', 'memoryview-slice', '(-1,)', '2',
  ('returns',
   ('ndarray', '>i2', (12,), (2,), False, True, False, [9773, 13371, 16969, 20567, 24165, 27763, 31361, -30577, -26979, -23381, -19951, 6175]))),
 ('image', 'memoryview-slice', '24', '2', ('raises', 'ValueError', 'cannot reshape array of size 12 into shape (24,)', None, None)),
 ('image', 'memoryview-slice', '12', '2',
  ('returns',
   ('ndarray', '>i2', (12,), (2,), False, True, False, [9773, 13371, 16969, 20567, 24165, 27763, 31361, -30577, -26979, -23381, -19951, 6175]))),
 ('image', 'memoryview-slice', '[4, 6]', '2', ('raises', 'ValueError', 'cannot reshape array of size 12 into shape (4,6)', None, None)),
 ('image', 'memoryview-slice', '(2.0, 3)', '2', ('raises', 'TypeError', "'float' object cannot be interpreted as an integer", None, None)),
 ('image', 'memoryview-slice', 'None', '2',
  ('returns',
   ('ndarray', '>i2', (12,), (2,), False, True, False, [9773, 13371, 16969, 20567, 24165, 27763, 31361, -30577, -26979, -23381, -19951, 6175]))),
 ('image', 'memoryview-slice', "'ab'", '2', ('raises', 'TypeError', "'str' object cannot be interpreted as an integer", None, None)),
 ('image', 'memoryview-slice', '(2, 3)', '4',
  ('returns',
   ('ndarray', '>i4', (2, 3), (12, 4), False, True, False, [[640496699, 1112100951, 1583705203], [2055309455, -1768053589, -1307502561]]))),
 ('image', 'memoryview-slice', '(3, 2)', '4',
  ('returns',
   ('ndarray', '>i4', (3, 2), (8, 4), False, True, False, [[640496699, 1112100951], [1583705203, 2055309455], [-1768053589, -1307502561]]))),
 ('image', 'memoryview-slice', '(24,)', '4', ('raises', 'ValueError', 'cannot reshape array of size 6 into shape (24,)', None, None)),
 ('image', 'memoryview-slice', '(1, 24)', '4', ('raises', 'ValueError', 'cannot reshape array of size 6 into shape (1,24)', None, None)),
 ('image', 'memoryview-slice', '(4, 3, 2)', '4', ('raises', 'ValueError', 'cannot reshape array of size 6 into shape (4,3,2)', None, None)),
 ('image', 'memoryview-slice', '(6, 4)', '4', ('raises', 'ValueError', 'cannot reshape array of size 6 into shape (6,4)', None, None)),
 ('image', 'memoryview-slice', '(12, 2)', '4', ('raises', 'ValueError', 'cannot reshape array of size 6 into shape (12,2)', None, None)),
 ('image', 'memoryview-slice', '(3, 8)', '4', ('raises', 'ValueError', 'cannot reshape array of size 6 into shape (3,8)', None, None)),
 ('image', 'memoryview-slice', '(0, 5)', '4', ('raises', 'ValueError', 'cannot reshape array of size 6 into shape (0,5)', None, None)),
 ('image', 'memoryview-slice', '()', '4', ('raises', 'ValueError', 'cannot reshape array of size 6 into shape ()', None, None)),
 ('image', 'memoryview-slice', '(-1, 3)', '4',
  ('returns',
   ('ndarray', '>i4', (2, 3), (12, 4), False, True, False, [[640496699, 1112100951, 1583705203], [2055309455, -1768053589, -1307502561]]))),
 ('image', 'memoryview-slice', '(-1,)', '4',
  ('returns', ('ndarray', '>i4', (6,), (4,), False, True, False, [640496699, 1112100951, 1583705203, 2055309455, -1768053589, -1307502561]))),
 ('image', 'memoryview-slice', '24', '4', ('raises', 'ValueError', 'cannot reshape array of size 6 into shape (24,)', None, None)),
 ('image', 'memoryview-slice', '12', '4', ('raises', 'ValueError', 'cannot reshape array of size 6 into shape (12,)', None, None)),
 ('image', 'memoryview-slice', '[4, 6]', '4', ('raises', 'ValueError', 'cannot reshape array of size 6 into shape (4,6)', None, None)),
 ('image', 'memoryview-slice', '(2.0, 3)', '4', ('raises', 'TypeError', "'float' object cannot be interpreted as an integer", None, None)),
 ('image', 'memoryview-slice', 'None', '4',
  ('returns', ('ndarray', '>i4', (6,), (4,), False, True, False, [640496699, 1112100951, 1583705203, 2055309455, -1768053589, -1307502561]))),
 ('image', 'memoryview-slice', "'ab'", '4', ('raises', 'TypeError', "'str' object cannot be interpreted as an integer", None, None)),
 ('image', 'memoryview-slice', '(2, 3)', '8', ('raises', 'ValueError', 'cannot reshape array of size 3 into shape (2,3)', None, None)),
 ('image', 'memoryview-slice', '(3, 2)', '8', ('raises', 'ValueError', 'cannot reshape array of size 3 into shape (3,2)', None, None)),
 ('image', 'memoryview-slice', '(24,)', '8', ('raises', 'ValueError', 'cannot reshape array of size 3 into shape (24,)', None, None)),
 ('image', 'memoryview-slice', '(1, 24)', '8', ('raises', 'ValueError', 'cannot reshape array of size 3 into shape (1,24)', None, None)),
 ('image', 'memoryview-slice', '(4, 3, 2)', '8', ('raises', 'ValueError', 'cannot reshape array of size 3 into shape (4,3,2)', None, None)),
 ('image', 'memoryview-slice', '(6, 4)', '8', ('raises', 'ValueError', 'cannot reshape array of size 3 into shape (6,4)', None, None)),
 ('image', 'memoryview-slice', '(12, 2)', '8', ('raises', 'ValueError', 'cannot reshape array of size 3 into shape (12,2)', None, None)),
 ('image', 'memoryview-slice', '(3, 8)', '8', ('raises', 'ValueError', 'cannot reshape array of size 3 into shape (3,8)', None, None)),
 ('image', 'memoryview-slice', '(0, 5)', '8', ('raises', 'ValueError', 'cannot reshape array of size 3 into shape (0,5)', None, None)),
 ('image', 'memoryview-slice', '()', '8', ('raises', 'ValueError', 'cannot reshape array of size 3 into shape ()', None, None)),
 ('image', 'memoryview-slice', '(-1, 3)', '8',
  ('returns', ('ndarray', '>i8', (1, 3), (24, 8), False, True, False, [[2750912376513056855, 6801962055445350543, -7593732339342960609]]))),
 ('image', 'memoryview-slice', '(-1,)', '8',
  ('returns', ('ndarray', '>i8', (3,), (8,), False, True, False, [2750912376513056855, 6801962055445350543, -7593732339342960609]))),
 ('image', 'memoryview-slice', '24', '8', ('raises', 'ValueError', 'cannot reshape array of size 3 into shape (24,)', None, None)),
 ('image', 'memoryview-slice', '12', '8', ('raises', 'ValueError', 'cannot reshape array of size 3 into shape (12,)', None, None)),
 ('image', 'memoryview-slice', '[4, 6]', '8', ('raises', 'ValueError', 'cannot reshape array of size 3 into shape (4,6)', None, None)),
 ('image', 'memoryview-slice', '(2.0, 3)', '8', ('raises', 'TypeError', "'float' object cannot be interpreted as an integer", None, None)),
 ('image', 'memoryview-slice', 'None', '8',
  ('returns', ('ndarray', '>i8', (3,), (8,), False, True, False, [2750912376513056855, 6801962055445350543, -7593732339342960609]))),
 ('image', 'memoryview-slice', "'ab'", '8', ('raises', 'TypeError', "'str' object cannot be interpreted as an integer", None, None)),
 ('image', 'memoryview-slice', '(2, 3)', '3', ('raises', 'TypeError', "data type '>i3' not understood", None, None)),
 ('image', 'memoryview-slice', '(3, 2)', '3', ('raises', 'TypeError', "data type '>i3' not understood", None, None)),
 ('image', 'memoryview-slice', '(24,)', '3', ('raises', 'TypeError', "data type '>i3' not understood", None, None)),
 ('image', 'memoryview-slice', '(1, 24)', '3', ('raises', 'TypeError', "data type '>i3' not understood", None, None)),
 ('image', 'memoryview-slice', '(4, 3, 2)', '3', ('raises', 'TypeError', "data type '>i3' not understood", None, None)),
 ('image', 'memoryview-slice', '(6, 4)', '3', ('raises', 'TypeError', "data type '>i3' not understood", None, None)),
 ('image', 'memoryview-slice', '(12, 2)', '3', ('raises', 'TypeError', "data type '>i3' not understood", None, None)),
 ('image', 'memoryview-slice', '(3, 8)', '3', ('raises', 'TypeError', "data type '>i3' not understood", None, None)),
 ('image', 'memoryview-slice', '(0, 5)', '3', ('raises', 'TypeError', "data type '>i3' not understood", None, None)),
 ('image', 'memoryview-slice', '()', '3', ('raises', 'TypeError', "data type '>i3' not understood", None, None)),
 ('image', 'memoryview-slice', '(-1, 3)', '3', ('raises', 'TypeError', "data type '>i3' not understood", None, None)),
 ('image', 'memoryview-slice', '(-1,)', '3', ('raises', 'TypeError', "data type '>i3' not understood", None, None)),
 ('image', 'memoryview-slice', '24', '3', ('raises', 'TypeError', "data type '>i3' not understood", None, None)),
 ('image', 'memoryview-slice', '12', '3', ('raises', 'TypeError', "data type '>i3' not understood", None, None)),
 ('image', 'memoryview-slice', '[4, 6]', '3', ('raises', 'TypeError', "data type '>i3' not understood", None, None)),
 ('image', 'memoryview-slice', '(2.0, 3)', '3', ('raises', 'TypeError', "data type '>i3' not understood", None, None)),
 ('image', 'memoryview-slice', 'None', '3', ('raises', 'TypeError', "data type '>i3' not understood", None, None)),
 ('image', 'memoryview-slice', "'ab'", '3', ('raises', 'TypeError', "data type '>i3' not understood", None, None)),
 ('image', 'memoryview-slice', '(2, 3)', '0', ('raises', 'TypeError', "data type '>i0' not understood", None, None)),
 ('image', 'memoryview-slice', '(3, 2)', '0', ('raises', 'TypeError', "data type '>i0' not understood", None, None)),
 ('image', 'memoryview-slice', '(24,)', '0', ('raises', 'TypeError', "data type '>i0' not understood", None, None)),
 ('image', 'memoryview-slice', '(1, 24)', '0', ('raises', 'TypeError', "data type '>i0' not understood", None, None)),
 ('image', 'memoryview-slice', '(4, 3, 2)', '0', ('raises', 'TypeError', "data type '>i0' not understood", None, None)),
 ('image', 'memoryview-slice', '(6, 4)', '0', ('raises', 'TypeError', "data type '>i0' not understood", None, None)),
 ('image', 'memoryview-slice', '(12, 2)', '0', ('raises', 'TypeError', "data type '>i0' not understood", None, None)),
 ('image', 'memoryview-slice', '(3, 8)', '0', ('raises', 'TypeError', "data type '>i0' not understood", None, None)),
 ('image', 'memoryview-slice', '(0, 5)', '0', ('raises', 'TypeError', "data type '>i0' not understood", None, None)),
 ('image', 'memoryview-slice', '()', '0', ('raises', 'TypeError', "data type '>i0' not understood", None, None)),
 ('image', 'memoryview-slice', '(-1, 3)', '0', ('raises', 'TypeError', "data type '>i0' not understood", None, None)),
 ('image', 'memoryview-slice', '(-1,)', '0', ('raises', 'TypeError', "data type '>i0' not understood", None, None)),
 ('image', 'memoryview-slice', '24', '0', ('raises', 'TypeError', "data type '>i0' not understood", None, None)),
 ('image', 'memoryview-slice', '12', '0', ('raises', 'TypeError', "data type '>i0' not understood", None, None)),
 ('image', 'memoryview-slice', '[4, 6]', '0', ('raises', 'TypeError', "data type '>i0' not understood", None, None)),
 ('image', 'memoryview-slice', '(2.0, 3)', '0', ('raises', 'TypeError', "data type '>i0' not understood", None, None)),
 ('image', 'memoryview-slice', 'None', '0', ('raises', 'TypeError', "data type '>i0' not understood", None, None)),
 ('image', 'memoryview-slice', "'ab'", '0', ('raises', 'TypeError', "data type '>i0' not understood", None, None)),
 ('image', 'memoryview-slice', '(2, 3)', '16', ('raises', 'TypeError', "data type '>i16' not understood", None, None)),
 ('image', 'memoryview-slice', '(3, 2)', '16', ('raises', 'TypeError', "data type '>i16' not understood", None, None)),
 ('image', 'memoryview-slice', '(24,)', '16', ('raises', 'TypeError', "data type '>i16' not understood", None, None)),
 ('image', 'memoryview-slice', '(1, 24)', '16', ('raises', 'TypeError', "data type '>i16' not understood", None, None)),
 ('image', 'memoryview-slice', '(4, 3, 2)', '16', ('raises', 'TypeError', "data type '>i16' not understood", None, None)),
 ('image', 'memoryview-slice', '(6, 4)', '16', ('raises', 'TypeError', "data type '>i16' not understood", None, None)),
 ('image', 'memoryview-slice', '(12, 2)', '16', ('raises', 'TypeError', "data type '>i16' not understood", None, None)),
 ('image', 'memoryview-slice', '(3, 8)', '16', ('raises', 'TypeError', "data type '>i16' not understood", None, None)),
 ('image', 'memoryview-slice', '(0, 5)', '16', ('raises', 'TypeError', "data type '>i16' not understood", None, None)),
 ('image', 'memoryview-slice', '()', '16', ('raises', 'TypeError', "data type '>i16' not understood", None, None)),
 ('image', 'memoryview-slice', '(-1, 3)', '16', ('raises', 'TypeError', "data type '>i16' not understood", None, None)),
 ('image', 'memoryview-slice', '(-1,)', '16', ('raises', 'TypeError', "data type '>i16' not understood", None, None)),
 ('image', 'memoryview-slice', '24', '16', ('raises', 'TypeError', "data type '>i16' not understood", None, None)),
 ('image', 'memoryview-slice', '12', '16', ('raises', 'TypeError', "data type '>i16' not understood", None, None)),
 ('image', 'memoryview-slice', '[4, 6]', '16', ('raises', 'TypeError', "data type '>i16' not understood", None, None)),
 ('image', 'memoryview-slice', '(2.0, 3)', '16', ('raises', 'TypeError', "data type '>i16' not understood", None, None)),
 ('image', 'memoryview-slice', 'None', '16', ('raises', 'TypeError', "data type '>i16' not understood", None, None)),
 ('image', 'memoryview-slice', "'ab'", '16', ('raises', 'TypeError', "data type '>i16' not understood", None, None)),
 ('image', 'memoryview-slice', '(2, 3)', '-1', ('raises', 'TypeError', "data type '>i-1' not understood", None, None)),
 ('image', 'memoryview-slice', '(3, 2)', '-1', ('raises', 'TypeError', "data type '>i-1' not understood", None, None)),
 ('image', 'memoryview-slice', '(24,)', '-1', ('raises', 'TypeError', "data type '>i-1' not understood", None, None)),
 ('image', 'memoryview-slice', '(1, 24)', '-1', ('raises', 'TypeError', "data type '>i-1' not understood", None, None)),
 ('image', 'memoryview-slice', '(4, 3, 2)', '-1', ('raises', 'TypeError', "data type '>i-1' not understood", None, None)),
 ('image', 'memoryview-slice', '(6, 4)', '-1', ('raises', 'TypeError', "data type '>i-1' not understood", None, None)),
 ('image', 'memoryview-slice', '(12, 2)', '-1', ('raises', 'TypeError', "data type '>i-1' not understood", None, None)),
 ('image', 'memoryview-slice', '(3, 8)', '-1', ('raises', 'TypeError', "data type '>i-1' not understood", None, None)),
 ('image', 'memoryview-slice', '(0, 5)', '-1', ('raises', 'TypeError', "data type '>i-1' not understood", None, None)),
 ('image', 'memoryview-slice', '()', '-1', ('raises', 'TypeError', "data type '>i-1' not understood", None, None)),
 ('image', 'memoryview-slice', '(-1, 3)', '-1', ('raises', 'TypeError', "data type '>i-1' not understood", None, None)),
 ('image', 'memoryview-slice', '(-1,)', '-1', ('raises', 'TypeError', "data type '>i-1' not understood", None, None)),
 ('image', 'memoryview-slice', '24', '-1', ('raises', 'TypeError', "data type '>i-1' not understood", None, None)),
 ('image', 'memoryview-slice', '12', '-1', ('raises', 'TypeError', "data type '>i-1' not understood", None, None)),
 ('image', 'memoryview-slice', '[4, 6]', '-1', ('raises', 'TypeError', "data type '>i-1' not understood", None, None)),
 ('image', 'memoryview-slice', '(2.0, 3)', '-1', ('raises', 'TypeError', "data type '>i-1' not understood", None, None)),
 ('image', 'memoryview-slice', 'None', '-1', ('raises', 'TypeError', "data type '>i-1' not understood", None, None)),
 ('image', 'memoryview-slice', "'ab'", '-1', ('raises', 'TypeError', "data type '>i-1' not understood", None, None)),
 ('image', 'memoryview-slice', '(2, 3)', "'2'", ('raises', 'ValueError', 'cannot reshape array of size 12 into shape (2,3)', None, None)),
 ('image', 'memoryview-slice', '(3, 2)', "'2'", ('raises', 'ValueError', 'cannot reshape array of size 12 into shape (3,2)', None, None)),
 ('image', 'memoryview-slice', '(24,)', "'2'", ('raises', 'ValueError', 'cannot reshape array of size 12 into shape (24,)', None, None)),
 ('image', 'memoryview-slice', '(1, 24)', "'2'", ('raises', 'ValueError', 'cannot reshape array of size 12 into shape (1,24)', None, None)),
 ('image', 'memoryview-slice', '(4, 3, 2)', "'2'", ('raises', 'ValueError', 'cannot reshape array of size 12 into shape (4,3,2)', None, None)),
 ('image', 'memoryview-slice', '(6, 4)', "'2'", ('raises', 'ValueError', 'cannot reshape array of size 12 into shape (6,4)', None, None)),
 ('image', 'memoryview-slice', '(12, 2)', "'2'", ('raises', 'ValueError', 'cannot reshape array of size 12 into shape (12,2)', None, None)),
 ('image', 'memoryview-slice', '(3, 8)', "'2'", ('raises', 'ValueError', 'cannot reshape array of size 12 into shape (3,8)', None, None)),
 ('image', 'memoryview-slice', '(0, 5)', "'2'", ('raises', 'ValueError', 'cannot reshape array of size 12 into shape (0,5)', None, None)),
 ('image', 'memoryview-slice', '()', "'2'", ('raises', 'ValueError', 'cannot reshape array of size 12 into shape ()', None, None)),
 ('image', 'memoryview-slice', '(-1, 3)', "'2'",
  ('returns',
   ('ndarray', '>i2', (4, 3), (6, 2), False, True, False,
    [[9773, 13371, 16969], [20567, 24165, 27763], [31361, -30577, -26979], [-23381, -19951, 6175]]))),
 ('image', 'memoryview-slice', '(-1,)', "'2'",
  ('returns',
   ('ndarray', '>i2', (12,), (2,), False, True, False, [9773, 13371, 16969, 20567, 24165, 27763, 31361, -30577, -26979, -23381, -19951, 6175]))),
 ('image', 'memoryview-slice', '24', "'2'", ('raises', 'ValueError', 'cannot reshape array of size 12 into shape (24,)', None, None)),
 ('image', 'memoryview-slice', '12', "'2'",
  ('returns',
   ('ndarray', '>i2', (12,), (2,), False, True, False, [9773, 13371, 16969, 20567, 24165, 27763, 31361, -30577, -26979, -23381, -19951, 6175]))),
 ('image', 'memoryview-slice', '[4, 6]', "'2'", ('raises', 'ValueError', 'cannot reshape array of size 12 into shape (4,6)', None, None)),
 ('image', 'memoryview-slice', '(2.0, 3)', "'2'", ('raises', 'TypeError', "'float' object cannot be interpreted as an integer", None, None)),
 ('image', 'memoryview-slice', 'None', "'2'",
  ('returns',
   ('ndarray', '>i2', (12,), (2,), False, True, False, [9773, 13371, 16969, 20567, 24165, 27763, 31361, -30577, -26979, -23381, -19951, 6175]))),
 ('image', 'memoryview-slice', "'ab'", "'2'", ('raises', 'TypeError', "'str' object cannot be interpreted as an integer", None, None)),
 ('image', 'memoryview-slice', '(2, 3)', '2.0', ('raises', 'TypeError', "data type '>i2.0' not understood", None, None)),
 ('image', 'memoryview-slice', '(3, 2)', '2.0', ('raises', 'TypeError', "data type '>i2.0' not understood", None, None)),
 ('image', 'memoryview-slice', '(24,)', '2.0', ('raises', 'TypeError', "data type '>i2.0' not understood", None, None)),
 ('image', 'memoryview-slice', '(1, 24)', '2.0', ('raises', 'TypeError', "data type '>i2.0' not understood", None, None)),
 ('image', 'memoryview-slice', '(4, 3, 2)', '2.0', ('raises', 'TypeError', "data type '>i2.0' not understood", None, None)),
 ('image', 'memoryview-slice', '(6, 4)', '2.0', ('raises', 'TypeError', "data type '>i2.0' not understood", None, None)),
 ('image', 'memoryview-slice', '(12, 2)', '2.0', ('raises', 'TypeError', "data type '>i2.0' not understood", None, None)),
 ('image', 'memoryview-slice', '(3, 8)', '2.0', ('raises', 'TypeError', "data type '>i2.0' not understood", None, None)),
 ('image', 'memoryview-slice', '(0, 5)', '2.0', ('raises', 'TypeError', "data type '>i2.0' not understood", None, None)),
 ('image', 'memoryview-slice', '()', '2.0', ('raises', 'TypeError', "data type '>i2.0' not understood", None, None)),
 ('image', 'memoryview-slice', '(-1, 3)', '2.0', ('raises', 'TypeError', "data type '>i2.0' not understood", None, None)),
 ('image', 'memoryview-slice', '(-1,)', '2.0', ('raises', 'TypeError', "data type '>i2.0' not understood", None, None)),
 ('image', 'memoryview-slice', '24', '2.0', ('raises', 'TypeError', "data type '>i2.0' not understood", None, None)),
 ('image', 'memoryview-slice', '12', '2.0', ('raises', 'TypeError', "data type '>i2.0' not understood", None, None)),
 ('image', 'memoryview-slice', '[4, 6]', '2.0', ('raises', 'TypeError', "data type '>i2.0' not understood", None, None)),
 ('image', 'memoryview-slice', '(2.0, 3)', '2.0', ('raises', 'TypeError', "data type '>i2.0' not understood", None, None)),
 ('image', 'memoryview-slice', 'None', '2.0', ('raises', 'TypeError', "data type '>i2.0' not understood", None, None)),
 ('image', 'memoryview-slice', "'ab'", '2.0', ('raises', 'TypeError', "data type '>i2.0' not understood", None, None)),
 ('image', 'memoryview-slice', '(2, 3)', 'None', ('raises', 'TypeError', "data type '>iNone' not understood", None, None)),
 ('image', 'memoryview-slice', '(3, 2)', 'None', ('raises', 'TypeError', "data type '>iNone' not understood", None, None)),
 ('image', 'memoryview-slice', '(24,)', 'None', ('raises', 'TypeError', "data type '>iNone' not understood", None, None)),
 ('image', 'memoryview-slice', '(1, 24)', 'None', ('raises', 'TypeError', "data type '>iNone' not understood", None, None)),
 ('image', 'memoryview-slice', '(4, 3, 2)', 'None', ('raises', 'TypeError', "data type '>iNone' not understood", None, None)),
 ('image', 'memoryview-slice', '(6, 4)', 'None', ('raises', 'TypeError', "data type '>iNone' not understood", None, None)),
 ('image', 'memoryview-slice', '(12, 2)', 'None', ('raises', 'TypeError', "data type '>iNone' not understood", None, None)),
 ('image', 'memoryview-slice', '(3, 8)', 'None', ('raises', 'TypeError', "data type '>iNone' not understood", None, None)),
 ('image', 'memoryview-slice', '(0, 5)', 'None', ('raises', 'TypeError', "data type '>iNone' not understood", None, None)),
 ('image', 'memoryview-slice', '()', 'None', ('raises', 'TypeError', "data type '>iNone' not understood", None, None)),
 ('image', 'memoryview-slice', '(-1, 3)', 'None', ('raises', 'TypeError', "data type '>iNone' not understood", None, None)),
 ('image', 'memoryview-slice', '(-1,)', 'None', ('raises', 'TypeError', "data type '>iNone' not understood", None, None)),
 ('image', 'memoryview-slice', '24', 'None', ('raises', 'TypeError', "data type '>iNone' not understood", None, None)),
 ('image', 'memoryview-slice', '12', 'None', ('raises', 'TypeError', "data type '>iNone' not understood", None, None)),
 ('image', 'memoryview-slice', '[4, 6]', 'None', ('raises', 'TypeError', "data type '>iNone' not understood", None, None)),
 ('image', 'memoryview-slice', '(2.0, 3)', 'None', ('raises', 'TypeError', "data type '>iNone' not understood", None, None)),
 ('image', 'memoryview-slice', 'None', 'None', ('raises', 'TypeError', "data type '>iNone' not understood", None, None)),
 ('image', 'memoryview-slice', "'ab'", 'None', ('raises', 'TypeError', "data type '>iNone' not understood", None, None)),
 ('image', 'memoryview-slice', '(2, 3)', 'True', ('raises', 'TypeError', "data type '>iTrue' not understood", None, None)),
 ('image', 'memoryview-slice', '(3, 2)', 'True', ('raises', 'TypeError', "data type '>iTrue' not understood", None, None)),
 ('image', 'memoryview-slice', '(24,)', 'True', ('raises', 'TypeError', "data type '>iTrue' not understood", None, None)),
 ('image', 'memoryview-slice', '(1, 24)', 'True', ('raises', 'TypeError', "data type '>iTrue' not understood", None, None)),
 ('image', 'memoryview-slice', '(4, 3, 2)', 'True', ('raises', 'TypeError', "data type '>iTrue' not understood", None, None)),
 ('image', 'memoryview-slice', '(6, 4)', 'True', ('raises', 'TypeError', "data type '>iTrue' not understood", None, None)),
 ('image', 'memoryview-slice', '(12, 2)', 'True', ('raises', 'TypeError', "data type '>iTrue' not understood", None, None)),
 ('image', 'memoryview-slice', '(3, 8)', 'True', ('raises', 'TypeError', "data type '>iTrue' not understood", None, None)),
 ('image', 'memoryview-slice', '(0, 5)', 'True', ('raises', 'TypeError', "data type '>iTrue' not understood", None, None)),
 ('image', 'memoryview-slice', '()', 'True', ('raises', 'TypeError', "data type '>iTrue' not understood", None, None)),
 ('image', 'memoryview-slice', '(-1, 3)', 'True', ('raises', 'TypeError', "data type '>iTrue' not understood", None, None)),
 ('image', 'memoryview-slice', '(-1,)', 'True', ('raises', 'TypeError', "data type '>iTrue' not understood", None, None)),
 ('image', 'memoryview-slice', '24', 'True', ('raises', 'TypeError', "data type '>iTrue' not understood", None, None)),
 ('image', 'memoryview-slice', '12', 'True', ('raises', 'TypeError', "data type '>iTrue' not understood", None, None)),
 ('image', 'memoryview-slice', '[4, 6]', 'True', ('raises', 'TypeError', "data type '>iTrue' not understood", None, None)),
 ('image', 'memoryview-slice', '(2.0, 3)', 'True', ('raises', 'TypeError', "data type '>iTrue' not understood", None, None)),
 ('image', 'memoryview-slice', 'None', 'True', ('raises', 'TypeError', "data type '>iTrue' not understood", None, None)),
 ('image', 'memoryview-slice', "'ab'", 'True', ('raises', 'TypeError', "data type '>iTrue' not understood", None, None)),
 ('image', 'memoryview-slice', '(2, 3)', 'np.int64(4)',
  ('returns',
   ('ndarray', '>i4', (2, 3), (12, 4), False, True, False, [[640496699, 1112100951, 1583705203], [2055309455, -1768053589, -1307502561]]))),
 ('image', 'memoryview-slice', '(3, 2)', 'np.int64(4)',
  ('returns',
   ('ndarray', '>i4', (3, 2), (8, 4), False, True, False, [[640496699, 1112100951], [1583705203, 2055309455], [-1768053589, -1307502561]]))),
 ('image', 'memoryview-slice', '(24,)', 'np.int64(4)', ('raises', 'ValueError', 'cannot reshape array of size 6 into shape (24,)', None, None)),
 ('image', 'memoryview-slice', '(1, 24)', 'np.int64(4)', ('raises', 'ValueError', 'cannot reshape array of size 6 into shape (1,24)', None, None)),
 ('image', 'memoryview-slice', '(4, 3, 2)', 'np.int64(4)', ('raises', 'ValueError', 'cannot reshape array of size 6 into shape (4,3,2)', None, None)),
 ('image', 'memoryview-slice', '(6, 4)', 'np.int64(4)', ('raises', 'ValueError', 'cannot reshape array of size 6 into shape (6,4)', None, None)),
 ('image', 'memoryview-slice', '(12, 2)', 'np.int64(4)', ('raises', 'ValueError', 'cannot reshape array of size 6 into shape (12,2)', None, None)),
 ('image', 'memoryview-slice', '(3, 8)', 'np.int64(4)', ('raises', 'ValueError', 'cannot reshape array of size 6 into shape (3,8)', None, None)),
 ('image', 'memoryview-slice', '(0, 5)', 'np.int64(4)', ('raises', 'ValueError', 'cannot reshape array of size 6 into shape (0,5)', None, None)),
 ('image', 'memoryview-slice', '()', 'np.int64(4)', ('raises', 'ValueError', 'cannot reshape array of size 6 into shape ()', None, None)),
 ('image', 'memoryview-slice', '(-1, 3)', 'np.int64(4)',
  ('returns',
   ('ndarray', '>i4', (2, 3), (12, 4), False, True, False, [[640496699, 1112100951, 1583705203], [2055309455, -1768053589, -1307502561]]))),
 ('image', 'memoryview-slice', '(-1,)', 'np.int64(4)',
  ('returns', ('ndarray', '>i4', (6,), (4,), False, True, False, [640496699, 1112100951, 1583705203, 2055309455, -1768053589, -1307502561]))),
 ('image', 'memoryview-slice', '24', 'np.int64(4)', ('raises', 'ValueError', 'cannot reshape array of size 6 into shape (24,)', None, None)),
 ('image', 'memoryview-slice', '12', 'np.int64(4)', ('raises', 'ValueError', 'cannot reshape array of size 6 into shape (12,)', None, None)),
 ('image', 'memoryview-slice', '[4, 6]', 'np.int64(4)', ('raises', 'ValueError', 'cannot reshape array of size 6 into shape (4,6)', None, None)),
 ('image', 'memoryview-slice', '(2.0, 3)', 'np.int64(4)', ('raises', 'TypeError', "'float' object cannot be interpreted as an integer", None, None)),
 ('image', 'memoryview-slice', 'None', 'np.int64(4)',
  ('returns', ('ndarray', '>i4', (6,), (4,), False, True, False, [640496699, 1112100951, 1583705203, 2055309455, -1768053589, -1307502561]))),
 ('image', 'memoryview-slice', "'ab'", 'np.int64(4)', ('raises', 'TypeError', "'str' object cannot be interpreted as an integer", None, None)),
 ('image', 'empty', '(2, 3)', '1', ('raises', 'ValueError', 'cannot reshape array of size 0 into shape (2,3)', None, None)),
 ('image', 'empty', '(3, 2)', '1', ('raises', 'ValueError', 'cannot reshape array of size 0 into shape (3,2)', None, None)),
 ('image', 'empty', '(24,)', '1', ('raises', 'ValueError', 'cannot reshape array of size 0 into shape (24,)', None, None)),
 ('image', 'empty', '(1, 24)', '1', ('raises', 'ValueError', 'cannot reshape array of size 0 into shape (1,24)', None, None)),
 ('image', 'empty', '(4, 3, 2)', '1', ('raises', 'ValueError', 'cannot reshape array of size 0 into shape (4,3,2)', None, None)),
 ('image', 'empty', '(6, 4)', '1', ('raises', 'ValueError', 'cannot reshape array of size 0 into shape (6,4)', None, None)),
 ('image', 'empty', '(12, 2)', '1', ('raises', 'ValueError', 'cannot reshape array of size 0 into shape (12,2)', None, None)),
 ('image', 'empty', '(3, 8)', '1', ('raises', 'ValueError', 'cannot reshape array of size 0 into shape (3,8)', None, None)),
 ('image', 'empty', '(0, 5)', '1', ('returns', ('ndarray', '|i1', (0, 5), (5, 1), False, True, False, []))),
 ('image', 'empty', '()', '1', ('raises', 'ValueError', 'cannot reshape array of size 0 into shape ()', None, None)),
 ('image', 'empty', '(-1, 3)', '1', ('returns', ('ndarray', '|i1', (0, 3), (3, 1), False, True, False, []))),
 ('image', 'empty', '(-1,)', '1', ('returns', ('ndarray', '|i1', (0,), (1,), False, True, False, []))),
 ('image', 'empty', '24', '1', ('raises', 'ValueError', 'cannot reshape array of size 0 into shape (24,)', None, None)),
 ('image', 'empty', '12', '1', ('raises', 'ValueError', 'cannot reshape array of size 0 into shape (12,)', None, None)),
 ('image', 'empty', '[4, 6]', '1', ('raises', 'ValueError', 'cannot reshape array of size 0 into shape (4,6)', None, None)),
 ('image', 'empty', '(2.0, 3)', '1', ('raises', 'TypeError', "'float' object cannot be interpreted as an integer", None, None)),
 ('image', 'empty', 'None', '1', ('returns', ('ndarray', '|i1', (0,), (1,), False, True, False, []))),
 ('image', 'empty', "'ab'", '1', ('raises', 'TypeError', "'str' object cannot be interpreted as an integer", None, None)),
 ('image', 'empty', '(2, 3)', '2', ('raises', 'ValueError', 'cannot reshape array of size 0 into shape (2,3)', None, None)),
 ('image', 'empty', '(3, 2)', '2', ('raises', 'ValueError', 'cannot reshape array of size 0 into shape (3,2)', None, None)),
 ('image', 'empty', '(24,)', '2', ('raises', 'ValueError', 'cannot reshape array of size 0 into shape (24,)', None, None)),
 ('image', 'empty', '(1, 24)', '2', ('raises', 'ValueError', 'cannot reshape array of size 0 into shape (1,24)', None, None)),
 ('image', 'empty', '(4, 3, 2)', '2', ('raises', 'ValueError', 'cannot reshape array of size 0 into shape (4,3,2)', None, None)),
 ('image', 'empty', '(6, 4)', '2', ('raises', 'ValueError', 'cannot reshape array of size 0 into shape (6,4)', None, None)),
 ('image', 'empty', '(12, 2)', '2', ('raises', 'ValueError', 'cannot reshape array of size 0 into shape (12,2)', None, None)),
 ('image', 'empty', '(3, 8)', '2', ('raises', 'ValueError', 'cannot reshape array of size 0 into shape (3,8)', None, None)),
 ('image', 'empty', '(0, 5)', '2', ('returns', ('ndarray', '>i2', (0, 5), (10, 2), False, True, False, []))),
 ('image', 'empty', '()', '2', ('raises', 'ValueError', 'cannot reshape array of size 0 into shape ()', None, None)),
 ('image', 'empty', '(-1, 3)', '2', ('returns', ('ndarray', '>i2', (0, 3), (6, 2), False, True, False, []))),
 ('image', 'empty', '(-1,)', '2', ('returns', ('ndarray', '>i2', (0,), (2,), False, True, False, []))),
 ('image', 'empty', '24', '2', ('raises', 'ValueError', 'cannot reshape array of size 0 into shape (24,)', None, None)),
 ('image', 'empty', '12', '2', ('raises', 'ValueError', 'cannot reshape array of size 0 into shape (12,)', None, None)),
 ('image', 'empty', '[4, 6]', '2', ('raises', 'ValueError', 'cannot reshape array of size 0 into shape (4,6)', None, None)),
 ('image', 'empty', '(2.0, 3)', '2', ('raises', 'TypeError', "'float' object cannot be interpreted as an integer", None, None)),
 ('image', 'empty', 'None', '2', ('returns', ('ndarray', '>i2', (0,), (2,), False, True, False, []))),
 ('image', 'empty', "'ab'", '2', ('raises', 'TypeError', "'str' object cannot be interpreted as an integer", None, None)),
 ('image', 'empty', '(2, 3)', '4', ('raises', 'ValueError', 'cannot reshape array of size 0 into shape (2,3)', None, None)),
 ('image', 'empty', '(3, 2)', '4', ('raises', 'ValueError', 'cannot reshape array of size 0 into shape (3,2)', None, None)),
 ('image', 'empty', '(24,)', '4', ('raises', 'ValueError', 'cannot reshape array of size 0 into shape (24,)', None, None)),
 ('image', 'empty', '(1, 24)', '4', ('raises', 'ValueError', 'cannot reshape array of size 0 into shape (1,24)', None, None)),
 ('image', 'empty', '(4, 3, 2)', '4', ('raises', 'ValueError', 'cannot reshape array of size 0 into shape (4,3,2)', None, None)),
 ('image', 'empty', '(6, 4)', '4', ('raises', 'ValueError', 'cannot reshape array of size 0 into shape (6,4)', None, None)),
 ('image', 'empty', '(12, 2)', '4', ('raises', 'ValueError', 'cannot reshape array of size 0 into shape (12,2)', None, None)),
 ('image', 'empty', '(3, 8)', '4', ('raises', 'ValueError', 'cannot reshape array of size 0 into shape (3,8)', None, None)),
 ('image', 'empty', '(0, 5)', '4', ('returns', ('ndarray', '>i4', (0, 5), (20, 4), False, True, False, []))),
 ('image', 'empty', '()', '4', ('raises', 'ValueError', 'cannot reshape array of size 0 into shape ()', None, None)),
 ('image', 'empty', '(-1, 3)', '4', ('returns', ('ndarray', '>i4', (0, 3), (12, 4), False, True, False, []))),
 ('image', 'empty', '(-1,)', '4', ('returns', ('ndarray', '>i4', (0,), (4,), False, True, False, []))),
 ('image', 'empty', '24', '4', ('raises', 'ValueError', 'cannot reshape array of size 0 into shape (24,)', None, None)),
 ('image', 'empty', '12', '4', ('raises', 'ValueError', 'cannot reshape array of size 0 into shape (12,)', None, None)),
 ('image', 'empty', '[4, 6]', '4', ('raises', 'ValueError', 'cannot reshape array of size 0 into shape (4,6)', None, None)),
 ('image', 'empty', '(2.0, 3)', '4', ('raises', 'TypeError', "'float' object cannot be interpreted as an integer", None, None)),
 ('image', 'empty', 'None', '4', ('returns', ('ndarray', '>i4', (0,), (4,), False, True, False, []))),
 ('image', 'empty', "'ab'", '4', ('raises', 'TypeError', "'str' object cannot be interpreted as an integer", None, None)),
 ('image', 'empty', '(2, 3)', '8', ('raises', 'ValueError', 'cannot reshape array of size 0 into shape (2,3)', None, None)),
 ('image', 'empty', '(3, 2)', '8', ('raises', 'ValueError', 'cannot reshape array of size 0 into shape (3,2)', None, None)),
 ('image', 'empty', '(24,)', '8', ('raises', 'ValueError', 'cannot reshape array of size 0 into shape (24,)', None, None)),
 ('image', 'empty', '(1, 24)', '8', ('raises', 'ValueError', 'cannot reshape array of size 0 into shape (1,24)', None, None)),
 ('image', 'empty', '(4, 3, 2)', '8', ('raises', 'ValueError', 'cannot reshape array of size 0 into shape (4,3,2)', None, None)),
 ('image', 'empty', '(6, 4)', '8', ('raises', 'ValueError', 'cannot reshape array of size 0 into shape (6,4)', None, None)),
 ('image', 'empty', '(12, 2)', '8', ('raises', 'ValueError', 'cannot reshape array of size 0 into shape (12,2)', None, None)),
 ('image', 'empty', '(3, 8)', '8', ('raises', 'ValueError', 'cannot reshape array of size 0 into shape (3,8)', None, None)),
 ('image', 'empty', '(0, 5)', '8', ('returns', ('ndarray', '>i8', (0, 5), (40, 8), False, True, False, []))),
 ('image', 'empty', '()', '8', ('raises', 'ValueError', 'cannot reshape array of size 0 into shape ()', None, None)),
 ('image', 'empty', '(-1, 3)', '8', ('returns', ('ndarray', '>i8', (0, 3), (24, 8), False, True, False, []))),
 ('image', 'empty', '(-1,)', '8', ('returns', ('ndarray', '>i8', (0,), (8,), False, True, False, []))),
 ('image', 'empty', '24', '8', ('raises', 'ValueError', 'cannot reshape array of size 0 into shape (24,)', None, None)),
 ('image', 'empty', '12', '8', ('raises', 'ValueError', 'cannot reshape array of size 0 into shape (12,)', None, None)),
 ('image', 'empty', '[4, 6]', '8', ('raises', 'ValueError', 'cannot reshape array of size 0 into shape (4,6)', None, None)),
 ('image', 'empty', '(2.0, 3)', '8', ('raises', 'TypeError', "'float' object cannot be interpreted as an integer", None, None)),
 ('image', 'empty', 'None', '8', ('returns', ('ndarray', '>i8', (0,), (8,), False, True, False, []))),
 ('image', 'empty', "'ab'", '8', ('raises', 'TypeError', "'str' object cannot be interpreted as an integer", None, None)),
 ('image', 'empty', '(2, 3)', '3', ('raises', 'TypeError', "data type '>i3' not understood", None, None)),
 ('image', 'empty', '(3, 2)', '3', ('raises', 'TypeError', "data type '>i3' not understood", None, None)),
 ('image', 'empty', '(24,)', '3', ('raises', 'TypeError', "data type '>i3' not understood", None, None)),
 ('image', 'empty', '(1, 24)', '3', ('raises', 'TypeError', "data type '>i3' not understood", None, None)),
 ('image', 'empty', '(4, 3, 2)', '3', ('raises', 'TypeError', "data type '>i3' not understood", None, None)),
 ('image', 'empty', '(6, 4)', '3', ('raises', 'TypeError', "data type '>i3' not understood", None, None)),
 ('image', 'empty', '(12, 2)', '3', ('raises', 'TypeError', "data type '>i3' not understood", None, None)),
 ('image', 'empty', '(3, 8)', '3', ('raises', 'TypeError', "data type '>i3' not understood", None, None)),
 ('image', 'empty', '(0, 5)', '3', ('raises', 'TypeError', "data type '>i3' not understood", None, None)),
 ('image', 'empty', '()', '3', ('raises', 'TypeError', "data type '>i3' not understood", None, None)),
 ('image', 'empty', '(-1, 3)', '3', ('raises', 'TypeError', "data type '>i3' not understood", None, None)),
 ('image', 'empty', '(-1,)', '3', ('raises', 'TypeError', "data type '>i3' not understood", None, None)),
 ('image', 'empty', '24', '3', ('raises', 'TypeError', "data type '>i3' not understood", None, None)),
 ('image', 'empty', '12', '3', ('raises', 'TypeError', "data type '>i3' not understood", None, None)),
 ('image', 'empty', '[4, 6]', '3', ('raises', 'TypeError', "data type '>i3' not understood", None, None)),
 ('image', 'empty', '(2.0, 3)', '3', ('raises', 'TypeError', "data type '>i3' not understood", None, None)),
 ('image', 'empty', 'None', '3', ('raises', 'TypeError', "data type '>i3' not understood", None, None)),
 ('image', 'empty', "'ab'", '3', ('raises', 'TypeError', "data type '>i3' not understood", None, None)),
 ('image', 'empty', '(2, 3)', '0', ('raises', 'TypeError', "data type '>i0' not understood", None, None)),
 ('image', 'empty', '(3, 2)', '0', ('raises', 'TypeError', "data type '>i0' not understood", None, None)),
 ('image', 'empty', '(24,)', '0', ('raises', 'TypeError', "data type '>i0' not understood", None, None)),
 ('image', 'empty', '(1, 24)', '0', ('raises', 'TypeError', "data type '>i0' not understood", None, None)),
 ('image', 'empty', '(4, 3, 2)', '0', ('raises', 'TypeError', "data type '>i0' not understood", None, None)),
 ('image', 'empty', '(6, 4)', '0', ('raises', 'TypeError', "data type '>i0' not understood", None, None)),
 ('image', 'empty', '(12, 2)', '0', ('raises', 'TypeError', "data type '>i0' not understood", None, None)),
 ('image', 'empty', '(3, 8)', '0', ('raises', 'TypeError', "data type '>i0' not understood", None, None)),
 ('image', 'empty', '(0, 5)', '0', ('raises', 'TypeError', "data type '>i0' not understood", None, None)),
 ('image', 'empty', '()', '0', ('raises', 'TypeError', "data type '>i0' not understood", None, None)),
 ('image', 'empty', '(-1, 3)', '0', ('raises', 'TypeError', "data type '>i0' not understood", None, None)),
 ('image', 'empty', '(-1,)', '0', ('raises', 'TypeError', "data type '>i0' not understood", None, None)),
 ('image', 'empty', '24', '0', ('raises', 'TypeError', "data type '>i0' not understood", None, None)),
 ('image', 'empty', '12', '0', ('raises', 'TypeError', "data type '>i0' not understood", None, None)),
 ('image', 'empty', '[4, 6]', '0', ('raises', 'TypeError', "data type '>i0' not understood", None, None)),
 ('image', 'empty', '(2.0, 3)', '0', ('raises', 'TypeError', "data type '>i0' not understood", None, None)),
 ('image', 'empty', 'None', '0', ('raises', 'TypeError', "data type '>i0' not understood", None, None)),
 ('image', 'empty', "'ab'", '0', ('raises', 'TypeError', "data type '>i0' not understood", None, None)),
 ('image', 'empty', '(2, 3)', '16', ('raises', 'TypeError', "data type '>i16' not understood", None, None)),
 ('image', 'empty', '(3, 2)', '16', ('raises', 'TypeError', "data type '>i16' not understood", None, None)),
 ('image', 'empty', '(24,)', '16', ('raises', 'TypeError', "data type '>i16' not understood", None, None)),
 ('image', 'empty', '(1, 24)', '16', ('raises', 'TypeError', "data type '>i16' not understood", None, None)),
 ('image', 'empty', '(4, 3, 2)', '16', ('raises', 'TypeError', "data type '>i16' not understood", None, None)),
 ('image', 'empty', '(6, 4)', '16', ('raises', 'TypeError', "data type '>i16' not understood", None, None)),
 ('image', 'empty', '(12, 2)', '16', ('raises', 'TypeError', "data type '>i16' not understood", None, None)),
 ('image', 'empty', '(3, 8)', '16', ('raises', 'TypeError', "data type '>i16' not understood", None, None)),
 ('image', 'empty', '(0, 5)', '16', ('raises', 'TypeError', "data type '>i16' not understood", None, None)),
 ('image', 'empty', '()', '16', ('raises', 'TypeError', "data type '>i16' not understood", None, None)),
 ('image', 'empty', '(-1, 3)', '16', ('raises', 'TypeError', "data type '>i16' not understood", None, None)),
 ('image', 'empty', '(-1,)', '16', ('raises', 'TypeError', "data type '>i16' not understood", None, None)),
 ('image', 'empty', '24', '16', ('raises', 'TypeError', "data type '>i16' not understood", None, None)),
 ('image', 'empty', '12', '16', ('raises', 'TypeError', "data type '>i16' not understood", None, None)),
 ('image', 'empty', '[4, 6]', '16', ('raises', 'TypeError', "data type '>i16' not understood", None, None)),
 ('image', 'empty', '(2.0, 3)', '16', ('raises', 'TypeError', "data type '>i16' not understood", None, None)),
 ('image', 'empty', 'None', '16', ('raises', 'TypeError', "data type '>i16' not understood", None, None)),
 ('image', 'empty', "'ab'", '16', ('raises', 'TypeError', "data type '>i16' not understood", None, None)),
 ('image', 'empty', '(2, 3)', '-1', ('raises', 'TypeError', "data type '>i-1' not understood", None, None)),
 ('image', 'empty', '(3, 2)', '-1', ('raises', 'TypeError', "data type '>i-1' not understood", None, None)),
 ('image', 'empty', '(24,)', '-1', ('raises', 'TypeError', "data type '>i-1' not understood", None, None)),
 ('image', 'empty', '(1, 24)', '-1', ('raises', 'TypeError', "data type '>i-1' not understood", None, None)),
 ('image', 'empty', '(4, 3, 2)', '-1', ('raises', 'TypeError', "data type '>i-1' not understood", None, None)),
 ('image', 'empty', '(6, 4)', '-1', ('raises', 'TypeError', "data type '>i-1' not understood", None, None)),
 ('image', 'empty', '(12, 2)', '-1', ('raises', 'TypeError', "data type '>i-1' not understood", None, None)),
 ('image', 'empty', '(3, 8)', '-1', ('raises', 'TypeError', "data type '>i-1' not understood", None, None)),
 ('image', 'empty', '(0, 5)', '-1', ('raises', 'TypeError', "data type '>i-1' not understood", None, None)),
 ('image', 'empty', '()', '-1', ('raises', 'TypeError', "data type '>i-1' not understood", None, None)),
 ('image', 'empty', '(-1, 3)', '-1', ('raises', 'TypeError', "data type '>i-1' not understood", None, None)),
 ('image', 'empty', '(-1,)', '-1', ('raises', 'TypeError', "data type '>i-1' not understood", None, None)),
 ('image', 'empty', '24', '-1', ('raises', 'TypeError', "data type '>i-1' not understood", None, None)),
 ('image', 'empty', '12', '-1', ('raises', 'TypeError', "data type '>i-1' not understood", None, None)),
 ('image', 'empty', '[4, 6]', '-1', ('raises', 'TypeError', "data type '>i-1' not understood", None, None)),
 ('image', 'empty', '(2.0, 3)', '-1', ('raises', 'TypeError', "data type '>i-1' not understood", None, None)),
 ('image', 'empty', 'None', '-1', ('raises', 'TypeError', "data type '>i-1' not understood", None, None)),
 ('image', 'empty', "'ab'", '-1', ('raises', 'TypeError', "data type '>i-1' not understood", None, None)),
 ('image', 'empty', '(2, 3)', "'2'", ('raises', 'ValueError', 'cannot reshape array of size 0 into shape (2,3)', None, None)),
 ('image', 'empty', '(3, 2)', "'2'", ('raises', 'ValueError', 'cannot reshape array of size 0 into shape (3,2)', None, None)),
 ('image', 'empty', '(24,)', "'2'", ('raises', 'ValueError', 'cannot reshape array of size 0 into shape (24,)', None, None)),
 ('image', 'empty', '(1, 24)', "'2'", ('raises', 'ValueError', 'cannot reshape array of size 0 into shape (1,24)', None, None)),
 ('image', 'empty', '(4, 3, 2)', "'2'", ('raises', 'ValueError', 'cannot reshape array of size 0 into shape (4,3,2)', None, None)),
 ('image', 'empty', '(6, 4)', "'2'", ('raises', 'ValueError', 'cannot reshape array of size 0 into shape (6,4)', None, None)),
 ('image', 'empty', '(12, 2)', "'2'", ('raises', 'ValueError', 'cannot reshape array of size 0 into shape (12,2)', None, None)),
 ('image', 'empty', '(3, 8)', "'2'", ('raises', 'ValueError', 'cannot reshape array of size 0 into shape (3,8)', None, None)),
 ('image', 'empty', '(0, 5)', "'2'", ('returns', ('ndarray', '>i2', (0, 5), (10, 2), False, True, False, []))),
 ('image', 'empty', '()', "'2'", ('raises', 'ValueError', 'cannot reshape array of size 0 into shape ()', None, None)),
 ('image', 'empty', '(-1, 3)', "'2'", ('returns', ('ndarray', '>i2', (0, 3), (6, 2), False, True, False, []))),
 ('image', 'empty', '(-1,)', "'2'", ('returns', ('ndarray', '>i2', (0,), (2,), False, True, False, []))),
 ('image', 'empty', '24', "'2'", ('raises', 'ValueError', 'cannot reshape array of size 0 into shape (24,)', None, None)),
 ('image', 'empty', '12', "'2'", ('raises', 'ValueError', 'cannot reshape array of size 0 into shape (12,)', None, None)),
 ('image', 'empty', '[4, 6]', "'2'", ('raises', 'ValueError', 'cannot reshape array of size 0 into shape (4,6)', None, None)),
 ('image', 'empty', '(2.0, 3)', "'2'", ('raises', 'TypeError', "'float' object cannot be interpreted as an integer", None, None)),
 ('image', 'empty', 'None', "'2'", ('returns', ('ndarray', '>i2', (0,), (2,), False, True, False, []))),
 ('image', 'empty', "'ab'", "'2'", ('raises', 'TypeError', "'str' object cannot be interpreted as an integer", None, None)),
 ('image', 'empty', '(2, 3)', '2.0', ('raises', 'TypeError', "data type '>i2.0' not understood", None, None)),
 ('image', 'empty', '(3, 2)', '2.0', ('raises', 'TypeError', "data type '>i2.0' not understood", None, None)),
 ('image', 'empty', '(24,)', '2.0', ('raises', 'TypeError', "data type '>i2.0' not understood", None, None)),
 ('image', 'empty', '(1, 24)', '2.0', ('raises', 'TypeError', "data type '>i2.0' not understood", None, None)),
 ('image', 'empty', '(4, 3, 2)', '2.0', ('raises', 'TypeError', "data type '>i2.0' not understood", None, None)),
 ('image', 'empty', '(6, 4)', '2.0', ('raises', 'TypeError', "data type '>i2.0' not understood", None, None)),
 ('image', 'empty', '(12, 2)', '2.0', ('raises', 'TypeError', "data type '>i2.0' not understood", None, None)),
 ('image', 'empty', '(3, 8)', '2.0', ('raises', 'TypeError', "data type '>i2.0' not understood", None, None)),
 ('image', 'empty', '(0, 5)', '2.0', ('raises', 'TypeError', "data type '>i2.0' not understood", None, None)),
 ('image', 'empty', '()', '2.0', ('raises', 'TypeError', "data type '>i2.0' not understood", None, None)),
 ('image', 'empty', '(-1, 3)', '2.0', ('raises', 'TypeError', "data type '>i2.0' not understood", None, None)),
 ('image', 'empty', '(-1,)', '2.0', ('raises', 'TypeError', "data type '>i2.0' not understood", None, None)),
 ('image', 'empty', '24', '2.0', ('raises', 'TypeError', "data type '>i2.0' not understood", None, None)),
 ('image', 'empty', '12', '2.0', ('raises', 'TypeError', "data type '>i2.0' not understood", None, None)),
 ('image', 'empty', '[4, 6]', '2.0', ('raises', 'TypeError', "data type '>i2.0' not understood", None, None)),
 ('image', 'empty', '(2.0, 3)', '2.0', ('raises', 'TypeError', "data type '>i2.0' not understood", None, None)),
 ('image', 'empty', 'None', '2.0', ('raises', 'TypeError', "data type '>i2.0' not understood", None, None)),
 ('image', 'empty', "'ab'", '2.0', ('raises', 'TypeError', "data type '>i2.0' not understood", None, None)),
 ('image', 'empty', '(2, 3)', 'None', ('raises', 'TypeError', "data type '>iNone' not understood", None, None)),
 ('image', 'empty', '(3, 2)', 'None', ('raises', 'TypeError', "data type '>iNone' not understood", None, None)),
 ('image', 'empty', '(24,)', 'None', ('raises', 'TypeError', "data type '>iNone' not understood", None, None)),
 ('image', 'empty', '(1, 24)', 'None', ('raises', 'TypeError', "data type '>iNone' not understood", None, None)),
 ('image', 'empty', '(4, 3, 2)', 'None', ('raises', 'TypeError', "data type '>iNone' not understood", None, None)),
 ('image', 'empty', '(6, 4)', 'None', ('raises', 'TypeError', "data type '>iNone' not understood", None, None)),
 ('image', 'empty', '(12, 2)', 'None', ('raises', 'TypeError', "data type '>iNone' not understood", None, None)),
 ('image', 'empty', '(3, 8)', 'None', ('raises', 'TypeError', "data type '>iNone' not understood", None, None)),
 ('image', 'empty', '(0, 5)', 'None', ('raises', 'TypeError', "data type '>iNone' not understood", None, None)),
 ('image', 'empty', '()', 'None', ('raises', 'TypeError', "data type '>iNone' not understood", None, None)),
 ('image', 'empty', '(-1, 3)', 'None', ('raises', 'TypeError', "data type '>iNone' not understood", None, None)),
 ('image', 'empty', '(-1,)', 'None', ('raises', 'TypeError', "data type '>iNone' not understood", None, None)),
 ('image', 'empty', '24', 'None', ('raises', 'TypeError', "data type '>iNone' not understood", None, None)),
 ('image', 'empty', '12', 'None', ('raises', 'TypeError', "data type '>iNone' not understood", None, None)),
 ('image', 'empty', '[4, 6]', 'None', ('raises', 'TypeError', "data type '>iNone' not understood", None, None)),
 ('image', 'empty', '(2.0, 3)', 'None', ('raises', 'TypeError', "data type '>iNone' not understood", None, None)),
 ('image', 'empty', 'None', 'None', ('raises', 'TypeError', "data type '>iNone' not understood", None, None)),
 ('image', 'empty', "'ab'", 'None', ('raises', 'TypeError', "data type '>iNone' not understood", None, None)),
 ('image', 'empty', '(2, 3)', 'True', ('raises', 'TypeError', "data type '>iTrue' not understood", None, None)),
 ('image', 'empty', '(3, 2)', 'True', ('raises', 'TypeError', "data type '>iTrue' not understood", None, None)),
 ('image', 'empty', '(24,)', 'True', ('raises', 'TypeError', "data type '>iTrue' not understood", None, None)),
 ('image', 'empty', '(1, 24)', 'True', ('raises', 'TypeError', "data type '>iTrue' not understood", None, None)),
 ('image', 'empty', '(4, 3, 2)', 'True', ('raises', 'TypeError', "data type '>iTrue' not understood", None, None)),
 ('image', 'empty', '(6, 4)', 'True', ('raises', 'TypeError', "data type '>iTrue' not understood", None, None)),
 ('image', 'empty', '(12, 2)', 'True', ('raises', 'TypeError', "data type '>iTrue' not understood", None, None)),
 ('image', 'empty', '(3, 8)', 'True', ('raises', 'TypeError', "data type '>iTrue' not understood", None, None)),
 ('image', 'empty', '(0, 5)', 'True', ('raises', 'TypeError', "data type '>iTrue' not understood", None, None)),
 ('image', 'empty', '()', 'True', ('raises', 'TypeError', "data type '>iTrue' not understood", None, None)),
 ('image', 'empty', '(-1, 3)', 'True', ('raises', 'TypeError', "data type '>iTrue' not understood", None, None)),
 ('image', 'empty', '(-1,)', 'True', ('raises', 'TypeError', "data type '>iTrue' not understood", None, None)),
 ('image', 'empty', '24', 'True', ('raises', 'TypeError', "data type '>iTrue' not understood", None, None)),
 ('image', 'empty', '12', 'True', ('raises', 'TypeError', "data type '>iTrue' not understood", None, None)),
 ('image', 'empty', '[4, 6]', 'True', ('raises', 'TypeError', "data type '>iTrue' not understood", None, None)),
 ('image', 'empty', '(2.0, 3)', 'True', ('raises', 'TypeError', "data type '>iTrue' not understood", None, None)),
 ('image', 'empty', 'None', 'True', ('raises', 'TypeError', "data type '>iTrue' not understood", None, None)),
 ('image', 'empty', "'ab'", 'True', ('raises', 'TypeError', "data type '>iTrue' not understood", None, None)),
 ('image', 'empty', '(2, 3)', 'np.int64(4)', ('raises', 'ValueError', 'cannot reshape array of size 0 into shape (2,3)', None, None)),
 ('image', 'empty', '(3, 2)', 'np.int64(4)', ('raises', 'ValueError', 'cannot reshape array of size 0 into shape (3,2)', None, None)),
 ('image', 'empty', '(24,)', 'np.int64(4)', ('raises', 'ValueError', 'cannot reshape array of size 0 into shape (24,)', None, None)),
 ('image', 'empty', '(1, 24)', 'np.int64(4)', ('raises', 'ValueError', 'cannot reshape array of size 0 into shape (1,24)', None, None)),
 ('image', 'empty', '(4, 3, 2)', 'np.int64(4)', ('raises', 'ValueError', 'cannot reshape array of size 0 into shape (4,3,2)', None, None)),
 ('image', 'empty', '(6, 4)', 'np.int64(4)', ('raises', 'ValueError', 'cannot reshape array of size 0 into shape (6,4)', None, None)),
 ('image', 'empty', '(12, 2)', 'np.int64(4)', ('raises', 'ValueError', 'cannot reshape array of size 0 into shape (12,2)', None, None)),
 ('image', 'empty', '(3, 8)', 'np.int64(4)', ('raises', 'ValueError', 'cannot reshape array of size 0 into shape (3,8)', None, None)),
 ('image', 'empty', '(0, 5)', 'np.int64(4)', ('returns', ('ndarray', '>i4', (0, 5), (20, 4), False, True, False, []))),
 ('image', 'empty', '()', 'np.int64(4)', ('raises', 'ValueError', 'cannot reshape array of size 0 into shape ()', None, None)),
 ('image', 'empty', '(-1, 3)', 'np.int64(4)', ('returns', ('ndarray', '>i4', (0, 3), (12, 4), False, True, False, []))),
 ('image', 'empty', '(-1,)', 'np.int64(4)', ('returns', ('ndarray', '>i4', (0,), (4,), False, True, False, []))),
 ('image', 'empty', '24', 'np.int64(4)', ('raises', 'ValueError', 'cannot reshape array of size 0 into shape (24,)', None, None)),
 ('image', 'empty', '12', 'np.int64(4)', ('raises', 'ValueError', 'cannot reshape array of size 0 into shape (12,)', None, None)),
 ('image', 'empty', '[4, 6]', 'np.int64(4)', ('raises', 'ValueError', 'cannot reshape array of size 0 into shape (4,6)', None, None)),
 ('image', 'empty', '(2.0, 3)', 'np.int64(4)', ('raises', 'TypeError', "'float' object cannot be interpreted as an integer", None, None)),
 ('image', 'empty', 'None', 'np.int64(4)', ('returns', ('ndarray', '>i4', (0,), (4,), False, True, False, []))),
 ('image', 'empty', "'ab'", 'np.int64(4)', ('raises', 'TypeError', "'str' object cannot be interpreted as an integer", None, None)),
 ('image', 'odd', '(2, 3)', '1', ('raises', 'ValueError', 'cannot reshape array of size 23 into shape (2,3)', None, None)),
 ('image', 'odd', '(-1,)', '1',
  ('returns',
   ('ndarray', '|i1', (23,), (1,), False, True, False,
    [17, 24, 31, 38, 45, 52, 59, 66, 73, 80, 87, 94, 101, 108, 115, 122, -127, -120, -113, -106, -99, -92, -85]))),
 ('image', 'odd', '(24,)', '1', ('raises', 'ValueError', 'cannot reshape array of size 23 into shape (24,)', None, None)),
 ('image', 'odd', '(2, 3)', '2', ('raises', 'ValueError', 'buffer size must be a multiple of element size', None, None)),
 ('image', 'odd', '(-1,)', '2', ('raises', 'ValueError', 'buffer size must be a multiple of element size', None, None)),
 ('image', 'odd', '(24,)', '2', ('raises', 'ValueError', 'buffer size must be a multiple of element size', None, None)),
 ('image', 'odd', '(2, 3)', '4', ('raises', 'ValueError', 'buffer size must be a multiple of element size', None, None)),
 ('image', 'odd', '(-1,)', '4', ('raises', 'ValueError', 'buffer size must be a multiple of element size', None, None)),
 ('image', 'odd', '(24,)', '4', ('raises', 'ValueError', 'buffer size must be a multiple of element size', None, None)),
 ('image', 'odd', '(2, 3)', '8', ('raises', 'ValueError', 'buffer size must be a multiple of element size', None, None)),
 ('image', 'odd', '(-1,)', '8', ('raises', 'ValueError', 'buffer size must be a multiple of element size', None, None)),
 ('image', 'odd', '(24,)', '8', ('raises', 'ValueError', 'buffer size must be a multiple of element size', None, None)),
 ('image', 'odd', '(2, 3)', '3', ('raises', 'TypeError', "data type '>i3' not understood", None, None)),
 ('image', 'odd', '(-1,)', '3', ('raises', 'TypeError', "data type '>i3' not understood", None, None)),
 ('image', 'odd', '(24,)', '3', ('raises', 'TypeError', "data type '>i3' not understood", None, None)),
 ('image', 'odd', '(2, 3)', '0', ('raises', 'TypeError', "data type '>i0' not understood", None, None)),
 ('image', 'odd', '(-1,)', '0', ('raises', 'TypeError', "data type '>i0' not understood", None, None)),
 ('image', 'odd', '(24,)', '0', ('raises', 'TypeError', "data type '>i0' not understood", None, None)),
 ('image', 'odd', '(2, 3)', '16', ('raises', 'TypeError', "data type '>i16' not understood", None, None)),
 ('image', 'odd', '(-1,)', '16', ('raises', 'TypeError', "data type '>i16' not understood", None, None)),
 ('image', 'odd', '(24,)', '16', ('raises', 'TypeError', "data type '>i16' not understood", None, None)),
 ('image', 'odd', '(2, 3)', '-1', ('raises', 'TypeError', "data type '>i-1' not understood", None, None)),
 ('image', 'odd', '(-1,)', '-1', ('raises', 'TypeError', "data type '>i-1' not understood", None, None)),
 ('image', 'odd', '(24,)', '-1', ('raises', 'TypeError', "data type '>i-1' not understood", None, None)),
 ('image', 'odd', '(2, 3)', "'2'", ('raises', 'ValueError', 'buffer size must be a multiple of element size', None, None)),
 ('image', 'odd', '(-1,)', "'2'", ('raises', 'ValueError', 'buffer size must be a multiple of element size', None, None)),
 ('image', 'odd', '(24,)', "'2'", ('raises', 'ValueError', 'buffer size must be a multiple of element size', None, None)),
 ('image', 'odd', '(2, 3)', '2.0', ('raises', 'TypeError', "data type '>i2.0' not understood", None, None)),
 ('image', 'odd', '(-1,)', '2.0', ('raises', 'TypeError', "data type '>i2.0' not understood", None, None)),
 ('image', 'odd', '(24,)', '2.0', ('raises', 'TypeError', "data type '>i2.0' not understood", None, None)),
 ('image', 'odd', '(2, 3)', 'None', ('raises', 'TypeError', "data type '>iNone' not understood", None, None)),
 ('image', 'odd', '(-1,)', 'None', ('raises', 'TypeError', "data type '>iNone' not understood", None, None)),
 ('image', 'odd', '(24,)', 'None', ('raises', 'TypeError', "data type '>iNone' not understood", None, None)),
 ('image', 'odd', '(2, 3)', 'True', ('raises', 'TypeError', "data type '>iTrue' not understood", None, None)),
 ('image', 'odd', '(-1,)', 'True', ('raises', 'TypeError', "data type '>iTrue' not understood", None, None)),
 ('image', 'odd', '(24,)', 'True', ('raises', 'TypeError', "data type '>iTrue' not understood", None, None)),
 ('image', 'odd', '(2, 3)', 'np.int64(4)', ('raises', 'ValueError', 'buffer size must be a multiple of element size', None, None)),
 ('image', 'odd', '(-1,)', 'np.int64(4)', ('raises', 'ValueError', 'buffer size must be a multiple of element size', None, None)),
 ('image', 'odd', '(24,)', 'np.int64(4)', ('raises', 'ValueError', 'buffer size must be a multiple of element size', None, None)),
 ('image', 'array', '(2, 3)', '1', ('raises', 'ValueError', 'cannot reshape array of size 24 into shape (2,3)', None, None)),
 ('image', 'array', '(-1,)', '1',
  ('returns',
   ('ndarray', '|i1', (24,), (1,), False, True, False,
    [17, 24, 31, 38, 45, 52, 59, 66, 73, 80, 87, 94, 101, 108, 115, 122, -127, -120, -113, -106, -99, -92, -85, -78]))),
 ('image', 'array', '(24,)', '1',
  ('returns',
   ('ndarray', '|i1', (24,), (1,), False, True, False,
    [17, 24, 31, 38, 45, 52, 59, 66, 73, 80, 87, 94, 101, 108, 115, 122, -127, -120, -113, -106, -99, -92, -85, -78]))),
 ('image', 'array', '(2, 3)', '2', ('raises', 'ValueError', 'cannot reshape array of size 12 into shape (2,3)', None, None)),
 ('image', 'array', '(-1,)', '2',
  ('returns',
   ('ndarray', '>i2', (12,), (2,), False, True, False, [4376, 7974, 11572, 15170, 18768, 22366, 25964, 29562, -32376, -28778, -25180, -21582]))),
 ('image', 'array', '(24,)', '2', ('raises', 'ValueError', 'cannot reshape array of size 12 into shape (24,)', None, None)),
 ('image', 'array', '(2, 3)', '4',
  ('returns', ('ndarray', '>i4', (2, 3), (12, 4), False, True, False, [[286793510, 758397762, 1230002014], [1701606266, -2121756778, -1650152526]]))),
 ('image', 'array', '(-1,)', '4',
  ('returns', ('ndarray', '>i4', (6,), (4,), False, True, False, [286793510, 758397762, 1230002014, 1701606266, -2121756778, -1650152526]))),
 ('image', 'array', '(24,)', '4', ('raises', 'ValueError', 'cannot reshape array of size 6 into shape (24,)', None, None)),
 ('image', 'array', '(2, 3)', '8', ('raises', 'ValueError', 'cannot reshape array of size 3 into shape (2,3)', None, None)),
 ('image', 'array', '(-1,)', '8',
  ('returns', ('ndarray', '>i8', (3,), (8,), False, True, False, [1231768746913446722, 5282818425845740410, -9112875968931517518]))),
 ('image', 'array', '(24,)', '8', ('raises', 'ValueError', 'cannot reshape array of size 3 into shape (24,)', None, None)),
 ('image', 'array', '(2, 3)', '3', ('raises', 'TypeError', "data type '>i3' not understood", None, None)),
 ('image', 'array', '(-1,)', '3', ('raises', 'TypeError', "data type '>i3' not understood", None, None)),
 ('image', 'array', '(24,)', '3', ('raises', 'TypeError', "data type '>i3' not understood", None, None)),
 ('image', 'array', '(2, 3)', '0', ('raises', 'TypeError', "data type '>i0' not understood", None, None)),
 ('image', 'array', '(-1,)', '0', ('raises', 'TypeError', "data type '>i0' not understood", None, None)),
 ('image', 'array', '(24,)', '0', ('raises', 'TypeError', "data type '>i0' not understood", None, None)),
 ('image', 'array', '(2, 3)', '16', ('raises', 'TypeError', "data type '>i16' not understood", None, None)),
 ('image', 'array', '(-1,)', '16', ('raises', 'TypeError', "data type '>i16' not understood", None, None)),
 ('image', 'array', '(24,)', '16', ('raises', 'TypeError', "data type '>i16' not understood", None, None)),
 ('image', 'array', '(2, 3)', '-1', ('raises', 'TypeError', "data type '>i-1' not understood", None, None)),
 ('image', 'array', '(-1,)', '-1', ('raises', 'TypeError', "data type '>i-1' not understood", None, None)),
 ('image', 'array', '(24,)', '-1', ('raises', 'TypeError', "data type '>i-1' not understood", None, None)),
 ('image', 'array', '(2, 3)', "'2'", ('raises', 'ValueError', 'cannot reshape array of size 12 into shape (2,3)', None, None)),
 ('image', 'array', '(-1,)', "'2'",
  ('returns',
   ('ndarray', '>i2', (12,), (2,), False, True, False, [4376, 7974, 11572, 15170, 18768, 22366, 25964, 29562, -32376, -28778, -25180, -21582]))),
 ('image', 'array', '(24,)', "'2'", ('raises', 'ValueError', 'cannot reshape array of size 12 into shape (24,)', None, None)),
 ('image', 'array', '(2, 3)', '2.0', ('raises', 'TypeError', "data type '>i2.0' not understood", None, None)),
 ('image', 'array', '(-1,)', '2.0', ('raises', 'TypeError', "data type '>i2.0' not understood", None, None)),
 ('image', 'array', '(24,)', '2.0', ('raises', 'TypeError', "data type '>i2.0' not understood", None, None)),
 ('image', 'array', '(2, 3)', 'None', ('raises', 'TypeError', "data type '>iNone' not understood", None, None)),
 ('image', 'array', '(-1,)', 'None', ('raises', 'TypeError', "data type '>iNone' not understood", None, None)),
 ('image', 'array', '(24,)', 'None', ('raises', 'TypeError', "data type '>iNone' not understood", None, None)),
 ('image', 'array', '(2, 3)', 'True', ('raises', 'TypeError', "data type '>iTrue' not understood", None, None)),
 ('image', 'array', '(-1,)', 'True', ('raises', 'TypeError', "data type '>iTrue' not understood", None, None)),
 ('image', 'array', '(24,)', 'True', ('raises', 'TypeError', "data type '>iTrue' not understood", None, None)),
 ('image', 'array', '(2, 3)', 'np.int64(4)',
  ('returns', ('ndarray', '>i4', (2, 3), (12, 4), False, True, False, [[286793510, 758397762, 1230002014], [1701606266, -2121756778, -1650152526]]))),
 ('image', 'array', '(-1,)', 'np.int64(4)',
  ('returns', ('ndarray', '>i4', (6,), (4,), False, True, False, [286793510, 758397762, 1230002014, 1701606266, -2121756778, -1650152526]))),
 ('image', 'array', '(24,)', 'np.int64(4)', ('raises', 'ValueError', 'cannot reshape array of size 6 into shape (24,)', None, None)),
 ('image', 'str', '(2, 3)', '1', ('raises', 'TypeError', "a bytes-like object is required, not 'str'", None, None)),
 ('image', 'str', '(-1,)', '1', ('raises', 'TypeError', "a bytes-like object is required, not 'str'", None, None)),
 ('image', 'str', '(24,)', '1', ('raises', 'TypeError', "a bytes-like object is required, not 'str'", None, None)),
 ('image', 'str', '(2, 3)', '2', ('raises', 'TypeError', "a bytes-like object is required, not 'str'", None, None)),
 ('image', 'str', '(-1,)', '2', ('raises', 'TypeError', "a bytes-like object is required, not 'str'", None, None)),
 ('image', 'str', '(24,)', '2', ('raises', 'TypeError', "a bytes-like object is required, not 'str'", None, None)),
 ('image', 'str', '(2, 3)', '4', ('raises', 'TypeError', "a bytes-like object is required, not 'str'", None, None)),
 ('image', 'str', '(-1,)', '4', ('raises', 'TypeError', "a bytes-like object is required, not 'str'", None, None)),
 ('image', 'str', '(24,)', '4', ('raises', 'TypeError', "a bytes-like object is required, not 'str'", None, None)),
 ('image', 'str', '(2, 3)', '8', ('raises', 'TypeError', "a bytes-like object is required, not 'str'", None, None)),
 ('image', 'str', '(-1,)', '8', ('raises', 'TypeError', "a bytes-like object is required, not 'str'", None, None)),
 ('image', 'str', '(24,)', '8', ('raises', 'TypeError', "a bytes-like object is required, not 'str'", None, None)),
 ('image', 'str', '(2, 3)', '3', ('raises', 'TypeError', "data type '>i3' not understood", None, None)),
 ('image', 'str', '(-1,)', '3', ('raises', 'TypeError', "data type '>i3' not understood", None, None)),
 ('image', 'str', '(24,)', '3', ('raises', 'TypeError', "data type '>i3' not understood", None, None)),
 ('image', 'str', '(2, 3)', '0', ('raises', 'TypeError', "data type '>i0' not understood", None, None)),
 ('image', 'str', '(-1,)', '0', ('raises', 'TypeError', "data type '>i0' not understood", None, None)),
 ('image', 'str', '(24,)', '0', ('raises', 'TypeError', "data type '>i0' not understood", None, None)),
 ('image', 'str', '(2, 3)', '16', ('raises', 'TypeError', "data type '>i16' not understood", None, None)),
 ('image', 'str', '(-1,)', '16', ('raises', 'TypeError', "data type '>i16' not understood", None, None)),
 ('image', 'str', '(24,)', '16', ('raises', 'TypeError', "data type '>i16' not understood", None, None)),
 ('image', 'str', '(2, 3)', '-1', ('raises', 'TypeError', "data type '>i-1' not understood", None, None)),
 ('image', 'str', '(-1,)', '-1', ('raises', 'TypeError', "data type '>i-1' not understood", None, None)),
 ('image', 'str', '(24,)', '-1', ('raises', 'TypeError', "data type '>i-1' not understood", None, None)),
 ('image', 'str', '(2, 3)', "'2'", ('raises', 'TypeError', "a bytes-like object is required, not 'str'", None, None)),
 ('image', 'str', '(-1,)', "'2'", ('raises', 'TypeError', "a bytes-like object is required, not 'str'", None, None)),
 ('image', 'str', '(24,)', "'2'", ('raises', 'TypeError', "a bytes-like object is required, not 'str'", None, None)),
 ('image', 'str', '(2, 3)', '2.0', ('raises', 'TypeError', "data type '>i2.0' not understood", None, None)),
 ('image', 'str', '(-1,)', '2.0', ('raises', 'TypeError', "data type '>i2.0' not understood", None, None)),
 ('image', 'str', '(24,)', '2.0', ('raises', 'TypeError', "data type '>i2.0' not understood", None, None)),
 ('image', 'str', '(2, 3)', 'None', ('raises', 'TypeError', "data type '>iNone' not understood", None, None)),
 ('image', 'str', '(-1,)', 'None', ('raises', 'TypeError', "data type '>iNone' not understood", None, None)),
 ('image', 'str', '(24,)', 'None', ('raises', 'TypeError', "data type '>iNone' not understood", None, None)),
 ('image', 'str', '(2, 3)', 'True', ('raises', 'TypeError', "data type '>iTrue' not understood", None, None)),
 ('image', 'str', '(-1,)', 'True', ('raises', 'TypeError', "data type '>iTrue' not understood", None, None)),
 ('image', 'str', '(24,)', 'True', ('raises', 'TypeError', "data type '>iTrue' not understood", None, None)),
 ('image', 'str', '(2, 3)', 'np.int64(4)', ('raises', 'TypeError', "a bytes-like object is required, not 'str'", None, None)),
 ('image', 'str', '(-1,)', 'np.int64(4)', ('raises', 'TypeError', "a bytes-like object is required, not 'str'", None, None)),
 ('image', 'str', '(24,)', 'np.int64(4)', ('raises', 'TypeError', "a bytes-like object is required, not 'str'", None, None)),
 ('image', 'none', '(2, 3)', '1', ('raises', 'TypeError', "a bytes-like object is required, not 'NoneType'", None, None)),
 ('image', 'none', '(-1,)', '1', ('raises', 'TypeError', "a bytes-like object is required, not 'NoneType'", None, None)),
 ('image', 'none', '(24,)', '1', ('raises', 'TypeError', "a bytes-like object is required, not 'NoneType'", None, None)),
 ('image', 'none', '(2, 3)', '2', ('raises', 'TypeError', "a bytes-like object is required, not 'NoneType'", None, None)),
 ('image', 'none', '(-1,)', '2', ('raises', 'TypeError', "a bytes-like object is required, not 'NoneType'", None, None)),
 ('image', 'none', '(24,)', '2', ('raises', 'TypeError', "a bytes-like object is required, not 'NoneType'", None, None)),
 ('image', 'none', '(2, 3)', '4', ('raises', 'TypeError', "a bytes-like object is required, not 'NoneType'", None, None)),
 ('image', 'none', '(-1,)', '4', ('raises', 'TypeError', "a bytes-like object is required, not 'NoneType'", None, None)),
 ('image', 'none', '(24,)', '4', ('raises', 'TypeError', "a bytes-like object is required, not 'NoneType'", None, None)),
 ('image', 'none', '(2, 3)', '8', ('raises', 'TypeError', "a bytes-like object is required, not 'NoneType'", None, None)),
 ('image', 'none', '(-1,)', '8', ('raises', 'TypeError', "a bytes-like object is required, not 'NoneType'", None, None)),
 ('image', 'none', '(24,)', '8', ('raises', 'TypeError', "a bytes-like object is required, not 'NoneType'", None, None)),
 ('image', 'none', '(2, 3)', '3', ('raises', 'TypeError', "data type '>i3' not understood", None, None)),
 ('image', 'none', '(-1,)', '3', ('raises', 'TypeError', "data type '>i3' not understood", None, None)),
 ('image', 'none', '(24,)', '3', ('raises', 'TypeError', "data type '>i3' not understood", None, None)),
 ('image', 'none', '(2, 3)', '0', ('raises', 'TypeError', "data type '>i0' not understood", None, None)),
 ('image', 'none', '(-1,)', '0', ('raises', 'TypeError', "data type '>i0' not understood", None, None)),
 ('image', 'none', '(24,)', '0', ('raises', 'TypeError', "data type '>i0' not understood", None, None)),
 ('image', 'none', '(2, 3)', '16', ('raises', 'TypeError', "data type '>i16' not understood", None, None)),
 ('image', 'none', '(-1,)', '16', ('raises', 'TypeError', "data type '>i16' not understood", None, None)),
 ('image', 'none', '(24,)', '16', ('raises', 'TypeError', "data type '>i16' not understood", None, None)),
 ('image', 'none', '(2, 3)', '-1', ('raises', 'TypeError', "data type '>i-1' not understood", None, None)),
 ('image', 'none', '(-1,)', '-1', ('raises', 'TypeError', "data type '>i-1' not understood", None, None)),
 ('image', 'none', '(24,)', '-1', ('raises', 'TypeError', "data type '>i-1' not understood", None, None)),
 ('image', 'none', '(2, 3)', "'2'", ('raises', 'TypeError', "a bytes-like object is required, not 'NoneType'", None, None)),
 ('image', 'none', '(-1,)', "'2'", ('raises', 'TypeError', "a bytes-like object is required, not 'NoneType'", None, None)),
 ('image', 'none', '(24,)', "'2'", ('raises', 'TypeError', "a bytes-like object is required, not 'NoneType'", None, None)),
 ('image', 'none', '(2, 3)', '2.0', ('raises', 'TypeError', "data type '>i2.0' not understood", None, None)),
 ('image', 'none', '(-1,)', '2.0', ('raises', 'TypeError', "data type '>i2.0' not understood", None, None)),
 ('image', 'none', '(24,)', '2.0', ('raises', 'TypeError', "data type '>i2.0' not understood", None, None)),
 ('image', 'none', '(2, 3)', 'None', ('raises', 'TypeError', "data type '>iNone' not understood", None, None)),
 ('image', 'none', '(-1,)', 'None', ('raises', 'TypeError', "data type '>iNone' not understood", None, None)),
 ('image', 'none', '(24,)', 'None', ('raises', 'TypeError', "data type '>iNone' not understood", None, None)),
 ('image', 'none', '(2, 3)', 'True', ('raises', 'TypeError', "data type '>iTrue' not understood", None, None)),
 ('image', 'none', '(-1,)', 'True', ('raises', 'TypeError', "data type '>iTrue' not understood", None, None)),
 ('image', 'none', '(24,)', 'True', ('raises', 'TypeError', "data type '>iTrue' not understood", None, None)),
 ('image', 'none', '(2, 3)', 'np.int64(4)', ('raises', 'TypeError', "a bytes-like object is required, not 'NoneType'", None, None)),
 ('image', 'none', '(-1,)', 'np.int64(4)', ('raises', 'TypeError', "a bytes-like object is required, not 'NoneType'", None, None)),
 ('image', 'none', '(24,)', 'np.int64(4)', ('raises', 'TypeError', "a bytes-like object is required, not 'NoneType'", None, None)),
 ('image', 'list', '(2, 3)', '1', ('raises', 'TypeError', "a bytes-like object is required, not 'list'", None, None)),
 ('image', 'list', '(-1,)', '1', ('raises', 'TypeError', "a bytes-like object is required, not 'list'", None, None)),
 ('image', 'list', '(24,)', '1', ('raises', 'TypeError', "a bytes-like object is required, not 'list'", None, None)),
 ('image', 'list', '(2, 3)', '2', ('raises', 'TypeError', "a bytes-like object is required, not 'list'", None, None)),
 ('image', 'list', '(-1,)', '2', ('raises', 'TypeError', "a bytes-like object is required, not 'list'", None, None)),
 ('image', 'list', '(24,)', '2', ('raises', 'TypeError', "a bytes-like object is required, not 'list'", None, None)),
 ('image', 'list', '(2, 3)', '4', ('raises', 'TypeError', "a bytes-like object is required, not 'list'", None, None)),
 ('image', 'list', '(-1,)', '4', ('raises', 'TypeError', "a bytes-like object is required, not 'list'", None, None)),
 ('image', 'list', '(24,)', '4', ('raises', 'TypeError', "a bytes-like object is required, not 'list'", None, None)),
 ('image', 'list', '(2, 3)', '8', ('raises', 'TypeError', "a bytes-like object is required, not 'list'", None, None)),
 ('image', 'list', '(-1,)', '8', ('raises', 'TypeError', "a bytes-like object is required, not 'list'", None, None)),
 ('image', 'list', '(24,)', '8', ('raises', 'TypeError', "a bytes-like object is required, not 'list'", None, None)),
 ('image', 'list', '(2, 3)', '3', ('raises', 'TypeError', "data type '>i3' not understood", None, None)),
 ('image', 'list', '(-1,)', '3', ('raises', 'TypeError', "data type '>i3' not understood", None, None)),
 ('image', 'list', '(24,)', '3', ('raises', 'TypeError', "data type '>i3' not understood", None, None)),
 ('image', 'list', '(2, 3)', '0', ('raises', 'TypeError', "data type '>i0' not understood", None, None)),
 ('image', 'list', '(-1,)', '0', ('raises', 'TypeError', "data type '>i0' not understood", None, None)),
 ('image', 'list', '(24,)', '0', ('raises', 'TypeError', "data type '>i0' not understood", None, None)),
 ('image', 'list', '(2, 3)', '16', ('raises', 'TypeError', "data type '>i16' not understood", None, None)),
 ('image', 'list', '(-1,)', '16', ('raises', 'TypeError', "data type '>i16' not understood", None, None)),
 ('image', 'list', '(24,)', '16', ('raises', 'TypeError', "data type '>i16' not understood", None, None)),
 ('image', 'list', '(2, 3)', '-1', ('raises', 'TypeError', "data type '>i-1' not understood", None, None)),
 ('image', 'list', '(-1,)', '-1', ('raises', 'TypeError', "data type '>i-1' not understood", None, None)),
 ('image', 'list', '(24,)', '-1', ('raises', 'TypeError', "data type '>i-1' not understood", None, None)),
 ('image', 'list', '(2, 3)', "'2'", ('raises', 'TypeError', "a bytes-like object is required, not 'list'", None, None)),
 ('image', 'list', '(-1,)', "'2'", ('raises', 'TypeError', "a bytes-like object is required, not 'list'", None, None)),
 ('image', 'list', '(24,)', "'2'", ('raises', 'TypeError', "a bytes-like object is required, not 'list'", None, None)),
 ('image', 'list', '(2, 3)', '2.0', ('raises', 'TypeError', "data type '>i2.0' not understood", None, None)),
 ('image', 'list', '(-1,)', '2.0', ('raises', 'TypeError', "data type '>i2.0' not understood", None, None)),
 ('image', 'list', '(24,)', '2.0', ('raises', 'TypeError', "data type '>i2.0' not understood", None, None)),
 ('image', 'list', '(2, 3)', 'None', ('raises', 'TypeError', "data type '>iNone' not understood", None, None)),
 ('image', 'list', '(-1,)', 'None', ('raises', 'TypeError', "data type '>iNone' not understood", None, None)),
 ('image', 'list', '(24,)', 'None', ('raises', 'TypeError', "data type '>iNone' not understood", None, None)),
 ('image', 'list', '(2, 3)', 'True', ('raises', 'TypeError', "data type '>iTrue' not understood", None, None)),
 ('image', 'list', '(-1,)', 'True', ('raises', 'TypeError', "data type '>iTrue' not understood", None, None)),
 ('image', 'list', '(24,)', 'True', ('raises', 'TypeError', "data type '>iTrue' not understood", None, None)),
 ('image', 'list', '(2, 3)', 'np.int64(4)', ('raises', 'TypeError', "a bytes-like object is required, not 'list'", None, None)),
 ('image', 'list', '(-1,)', 'np.int64(4)', ('raises', 'TypeError', "a bytes-like object is required, not 'list'", None, None)),
 ('image', 'list', '(24,)', 'np.int64(4)', ('raises', 'TypeError', "a bytes-like object is required, not 'list'", None, None)),
 ('image-keywords',
  ('ndarray', '>i2', (3, 4), (8, 2), False, True, False,
   [[4376, 7974, 11572, 15170], [18768, 22366, 25964, 29562], [-32376, -28778, -25180, -21582]])),
 ('image-view',
  ('ndarray', '>i2', (12,), (2,), True, True, False, [-232, 7974, 11572, 15170, 18768, 22366, 25964, 29562, -32376, -28778, -25180, -21582]))]
# fmt: on


def main():
    observed = observe()
    if "--record" in sys.argv:
        import pprint

        pprint.pprint(observed, width=150, compact=True)
        return

    assert len(observed) == len(EXPECTED), (len(observed), len(EXPECTED))
    for new, old in zip(observed, EXPECTED):
        assert new == old, f"\nobserved: {new!r}\nexpected: {old!r}"
    print(f"ok: {len(observed)} observations identical")


def test_equivalence():
    assert observe() == EXPECTED


if __name__ == "__main__":
    main()
