"""Equivalence check for refactoring 2: sar_leader/attitude.py (transform_time, prepend_dim, transform_section, transform_attitude)

Self-contained.  Run as a script

    cd /tmp/wt3/e15 && PYTHONPATH=/tmp/wt3/e15 /venv/bin/python _eq/2/equiv.py

(exit status 0 = all cases equal the recorded outcomes) or through pytest

    cd /tmp/wt3/e15 && PYTHONPATH=/tmp/wt3/e15 /venv/bin/python -m pytest -q -p no:cacheprovider _eq/2/equiv.py

``EXPECTED`` at the bottom was recorded with ``equiv.py --record`` from the UNCHANGED code
(clean HEAD).  Every case stores either the canonical text of the result (types, order and
values of everything reachable, optionally also which containers are shared) or, if that text
is long, its sha256; raising cases store exception type and message.
"""
# ruff: noqa
# fmt: off
import hashlib
import io as _io
import pprint
import random
import struct as _struct
import sys

import construct as C
import numpy as np

import ceos_alos2
from ceos_alos2 import datatypes as D
from ceos_alos2.hierarchy import Group, Variable

# --------------------------------------------------------------------------
# canonical, type-preserving text form of arbitrary results
# --------------------------------------------------------------------------


def canon(obj):
    """Convert a result into plain nested tuples that record types, order and values."""
    if isinstance(obj, Group):
        return (
            "Group",
            ("path", obj.path),
            ("url", obj.url),
            ("attrs", canon(obj.attrs)),
            ("data", [(name, canon(value)) for name, value in obj.data.items()]),
        )
    if isinstance(obj, Variable):
        return ("Variable", canon(obj.dims), canon(obj.data), canon(obj.attrs))
    if isinstance(obj, np.ndarray):
        if obj.dtype.kind in "mM":
            values = obj.astype("int64").tolist()
        else:
            values = obj.tolist()
        return ("ndarray", str(obj.dtype), tuple(obj.shape), repr(values))
    if isinstance(obj, np.generic):
        return ("npscalar", type(obj).__name__, str(obj.dtype), repr(obj.item()))
    if isinstance(obj, dict):
        return (type(obj).__name__, [(canon(k), canon(v)) for k, v in obj.items()])
    if isinstance(obj, (list, tuple)):
        return (type(obj).__name__, [canon(v) for v in obj])
    if isinstance(obj, (bool, int, float, complex, str, bytes, type(None))):
        return (type(obj).__name__, repr(obj))
    if callable(obj):
        return ("callable", type(obj).__name__)
    return ("object", type(obj).__name__, repr(obj))


def aliasing(obj):
    """Record which mutable containers inside a result are the same object.

    Returns the list of groups (as lists of paths) of dict / list objects that occur more
    than once in the result.
    """
    seen = {}

    def visit(value, path):
        if isinstance(value, Group):
            visit(value.attrs, path + ("@attrs",))
            visit(value.data, path + ("@data",))
        elif isinstance(value, Variable):
            visit(value.dims, path + ("@dims",))
            visit(value.data, path + ("@vdata",))
            visit(value.attrs, path + ("@attrs",))
        elif isinstance(value, dict):
            seen.setdefault(id(value), []).append(path)
            for k, v in value.items():
                visit(v, path + (k,))
        elif isinstance(value, (list, tuple)):
            if isinstance(value, list):
                seen.setdefault(id(value), []).append(path)
            for i, v in enumerate(value):
                visit(v, path + (i,))
        elif isinstance(value, np.ndarray):
            seen.setdefault(id(value), []).append(path)

    visit(obj, ())
    return sorted(paths for paths in seen.values() if len(paths) > 1)


def outcome(thunk, with_aliasing=False):
    """Run a case and describe what happened: the result or the exception."""
    try:
        result = thunk()
    except Exception as e:  # noqa: BLE001
        text = pprint.pformat(("raises", type(e).__name__, str(e)), width=100)
    else:
        described = ("returns", canon(result))
        if with_aliasing:
            described += (("aliasing", aliasing(result)),)
        text = pprint.pformat(described, width=100)
    if len(text) > 700:
        digest = hashlib.sha256(text.encode()).hexdigest()
        return f"sha256:{digest}:len={len(text)}"
    return text


# --------------------------------------------------------------------------
# synthetic CEOS bytes for any of the library's construct definitions
# --------------------------------------------------------------------------


def _evaluate(value, ctx):
    return value(ctx) if callable(value) else value


class Synth:
    """Generate bytes which the given construct definition parses.

    Walks the definition; leaves are filled with seeded pseudo random ASCII text of the
    declared width.  ``overrides`` maps a path suffix (tuple of member names) to the value to
    write. ``blank`` is the probability of leaving a numeric / text leaf blank.
    """

    def __init__(self, seed, overrides=None, blank=0.0):
        self.rng = random.Random(seed)
        self.overrides = dict(overrides or {})
        self.blank = blank

    def lookup(self, path):
        names = tuple(p for p in path if isinstance(p, str))
        for n in range(len(names)):
            if names[n:] in self.overrides:
                return True, self.overrides[names[n:]]
        return False, None

    @staticmethod
    def _width(sc, ctx):
        # datatypes.* adapters wrap construct.PaddedString = StringEncoded(FixedSized(n, ...))
        return _evaluate(sc.subcon.subcon.length, ctx)

    def _fit(self, text, n, right=False):
        if len(text) > n:
            text = text[:n]
        return (text.rjust(n) if right else text.ljust(n)).encode("ascii")

    def integer(self, n, path):
        found, value = self.lookup(path)
        if found:
            return self._fit(str(value), n, right=True)
        if self.rng.random() < self.blank:
            return b" " * n
        digits = self.rng.randint(1, max(1, min(n, 5)))
        return self._fit(str(self.rng.randrange(10**digits)), n, right=True)

    def floating(self, n, path):
        found, value = self.lookup(path)
        if found:
            if isinstance(value, str):
                return self._fit(value, n, right=True)
        elif self.rng.random() < self.blank:
            return b" " * n
        else:
            value = self.rng.uniform(-1000, 1000)
        if n >= 14:
            text = f"{value:.{n - 9}E}"
        else:
            text = f"{value:.2f}"
        if len(text) > n:
            text = f"{value:.0f}"
        return self._fit(text, n, right=True)

    def text(self, n, path):
        found, value = self.lookup(path)
        if found:
            return self._fit(str(value), n)
        if self.rng.random() < self.blank or n <= 0:
            return b" " * max(n, 0)
        length = self.rng.randint(1, min(n, 12))
        letters = "".join(self.rng.choice("ABCDEFGHIJKLMNOPQRSTUVWXYZ0123456789") for _ in range(length))
        return self._fit(letters, n)

    def build(self, sc, ctx=None, path=()):
        if ctx is None:
            ctx = C.Container(_parsing=True, _building=False, _sizing=False, _params=C.Container())
        if isinstance(sc, C.Renamed):
            return self.build(sc.subcon, ctx, path)
        if isinstance(sc, C.Struct):
            inner = C.Container(
                _=ctx,
                _params=ctx._params,
                _root=None,
                _parsing=True,
                _building=False,
                _sizing=False,
                _io=None,
                _index=ctx.get("_index", None),
            )
            inner._root = inner._.get("_root", ctx)
            out = b""
            for member in sc.subcons:
                chunk = self.build(member, inner, path + (member.name,))
                inner[member.name] = member._parsereport(_io.BytesIO(chunk), inner, "synth")
                out += chunk
            return out
        if isinstance(sc, C.Array):
            count = _evaluate(sc.count, ctx)
            return b"".join(self.build(sc.subcon, ctx, path + (i,)) for i in range(count))
        if isinstance(sc, C.Enum):
            found, value = self.lookup(path)
            if not found:
                value = self.rng.choice(sorted(sc.encmapping.values(), key=str))
            n = self._width(sc.subcon, ctx)
            return self._fit(str(value), n, right=isinstance(sc.subcon, D.AsciiInteger))
        if isinstance(sc, D.AsciiInteger):
            return self.integer(self._width(sc, ctx), path)
        if isinstance(sc, D.AsciiFloat):
            return self.floating(self._width(sc, ctx), path)
        if isinstance(sc, D.PaddedString):
            return self.text(self._width(sc, ctx), path)
        if isinstance(sc, C.FormatField):
            found, value = self.lookup(path)
            if not found:
                value = self.rng.randrange(1, 200)
            return _struct.pack(sc.fmtstr, value)
        if isinstance(sc, C.Adapter):  # Metadata, Factor, AsciiComplex
            return self.build(sc.subcon, ctx, path)
        raise NotImplementedError(f"{type(sc).__name__} at {path}")


# --------------------------------------------------------------------------
# driver
# --------------------------------------------------------------------------


def run_cases(cases):
    results = {}
    for name, thunk, *flags in cases:
        if name in results:
            raise RuntimeError(f"duplicate case name {name}")
        results[name] = outcome(thunk, with_aliasing=bool(flags and flags[0]))
    return results


def check(cases, expected):
    actual = run_cases(cases)
    problems = []
    for name in sorted(set(actual) | set(expected)):
        if actual.get(name) != expected.get(name):
            problems.append(
                f"--- case {name!r}\n    expected: {expected.get(name)}\n    actual:   {actual.get(name)}"
            )
    return actual, problems


def main(cases, expected):
    print("library under test:", ceos_alos2.__file__)
    if "--record" in sys.argv:
        print("EXPECTED = " + pprint.pformat(run_cases(cases), width=110, sort_dicts=False))
        return 0
    actual, problems = check(cases, expected)
    for problem in problems:
        print(problem)
    n_raise = sum(1 for v in actual.values() if v.startswith("('raises'"))
    print(f"{len(actual)} cases ({n_raise} raising), {len(problems)} mismatches")
    return 1 if problems else 0


# --------------------------------------------------------------------------
# cases
# --------------------------------------------------------------------------

import collections
import copy

from ceos_alos2.sar_leader import attitude
from ceos_alos2.sar_leader.attitude import attitude_record
from ceos_alos2.utils import to_dict


def attitude_mapping(seed, n_points, blank=0.0, extra=None):
    overrides = {
        ("preamble", "record_length"): 16 + n_points * 120 + 24,
        ("number_of_points",): n_points,
    }
    overrides.update(extra or {})
    raw = Synth(seed, overrides, blank=blank).build(attitude_record)
    return to_dict(attitude_record.parse(raw))


Pair = collections.namedtuple("Pair", ["values", "attrs"])


def time_cases():
    def run(mapping):
        return lambda: attitude.transform_time(mapping)

    yield "time/lists", run({"day_of_year": [1, 2, 365], "millisecond_of_day": [0, 1, 86_399_999]})
    yield "time/reversed-keys", run({"millisecond_of_day": [5, 6], "day_of_year": [100, 101]})
    yield "time/scalars", run({"day_of_year": 197, "millisecond_of_day": 1234})
    yield "time/arrays", run(
        {"day_of_year": np.array([1, 2]), "millisecond_of_day": np.array([3, 4], dtype="int16")}
    )
    yield "time/tuples", run({"day_of_year": (1, 2), "millisecond_of_day": (3, 4)})
    yield "time/empty-lists", run({"day_of_year": [], "millisecond_of_day": []})
    yield "time/blank-markers", run({"day_of_year": [-1, 5], "millisecond_of_day": [7, -1]})
    yield "time/large", run({"day_of_year": [10**5], "millisecond_of_day": [10**12]})
    yield "time/broadcast", run({"day_of_year": 3, "millisecond_of_day": [1, 2, 3]})
    yield "time/2d", run({"day_of_year": [[1], [2]], "millisecond_of_day": [[1, 2]]})
    yield "time/shape-mismatch", run({"day_of_year": [1, 2], "millisecond_of_day": [1, 2, 3]})
    yield "time/floats", run({"day_of_year": [1.5], "millisecond_of_day": [2.5]})
    yield "time/strings", run({"day_of_year": ["1"], "millisecond_of_day": ["2"]})
    yield "time/none", run({"day_of_year": None, "millisecond_of_day": None})
    yield "time/bools", run({"day_of_year": [True], "millisecond_of_day": [False]})
    yield "time/timedeltas", run(
        {
            "day_of_year": np.array([1], dtype="timedelta64[h]"),
            "millisecond_of_day": np.array([1], dtype="timedelta64[s]"),
        }
    )
    yield "time/empty", run({})
    yield "time/missing-days", run({"millisecond_of_day": [1]})
    yield "time/missing-milliseconds", run({"day_of_year": [1]})
    yield "time/extra-key-last", run({"day_of_year": [1], "millisecond_of_day": [1], "year": [2]})
    yield "time/extra-key-first", run({"year": ["x"], "day_of_year": [1], "millisecond_of_day": [1]})
    yield "time/extra-key-after-bad-value", run({"day_of_year": ["x"], "year": [1]})
    yield "time/integer-key", run({1: [1]})
    yield "time/not-a-mapping", run([("day_of_year", [1]), ("millisecond_of_day", [1])])
    yield "time/none-mapping", run(None)


def prepend_cases():
    def run(dim, var):
        return lambda: attitude.prepend_dim(dim, var)

    shared_attrs = {"units": "deg"}
    yield "prepend/scalar", run("points", 1)
    yield "prepend/none", run("points", None)
    yield "prepend/string", run("points", "abc")
    yield "prepend/list", run("points", [1, 2])
    yield "prepend/array", run("points", np.arange(3))
    yield "prepend/pair", run("points", ([1, 2], shared_attrs)), True
    yield "prepend/empty-tuple", run("points", ())
    yield "prepend/1-tuple", run("points", ([1],))
    yield "prepend/3-tuple", run("points", ("x", [1], {}))
    yield "prepend/namedtuple", run("points", Pair([1], {"a": 1}))
    yield "prepend/dim-list", run(["points"], ([1, 2], {}))
    yield "prepend/dim-none", run(None, 2.5)
    yield "prepend/empty-dict", run("points", {})
    yield "prepend/flat-dict", run("points", {"a": 1, "b": [1, 2], "c": ([3], {"u": 1}), "d": ()})
    nested = {
        "time": np.array([1, 2], dtype="timedelta64[ns]"),
        "attitude": {"pitch": ([1.0, 2.0], shared_attrs), "pitch_error": [True, False]},
        "rates": {"pitch": ([1.0, 2.0], shared_attrs), "deep": {"deeper": {"x": 1}}},
    }
    yield "prepend/nested-dict", run("points", nested), True
    yield "prepend/ordered-dict", run(
        "points", collections.OrderedDict([("b", 1), ("a", collections.OrderedDict(c=(1, {})))])
    )
    yield "prepend/non-string-keys", run("points", {1: 2, (3, 4): [5]})
    yield "prepend/set", run("points", {1})

    def untouched():
        before = copy.deepcopy(nested)
        attitude.prepend_dim("points", nested)
        return canon(before) == canon(nested)

    yield "prepend/input-untouched", untouched


def section_cases():
    def run(mapping):
        def thunk():
            result = attitude.transform_section(mapping)
            kept = sorted(
                str(k) for k in result if k in mapping and result[k] is mapping[k]
            )
            return {"result": result, "passed_through_unchanged": kept}

        return thunk

    units = {"units": "deg"}
    yield "section/empty", run({})
    yield "section/all", run(
        {
            "pitch_error": [0, 1, -1],
            "roll_error": [1, 1, 0],
            "yaw_error": [0, 0, 0],
            "pitch": [(1.0, units), (2.0, units), (3.0, units)],
            "roll": [(4.0, units), (5.0, units), (6.0, units)],
            "yaw": [(7.0, units), (8.0, units), (9.0, units)],
        }
    )
    yield "section/reordered", run(
        {
            "yaw": [(7.0, units)],
            "other": [1, 2],
            "pitch_error": [2],
            "pitch": [(1.0, units)],
        }
    )
    yield "section/unknown-only", run({"a": [1], "b": {"c": 1}, "pitch_errors": [1], "Pitch": 2})
    yield "section/plain-lists", run({"pitch": [1.0, 2.0], "roll": [], "yaw": 5.0})
    yield "section/angle-none", run({"pitch": None})
    yield "section/angle-tuples-of-3", run({"roll": [(1, 2, 3), (4, 5, 6)]})
    yield "section/angle-uneven", run({"roll": [(1, units), (2,)]})
    yield "section/flags-empty", run({"pitch_error": [], "roll_error": (), "yaw_error": ""})
    yield "section/flags-tuple", run({"roll_error": (0, 2)})
    yield "section/flags-strings", run({"yaw_error": ["", "0", "a"]})
    yield "section/flags-mixed", run({"yaw_error": [None, 0.0, float("nan"), [], [0], {}]})
    yield "section/flags-array", run({"pitch_error": np.array([0, 1, 2])})
    yield "section/flags-2d-array", run({"pitch_error": np.array([[0, 1], [2, 3]])})
    yield "section/flags-generator", run({"pitch_error": iter([0, 1])})
    yield "section/flags-string", run({"pitch_error": "ab"})
    yield "section/flags-scalar", run({"pitch_error": 1})
    yield "section/flags-none", run({"roll_error": None})
    yield "section/flags-scalar-after-others", run({"pitch": [(1, units)], "yaw_error": 0, "z": 1})
    yield "section/non-string-keys", run({1: [1], ("pitch",): [2], None: 3})
    yield "section/not-a-mapping", run([("pitch", [1])])
    yield "section/none", run(None)


def attitude_cases():
    def run(mapping):
        return lambda: attitude.transform_attitude(mapping)

    for seed, n_points in ((1, 1), (2, 3), (3, 7), (4, 28)):
        yield f"attitude/parsed/{seed}", run(attitude_mapping(seed, n_points)), True
    yield "attitude/parsed/blanks", run(attitude_mapping(5, 6, blank=0.4)), True
    yield "attitude/parsed/no-points", run(attitude_mapping(6, 0))

    def only_points(seed, n_points):
        return {"data_points": attitude_mapping(seed, n_points)["data_points"]}

    yield "attitude/only-points", run(only_points(7, 2)), True
    yield "attitude/missing-points", run({"number_of_points": 0})
    yield "attitude/empty", run({})
    yield "attitude/none", run(None)
    yield "attitude/list", run([1, 2])
    yield "attitude/points-none", run({"data_points": None})
    yield "attitude/points-empty", run({"data_points": []})
    yield "attitude/points-empty-dict", run({"data_points": {}})
    yield "attitude/points-scalars", run({"data_points": [1, 2]})

    def without(points, *names):
        return {
            "data_points": [{k: v for k, v in p.items() if k not in names} for p in points]
        }

    points = only_points(8, 3)["data_points"]
    yield "attitude/without-time", run(without(points, "time")), True
    yield "attitude/without-rates", run(without(points, "rates")), True
    yield "attitude/without-attitude", run(without(points, "attitude")), True
    yield "attitude/only-time", run(without(points, "attitude", "rates")), True
    yield "attitude/extra-section", run(
        {"data_points": [dict(p, quality={"flag": i}, note="n") for i, p in enumerate(points)]}
    ), True
    yield "attitude/reordered", run(
        {"data_points": [dict(reversed(list(p.items()))) for p in points]}
    ), True
    yield "attitude/already-merged", run(
        {
            "data_points": {
                "time": {"day_of_year": [1, 2], "millisecond_of_day": [3, 4]},
                "attitude": {"pitch": [(1.0, {"units": "deg"}), (2.0, {"units": "deg"})]},
                "rates": {"yaw_error": [0, 1]},
            }
        }
    ), True
    yield "attitude/uneven-points", run(
        {
            "data_points": [
                {"time": {"day_of_year": 1, "millisecond_of_day": 2}, "attitude": {"pitch_error": 0}},
                {"time": {"day_of_year": 1, "millisecond_of_day": 3}, "rates": {"pitch_error": 1}},
            ]
        }
    ), True
    yield "attitude/bad-time-key", run(
        {"data_points": [{"time": {"day_of_year": 1, "second_of_day": 2}}]}
    )
    yield "attitude/time-is-scalar", run({"data_points": [{"time": 1, "attitude": {"pitch": 1}}]})

    def untouched():
        mapping = attitude_mapping(9, 4)
        before = copy.deepcopy(mapping)
        first = attitude.transform_attitude(mapping)
        second = attitude.transform_attitude(mapping)
        return {
            "input_untouched": canon(before) == canon(mapping),
            "repeatable": canon(first) == canon(second),
            "independent_coordinates": (
                first.data["attitude"].attrs["coordinates"]
                is not second.data["attitude"].attrs["coordinates"]
            ),
        }

    yield "attitude/input-untouched-and-repeatable", untouched


def cases():
    yield from time_cases()
    yield from prepend_cases()
    yield from section_cases()
    yield from attitude_cases()


# --------------------------------------------------------------------------
# outcomes recorded from the unchanged code
# --------------------------------------------------------------------------

EXPECTED = {'time/lists': "('returns',\n"
               " ('ndarray', 'timedelta64[ns]', (3,), '[86400000000000, 172800001000000, "
               "31622399999000000]'))",
 'time/reversed-keys': "('returns', ('ndarray', 'timedelta64[ns]', (2,), '[8640000005000000, "
                       "8726400006000000]'))",
 'time/scalars': "('returns', ('npscalar', 'timedelta64', 'timedelta64[ns]', '17020801234000000'))",
 'time/arrays': "('returns', ('ndarray', 'timedelta64[ns]', (2,), '[86400003000000, 172800004000000]'))",
 'time/tuples': "('returns', ('ndarray', 'timedelta64[ns]', (2,), '[86400003000000, 172800004000000]'))",
 'time/empty-lists': "('returns', ('ndarray', 'timedelta64[ns]', (0,), '[]'))",
 'time/blank-markers': "('returns', ('ndarray', 'timedelta64[ns]', (2,), '[-86399993000000, "
                       "431999999000000]'))",
 'time/large': "('raises', 'OverflowError', 'Overflow when converting between datetime64 units')",
 'time/broadcast': "('returns',\n"
                   " ('ndarray', 'timedelta64[ns]', (3,), '[259200001000000, 259200002000000, "
                   "259200003000000]'))",
 'time/2d': "('returns',\n"
            " ('ndarray',\n"
            "  'timedelta64[ns]',\n"
            '  (2, 2),\n'
            "  '[[86400001000000, 86400002000000], [172800001000000, 172800002000000]]'))",
 'time/shape-mismatch': "('raises', 'ValueError', 'operands could not be broadcast together with shapes (2,) "
                        "(3,) ')",
 'time/floats': "('raises', 'ValueError', 'Could not convert object to NumPy timedelta')",
 'time/strings': "('returns', ('ndarray', 'timedelta64[ns]', (1,), '[86400002000000]'))",
 'time/none': "('returns', ('npscalar', 'timedelta64', 'timedelta64[ns]', 'None'))",
 'time/bools': "('returns', ('ndarray', 'timedelta64[ns]', (1,), '[86400000000000]'))",
 'time/timedeltas': "('returns', ('ndarray', 'timedelta64[ns]', (1,), '[1000000000]'))",
 'time/empty': '(\'raises\', \'KeyError\', "\'day_of_year\'")',
 'time/missing-days': '(\'raises\', \'KeyError\', "\'day_of_year\'")',
 'time/missing-milliseconds': '(\'raises\', \'KeyError\', "\'millisecond_of_day\'")',
 'time/extra-key-last': '(\'raises\', \'KeyError\', "\'year\'")',
 'time/extra-key-first': '(\'raises\', \'KeyError\', "\'year\'")',
 'time/extra-key-after-bad-value': "('raises', 'ValueError', 'Could not convert object to NumPy timedelta')",
 'time/integer-key': "('raises', 'KeyError', '1')",
 'time/not-a-mapping': '(\'raises\', \'AttributeError\', "\'list\' object has no attribute \'items\'")',
 'time/none-mapping': '(\'raises\', \'AttributeError\', "\'NoneType\' object has no attribute \'items\'")',
 'prepend/scalar': '(\'returns\', (\'tuple\', [(\'str\', "\'points\'"), (\'int\', \'1\'), (\'dict\', [])]))',
 'prepend/none': '(\'returns\', (\'tuple\', [(\'str\', "\'points\'"), (\'NoneType\', \'None\'), (\'dict\', '
                 '[])]))',
 'prepend/string': '(\'returns\', (\'tuple\', [(\'str\', "\'points\'"), (\'str\', "\'abc\'"), (\'dict\', '
                   '[])]))',
 'prepend/list': '(\'returns\', (\'tuple\', [(\'str\', "\'points\'"), (\'list\', [(\'int\', \'1\'), '
                 "('int', '2')]), ('dict', [])]))",
 'prepend/array': '(\'returns\', (\'tuple\', [(\'str\', "\'points\'"), (\'ndarray\', \'int64\', (3,), \'[0, '
                  "1, 2]'), ('dict', [])]))",
 'prepend/pair': "('returns',\n"
                 " ('tuple',\n"
                 '  [(\'str\', "\'points\'"),\n'
                 "   ('list', [('int', '1'), ('int', '2')]),\n"
                 '   (\'dict\', [((\'str\', "\'units\'"), (\'str\', "\'deg\'"))])]),\n'
                 " ('aliasing', []))",
 'prepend/empty-tuple': '(\'returns\', (\'tuple\', [(\'str\', "\'points\'")]))',
 'prepend/1-tuple': '(\'returns\', (\'tuple\', [(\'str\', "\'points\'"), (\'list\', [(\'int\', \'1\')])]))',
 'prepend/3-tuple': "('returns',\n"
                    ' (\'tuple\', [(\'str\', "\'points\'"), (\'str\', "\'x\'"), (\'list\', [(\'int\', '
                    "'1')]), ('dict', [])]))",
 'prepend/namedtuple': "('returns',\n"
                       " ('tuple',\n"
                       '  [(\'str\', "\'points\'"), (\'list\', [(\'int\', \'1\')]), (\'dict\', [((\'str\', '
                       '"\'a\'"), (\'int\', \'1\'))])]))',
 'prepend/dim-list': "('returns',\n"
                     ' (\'tuple\', [(\'list\', [(\'str\', "\'points\'")]), (\'list\', [(\'int\', \'1\'), '
                     "('int', '2')]), ('dict', [])]))",
 'prepend/dim-none': "('returns', ('tuple', [('NoneType', 'None'), ('float', '2.5'), ('dict', [])]))",
 'prepend/empty-dict': "('returns', ('dict', []))",
 'prepend/flat-dict': "('returns',\n"
                      " ('dict',\n"
                      '  [((\'str\', "\'a\'"), (\'tuple\', [(\'str\', "\'points\'"), (\'int\', \'1\'), '
                      "('dict', [])])),\n"
                      '   ((\'str\', "\'b\'"),\n'
                      '    (\'tuple\', [(\'str\', "\'points\'"), (\'list\', [(\'int\', \'1\'), (\'int\', '
                      "'2')]), ('dict', [])])),\n"
                      '   ((\'str\', "\'c\'"),\n'
                      "    ('tuple',\n"
                      '     [(\'str\', "\'points\'"), (\'list\', [(\'int\', \'3\')]), (\'dict\', [((\'str\', '
                      '"\'u\'"), (\'int\', \'1\'))])])),\n'
                      '   ((\'str\', "\'d\'"), (\'tuple\', [(\'str\', "\'points\'")]))]))',
 'prepend/nested-dict': 'sha256:b8ce4ca7c9f05b5000e77b818bca7f81c9787feb72b7abcaa141ce5cda82ca8c:len=1037',
 'prepend/ordered-dict': "('returns',\n"
                         " ('dict',\n"
                         '  [((\'str\', "\'b\'"), (\'tuple\', [(\'str\', "\'points\'"), (\'int\', \'1\'), '
                         "('dict', [])])),\n"
                         '   ((\'str\', "\'a\'"),\n'
                         '    (\'dict\', [((\'str\', "\'c\'"), (\'tuple\', [(\'str\', "\'points\'"), '
                         "('int', '1'), ('dict', [])]))]))]))",
 'prepend/non-string-keys': "('returns',\n"
                            " ('dict',\n"
                            '  [((\'int\', \'1\'), (\'tuple\', [(\'str\', "\'points\'"), (\'int\', \'2\'), '
                            "('dict', [])])),\n"
                            "   (('tuple', [('int', '3'), ('int', '4')]),\n"
                            '    (\'tuple\', [(\'str\', "\'points\'"), (\'list\', [(\'int\', \'5\')]), '
                            "('dict', [])]))]))",
 'prepend/set': '(\'returns\', (\'tuple\', [(\'str\', "\'points\'"), (\'object\', \'set\', \'{1}\'), '
                "('dict', [])]))",
 'prepend/input-untouched': "('returns', ('bool', 'True'))",
 'section/empty': "('returns',\n"
                  " ('dict',\n"
                  '  [((\'str\', "\'result\'"), (\'dict\', [])), ((\'str\', "\'passed_through_unchanged\'"), '
                  "('list', []))]))",
 'section/all': 'sha256:a1154aedb75af21a3fc6f7a8014a29fd02ffef64adce714dc95bd3f0906dea37:len=970',
 'section/reordered': "('returns',\n"
                      " ('dict',\n"
                      '  [((\'str\', "\'result\'"),\n'
                      "    ('dict',\n"
                      '     [((\'str\', "\'yaw\'"),\n'
                      "       ('tuple',\n"
                      '        [(\'list\', [(\'float\', \'7.0\')]), (\'dict\', [((\'str\', "\'units\'"), '
                      '(\'str\', "\'deg\'"))])])),\n'
                      '      ((\'str\', "\'other\'"), (\'list\', [(\'int\', \'1\'), (\'int\', \'2\')])),\n'
                      '      ((\'str\', "\'pitch_error\'"), (\'list\', [(\'bool\', \'True\')])),\n'
                      '      ((\'str\', "\'pitch\'"),\n'
                      "       ('tuple',\n"
                      '        [(\'list\', [(\'float\', \'1.0\')]), (\'dict\', [((\'str\', "\'units\'"), '
                      '(\'str\', "\'deg\'"))])]))])),\n'
                      '   ((\'str\', "\'passed_through_unchanged\'"), (\'list\', [(\'str\', '
                      '"\'other\'")]))]))',
 'section/unknown-only': "('returns',\n"
                         " ('dict',\n"
                         '  [((\'str\', "\'result\'"),\n'
                         "    ('dict',\n"
                         '     [((\'str\', "\'a\'"), (\'list\', [(\'int\', \'1\')])),\n'
                         '      ((\'str\', "\'b\'"), (\'dict\', [((\'str\', "\'c\'"), (\'int\', \'1\'))])),\n'
                         '      ((\'str\', "\'pitch_errors\'"), (\'list\', [(\'int\', \'1\')])),\n'
                         '      ((\'str\', "\'Pitch\'"), (\'int\', \'2\'))])),\n'
                         '   ((\'str\', "\'passed_through_unchanged\'"),\n'
                         '    (\'list\', [(\'str\', "\'Pitch\'"), (\'str\', "\'a\'"), (\'str\', "\'b\'"), '
                         '(\'str\', "\'pitch_errors\'")]))]))',
 'section/plain-lists': "('returns',\n"
                        " ('dict',\n"
                        '  [((\'str\', "\'result\'"),\n'
                        "    ('dict',\n"
                        '     [((\'str\', "\'pitch\'"),\n'
                        "       ('tuple', [('list', [('float', '1.0'), ('float', '2.0')]), ('dict', [])])),\n"
                        '      ((\'str\', "\'roll\'"), (\'tuple\', [(\'list\', []), (\'dict\', [])])),\n'
                        '      ((\'str\', "\'yaw\'"), (\'tuple\', [(\'float\', \'5.0\'), (\'dict\', '
                        '[])]))])),\n'
                        '   ((\'str\', "\'passed_through_unchanged\'"), (\'list\', []))]))',
 'section/angle-none': "('returns',\n"
                       " ('dict',\n"
                       '  [((\'str\', "\'result\'"),\n'
                       '    (\'dict\', [((\'str\', "\'pitch\'"), (\'tuple\', [(\'NoneType\', \'None\'), '
                       "('dict', [])]))])),\n"
                       '   ((\'str\', "\'passed_through_unchanged\'"), (\'list\', []))]))',
 'section/angle-tuples-of-3': "('raises', 'ValueError', 'too many values to unpack (expected 2)')",
 'section/angle-uneven': "('raises', 'ValueError', 'not enough values to unpack (expected 2, got 1)')",
 'section/flags-empty': "('returns',\n"
                        " ('dict',\n"
                        '  [((\'str\', "\'result\'"),\n'
                        "    ('dict',\n"
                        '     [((\'str\', "\'pitch_error\'"), (\'list\', [])),\n'
                        '      ((\'str\', "\'roll_error\'"), (\'list\', [])),\n'
                        '      ((\'str\', "\'yaw_error\'"), (\'list\', []))])),\n'
                        '   ((\'str\', "\'passed_through_unchanged\'"), (\'list\', []))]))',
 'section/flags-tuple': "('returns',\n"
                        " ('dict',\n"
                        '  [((\'str\', "\'result\'"),\n'
                        '    (\'dict\', [((\'str\', "\'roll_error\'"), (\'list\', [(\'bool\', \'False\'), '
                        "('bool', 'True')]))])),\n"
                        '   ((\'str\', "\'passed_through_unchanged\'"), (\'list\', []))]))',
 'section/flags-strings': "('returns',\n"
                          " ('dict',\n"
                          '  [((\'str\', "\'result\'"),\n'
                          "    ('dict',\n"
                          '     [((\'str\', "\'yaw_error\'"),\n'
                          "       ('list', [('bool', 'False'), ('bool', 'True'), ('bool', 'True')]))])),\n"
                          '   ((\'str\', "\'passed_through_unchanged\'"), (\'list\', []))]))',
 'section/flags-mixed': "('returns',\n"
                        " ('dict',\n"
                        '  [((\'str\', "\'result\'"),\n'
                        "    ('dict',\n"
                        '     [((\'str\', "\'yaw_error\'"),\n'
                        "       ('list',\n"
                        "        [('bool', 'False'),\n"
                        "         ('bool', 'False'),\n"
                        "         ('bool', 'True'),\n"
                        "         ('bool', 'False'),\n"
                        "         ('bool', 'True'),\n"
                        "         ('bool', 'False')]))])),\n"
                        '   ((\'str\', "\'passed_through_unchanged\'"), (\'list\', []))]))',
 'section/flags-array': "('returns',\n"
                        " ('dict',\n"
                        '  [((\'str\', "\'result\'"),\n'
                        "    ('dict',\n"
                        '     [((\'str\', "\'pitch_error\'"),\n'
                        "       ('list', [('bool', 'False'), ('bool', 'True'), ('bool', 'True')]))])),\n"
                        '   ((\'str\', "\'passed_through_unchanged\'"), (\'list\', []))]))',
 'section/flags-2d-array': "('raises',\n"
                           " 'ValueError',\n"
                           " 'The truth value of an array with more than one element is ambiguous. Use "
                           "a.any() or a.all()')",
 'section/flags-generator': "('returns',\n"
                            " ('dict',\n"
                            '  [((\'str\', "\'result\'"),\n'
                            '    (\'dict\', [((\'str\', "\'pitch_error\'"), (\'list\', [(\'bool\', '
                            "'False'), ('bool', 'True')]))])),\n"
                            '   ((\'str\', "\'passed_through_unchanged\'"), (\'list\', []))]))',
 'section/flags-string': "('returns',\n"
                         " ('dict',\n"
                         '  [((\'str\', "\'result\'"),\n'
                         '    (\'dict\', [((\'str\', "\'pitch_error\'"), (\'list\', [(\'bool\', \'True\'), '
                         "('bool', 'True')]))])),\n"
                         '   ((\'str\', "\'passed_through_unchanged\'"), (\'list\', []))]))',
 'section/flags-scalar': '(\'raises\', \'TypeError\', "\'int\' object is not iterable")',
 'section/flags-none': '(\'raises\', \'TypeError\', "\'NoneType\' object is not iterable")',
 'section/flags-scalar-after-others': '(\'raises\', \'TypeError\', "\'int\' object is not iterable")',
 'section/non-string-keys': "('returns',\n"
                            " ('dict',\n"
                            '  [((\'str\', "\'result\'"),\n'
                            "    ('dict',\n"
                            "     [(('int', '1'), ('list', [('int', '1')])),\n"
                            '      ((\'tuple\', [(\'str\', "\'pitch\'")]), (\'list\', [(\'int\', \'2\')])),\n'
                            "      (('NoneType', 'None'), ('int', '3'))])),\n"
                            '   ((\'str\', "\'passed_through_unchanged\'"),\n'
                            '    (\'list\', [(\'str\', \'"(\\\'pitch\\\',)"\'), (\'str\', "\'1\'"), '
                            '(\'str\', "\'None\'")]))]))',
 'section/not-a-mapping': '(\'raises\', \'AttributeError\', "\'list\' object has no attribute \'items\'")',
 'section/none': '(\'raises\', \'AttributeError\', "\'NoneType\' object has no attribute \'items\'")',
 'attitude/parsed/1': 'sha256:5c32d7150cba16206adcd54e24b25142797a37e9a25e6a7c525ba62183920032:len=2951',
 'attitude/parsed/2': 'sha256:6947a1e46c779d7c6b70dc1ecc1c8637246a49a3c00946d889a52fafe1ebbcb2:len=3753',
 'attitude/parsed/3': 'sha256:f5d929b460fcd816f3bf7a22052d63272a612abafa2f79e3bb7aa9c8f05d2dbf:len=5894',
 'attitude/parsed/4': 'sha256:ff05d3c3786417750e6cbd5f7640ff420f99d4b076b9dd1249543f41bceb09ef:len=14871',
 'attitude/parsed/blanks': 'sha256:fcc60c92bcd373ed87a22f7323e9033c0fb399f20ce60a0ac487ad0adcb0bb0d:len=5404',
 'attitude/parsed/no-points': '(\'raises\', \'AttributeError\', "\'list\' object has no attribute \'keys\'")',
 'attitude/only-points': 'sha256:9727a9dab0d593af5a3d6d76b7c43c76b826bdcd59c66db18b33b73060cde24f:len=3405',
 'attitude/missing-points': '(\'raises\', \'KeyError\', "\'data_points\'")',
 'attitude/empty': '(\'raises\', \'KeyError\', "\'data_points\'")',
 'attitude/none': '(\'raises\', \'TypeError\', "\'NoneType\' object is not subscriptable")',
 'attitude/list': "('raises', 'TypeError', 'list indices must be integers or slices, not str')",
 'attitude/points-none': '(\'raises\', \'AttributeError\', "\'NoneType\' object has no attribute \'keys\'")',
 'attitude/points-empty': '(\'raises\', \'AttributeError\', "\'list\' object has no attribute \'keys\'")',
 'attitude/points-empty-dict': "('returns', ('Group', ('path', '/'), ('url', None), ('attrs', ('dict', [])), "
                               "('data', [])))",
 'attitude/points-scalars': '(\'raises\', \'AttributeError\', "\'list\' object has no attribute \'keys\'")',
 'attitude/without-time': 'sha256:b5c6a94f5fb31369eff8cc4179b7d4237e18633cc13dc528680d71dce5e8816d:len=3045',
 'attitude/without-rates': 'sha256:98096599576f4d51088966e1c5c0aeec0068d6b1451a1f2fc280ea50e4121618:len=2467',
 'attitude/without-attitude': 'sha256:74d010421778f34c7035353f17ddebdb008c66e33c1784c68db6303910f4e08c:len=2476',
 'attitude/only-time': 'sha256:6456658893db9cdf4daca5b824d944d29bdc54d0b6768d6d9cc1fe0f3626ae34:len=1193',
 'attitude/extra-section': 'sha256:73732067ce8428c4b6b52c4217a07426b5ca14c18dde09a506d98679dbb119e3:len=4377',
 'attitude/reordered': 'sha256:a7d93e6ae805f7f1ed8a6b1cdabe93d20db855834b296591c76fc82cb9fc5fae:len=3750',
 'attitude/already-merged': 'sha256:9a8c480fe1d939768567011f9c394c719ffcb296b8dbdaad69c2ac699a9f96cc:len=1460',
 'attitude/uneven-points': 'sha256:38592df58548ce164264ca61c90f0341967cb639ec92c6502471ee249e5570bb:len=1362',
 'attitude/bad-time-key': '(\'raises\', \'KeyError\', "\'second_of_day\'")',
 'attitude/time-is-scalar': '(\'raises\', \'AttributeError\', "\'list\' object has no attribute \'items\'")',
 'attitude/input-untouched-and-repeatable': "('returns',\n"
                                            " ('dict',\n"
                                            '  [((\'str\', "\'input_untouched\'"), (\'bool\', \'True\')),\n'
                                            '   ((\'str\', "\'repeatable\'"), (\'bool\', \'True\')),\n'
                                            '   ((\'str\', "\'independent_coordinates\'"), (\'bool\', '
                                            "'True'))]))"}


def test_equivalence():
    actual, problems = check(list(cases()), EXPECTED)
    assert len(actual) == len(EXPECTED)
    assert not problems, "\n".join(problems)


if __name__ == "__main__":
    sys.exit(main(list(cases()), EXPECTED))
