"""Equivalence check for refactoring 3 (variable conversion in ceos_alos2.xarray).

Covers ``LazilyIndexedWrapper``, ``extract_encoding`` and ``to_variable``: results, exceptions, the
types of the created objects, and the order of lock and file requests when the lazily indexed
data is loaded.

Run as

    cd /tmp/wt5/e32 && PYTHONPATH=/tmp/wt5/e32 /venv/bin/python _eq/3/equiv.py

The expected values in ``EXPECTED`` were recorded from the unchanged code (HEAD) using
``equiv.py --record``. The script must pass both with and without ``patch.diff`` applied.
"""

import io
import pickle
import pprint
import sys
import warnings
from types import SimpleNamespace

import numpy as np
import xarray as xr
from xarray.core.indexing import (
    BasicIndexer,
    LazilyIndexedArray,
    OuterIndexer,
    VectorizedIndexer,
)

from ceos_alos2 import xarray as cxr
from ceos_alos2.array import Array
from ceos_alos2.hierarchy import Variable

warnings.filterwarnings("ignore", message="Duplicate dimension names")

log = []


class RecordingFile(io.BytesIO):
    def seek(self, offset, whence=0):
        log.append(("seek", offset, whence))
        return super().seek(offset, whence)

    def read(self, size=-1):
        log.append(("read", size))
        return super().read(size)

    def close(self):
        log.append(("close",))
        super().close()


class RecordingFS:
    def __init__(self, files):
        self.files = files

    def open(self, *args, **kwargs):
        log.append(("open", args, tuple(sorted(kwargs.items()))))
        (url,) = args
        return RecordingFile(self.files[url])


class RecordingLock:
    def __enter__(self):
        log.append(("lock-enter",))
        return self

    def __exit__(self, exc_type, exc_value, traceback):
        log.append(("lock-exit", None if exc_type is None else exc_type.__name__))
        return False


class RecordingArray:
    """in-memory array which records the raw keys it receives"""

    def __init__(self, data):
        self.data = data
        self.shape = data.shape
        self.dtype = data.dtype

    def __getitem__(self, key):
        log.append(("getitem", repr(key)))
        return self.data[key]


class FailingArray:
    shape = (3, 2)
    dtype = "int8"

    def __getitem__(self, key):
        log.append(("getitem", repr(key)))
        raise RuntimeError("cannot read")


class CountingVar:
    """duck variable: counts how often the properties are evaluated"""

    def __init__(self, chunks, sizes):
        self._chunks = chunks
        self._sizes = sizes

    @property
    def chunks(self):
        log.append(("chunks",))
        return self._chunks

    @property
    def sizes(self):
        log.append(("sizes",))
        return self._sizes


image = np.arange(60, dtype="uint16").reshape(5, 12) * 5 + 1
header = 8
rows = [image[index].astype(">u2").tobytes() for index in range(5)]
content = b"".join(b"\xee" * header + row for row in rows)
byte_ranges = [((i + 1) * header + i * 24, (i + 1) * (header + 24)) for i in range(5)]
fs = RecordingFS({"img": content})


def make_array(rpc=2, shape=(5, 12), dtype="uint16"):
    return Array(fs, "img", byte_ranges, shape, dtype, "IU2", rpc)


def describe(value):
    if isinstance(value, np.ndarray):
        return ("ndarray", str(value.dtype), value.shape, value.tolist())
    if isinstance(value, np.generic):
        return ("scalar", str(value.dtype), value.item())
    if isinstance(value, xr.Variable):
        data = value._data
        if isinstance(data, LazilyIndexedArray):
            wrapper = data.array
            data_summary = (
                "lazy",
                type(wrapper).__name__,
                [cls.__name__ for cls in type(wrapper).__mro__[:3]],
                list(vars(wrapper)),
                type(wrapper.array).__name__,
                type(wrapper.lock).__name__,
                wrapper.shape,
                repr(wrapper.dtype),
                repr(data.key),
            )
        else:
            data_summary = (type(data).__name__, describe(np.asarray(data)))
        return (
            "Variable",
            value.dims,
            value.shape,
            str(value.dtype),
            dict(value.attrs),
            dict(value.encoding),
            value._in_memory,
            data_summary,
        )
    return value


def outcome(func):
    del log[:]
    try:
        result = ("ok", describe(func()))
    except Exception as e:  # noqa: BLE001
        result = ("raise", type(e).__name__, str(e))
    return repr((result, list(log)))


def wrapper_getitem(key, array=None):
    if array is None:
        array = RecordingArray(np.arange(24).reshape(4, 6))
    wrapper = cxr.LazilyIndexedWrapper(array, RecordingLock())
    return wrapper[key]


def wrapper_attributes():
    lock = RecordingLock()
    arr = make_array()
    wrapper = cxr.LazilyIndexedWrapper(arr, lock)
    return (
        wrapper.array is arr,
        wrapper.lock is lock,
        wrapper.shape,
        wrapper.dtype,
        type(wrapper.dtype).__name__,
        wrapper.ndim,
        wrapper.size,
        len(wrapper),
        list(vars(wrapper)),
        [cls.__name__ for cls in type(wrapper).__mro__],
        sorted(name for name in vars(type(wrapper)) if not name.startswith("__")),
    )


def load(var, indexers=None):
    converted = cxr.to_variable(var)
    encoding = dict(converted.encoding)
    del log[:]
    if indexers is not None:
        converted = converted[indexers]
    values = converted.values
    return (describe(values), encoding, converted.dims)


def locks():
    first = cxr.to_variable(Variable(["a", "b"], make_array(), {}))
    second = cxr.to_variable(Variable(["a", "b"], make_array(), {}))
    lock1 = first._data.array.lock
    lock2 = second._data.array.lock
    restored = pickle.loads(pickle.dumps(lock1))
    return (
        type(lock1).__module__,
        type(lock1).__name__,
        lock1 is lock2,
        lock1.token == lock2.token,
        restored.token == lock1.token,
        lock1.locked(),
    )


def source_untouched():
    arr = make_array()
    attrs = {"a": 1}
    var = Variable(["a", "b"], arr, attrs)
    converted = cxr.to_variable(var)
    converted.attrs["b"] = 2
    converted.encoding["c"] = 3
    return (var.data is arr, converted._data.array.array is arr, attrs, var.dims, log == [])


def numpy_shared():
    data = np.arange(4, dtype="int8")
    var = Variable("x", data, {"u": "m"})
    converted = cxr.to_variable(var)
    return (np.shares_memory(converted.values, data), converted.attrs is var.attrs)


variables = {
    "numpy-1d": lambda: Variable("x", np.array([1, 2], dtype="int8"), {"a": 1}),
    "numpy-2d": lambda: Variable(["x", "y"], np.arange(6.0).reshape(2, 3), {}),
    "numpy-0d": lambda: Variable([], np.array(1.5), {"units": "m"}),
    "numpy-datetime": lambda: Variable(
        "t", np.array(["2020-01-01", "2020-01-02"], dtype="datetime64[ns]"), {}
    ),
    "numpy-str": lambda: Variable("s", np.array(["a", "bc"]), {"n": [1, 2]}),
    "numpy-object": lambda: Variable("o", np.array([1, "a"], dtype=object), {}),
    "list-data": lambda: Variable("x", [1, 2, 3], {}),
    "scalar-data": lambda: Variable([], 1, {}),
    "array-rpc1": lambda: Variable(["rows", "cols"], make_array(rpc=1), {"b": 3}),
    "array-rpc2": lambda: Variable(["rows", "cols"], make_array(rpc=2), {}),
    "array-rpc-none": lambda: Variable(["rows", "cols"], make_array(rpc=None), {}),
    "array-rpc-all": lambda: Variable(["rows", "cols"], make_array(rpc=-1), {}),
    "array-rpc-auto": lambda: Variable(["rows", "cols"], make_array(rpc="auto"), {}),
    "array-rpc-50B": lambda: Variable(["rows", "cols"], make_array(rpc="50B"), {}),
    "array-1d": lambda: Variable("rows", make_array(shape=(5,)), {}),
    "array-3d": lambda: Variable(["rows", "a", "b"], make_array(shape=(5, 3, 4)), {}),
    "array-complex-dtype": lambda: Variable(["r", "c"], make_array(dtype="complex64"), {}),
    "array-dtype-obj": lambda: Variable(["r", "c"], make_array(dtype=np.dtype(">u2")), {}),
    "array-bad-dtype": lambda: Variable(["r", "c"], make_array(dtype="nope"), {}),
    "array-dims-mismatch": lambda: Variable(["r"], make_array(), {}),
    "array-too-many-dims": lambda: Variable(["r", "c", "d"], make_array(), {}),
    "array-duplicate-dims": lambda: Variable(["r", "r"], make_array(), {}),
    "numpy-dims-mismatch": lambda: Variable(["x", "y"], np.array([1]), {}),
    "attrs-none": lambda: Variable("x", np.array([1]), None),
}

duck_vars = {
    "empty": (lambda: SimpleNamespace(chunks={}, sizes={})),
    "all-none": (lambda: SimpleNamespace(chunks={"x": None, "y": None}, sizes={"x": 4, "y": 3})),
    "first-none": (lambda: SimpleNamespace(chunks={"x": None, "y": 2}, sizes={"x": 4, "y": 3})),
    "minus-one": (lambda: SimpleNamespace(chunks={"x": -1, "y": 2}, sizes={"x": 4, "y": 3})),
    "all-minus-one": (lambda: SimpleNamespace(chunks={"x": -1, "y": -1}, sizes={"x": 4, "y": 3})),
    "none-and-minus-one": (
        lambda: SimpleNamespace(chunks={"x": None, "y": -1}, sizes={"x": 4, "y": 3})
    ),
    "zero": (lambda: SimpleNamespace(chunks={"x": 0, "y": None}, sizes={"x": 4, "y": 3})),
    "float-minus-one": (lambda: SimpleNamespace(chunks={"x": -1.0}, sizes={"x": 4})),
    "false": (lambda: SimpleNamespace(chunks={"x": False, "y": True}, sizes={"x": 4, "y": 3})),
    "numpy-ints": (
        lambda: SimpleNamespace(chunks={"x": np.int64(-1), "y": np.int64(2)}, sizes={"x": 4, "y": 3})
    ),
    "strings": (lambda: SimpleNamespace(chunks={"x": "auto", "y": -1}, sizes={"x": 4, "y": 3})),
    "tuples": (lambda: SimpleNamespace(chunks={"x": (2, 2), "y": None}, sizes={"x": 4, "y": 3})),
    "ndarray": (lambda: SimpleNamespace(chunks={"x": np.array([2, 2])}, sizes={"x": 4})),
    "missing-size": (lambda: SimpleNamespace(chunks={"x": 2, "y": -1}, sizes={"x": 4})),
    "missing-size-unused": (lambda: SimpleNamespace(chunks={"x": 2, "y": 1}, sizes={})),
    "no-sizes-unused": (lambda: SimpleNamespace(chunks={"x": 2})),
    "no-sizes": (lambda: SimpleNamespace(chunks={"x": -1})),
    "no-sizes-all-none": (lambda: SimpleNamespace(chunks={"x": None})),
    "no-chunks": (lambda: SimpleNamespace(sizes={"x": 1})),
    "chunks-list": (lambda: SimpleNamespace(chunks=[1, 2], sizes={})),
    "chunks-none": (lambda: SimpleNamespace(chunks=None, sizes={})),
    "counting-none": (lambda: CountingVar({"x": None, "y": None}, {"x": 4, "y": 3})),
    "counting-mixed": (
        lambda: CountingVar({"x": None, "y": -1, "z": 5, "w": -1}, {"x": 4, "y": 3, "z": 9, "w": 1})
    ),
    "counting-plain": (lambda: CountingVar({"x": 1, "y": 2}, {"x": 4, "y": 3})),
}


def encoding_order(name):
    encoding = cxr.extract_encoding(duck_vars[name]())
    return [list(encoding), [list(value) for value in encoding.values()]]


CASES = {
    # LazilyIndexedWrapper
    "wrapper-attributes": wrapper_attributes,
    "wrapper-numpy-dtype": lambda: cxr.LazilyIndexedWrapper(np.ones((2, 3), "f4"), None).dtype,
    "wrapper-bad-dtype": lambda: cxr.LazilyIndexedWrapper(make_array(dtype="nope"), None),
    "wrapper-no-shape": lambda: cxr.LazilyIndexedWrapper([1, 2], None),
    "wrapper-no-dtype": lambda: cxr.LazilyIndexedWrapper(SimpleNamespace(shape=(1,)), None),
    "wrapper-missing-lock": lambda: cxr.LazilyIndexedWrapper(make_array()),
    "wrapper-keywords": lambda: vars(cxr.LazilyIndexedWrapper(lock=1, array=np.ones(2, "i1"))),
    "wrapper-basic": lambda: wrapper_getitem(BasicIndexer((0, 1))),
    "wrapper-basic-slices": lambda: wrapper_getitem(BasicIndexer((slice(1, 3), slice(None, 2)))),
    "wrapper-basic-negative-step": lambda: wrapper_getitem(
        BasicIndexer((slice(None, None, -1), slice(4, None, -2)))
    ),
    "wrapper-basic-empty": lambda: wrapper_getitem(BasicIndexer((slice(0, 0), 1))),
    "wrapper-outer": lambda: wrapper_getitem(
        OuterIndexer((np.array([3, 0, 0]), slice(None, None, 2)))
    ),
    "wrapper-outer-both": lambda: wrapper_getitem(
        OuterIndexer((np.array([1, 2]), np.array([5, 0, 1])))
    ),
    "wrapper-outer-int": lambda: wrapper_getitem(OuterIndexer((2, np.array([5, 0])))),
    "wrapper-outer-empty": lambda: wrapper_getitem(
        OuterIndexer((np.array([], dtype=int), slice(None)))
    ),
    "wrapper-vectorized": lambda: wrapper_getitem(
        VectorizedIndexer((np.array([0, 3, 1]), np.array([5, 0, 2])))
    ),
    "wrapper-vectorized-slices": lambda: wrapper_getitem(
        VectorizedIndexer((slice(None), slice(None)))
    ),
    "wrapper-vectorized-2d": lambda: wrapper_getitem(
        VectorizedIndexer((np.array([[0, 1], [2, 3]]), np.array([[5, 4], [3, 2]])))
    ),
    "wrapper-out-of-bounds": lambda: wrapper_getitem(BasicIndexer((7, 0))),
    "wrapper-plain-tuple": lambda: wrapper_getitem((0, 1)),
    "wrapper-plain-int": lambda: wrapper_getitem(0),
    "wrapper-failing-array": lambda: wrapper_getitem(BasicIndexer((0, 1)), FailingArray()),
    "wrapper-array": lambda: wrapper_getitem(
        OuterIndexer((np.array([4, 1]), slice(2, 9, 3))), make_array(rpc=2)
    ),
    "wrapper-array-vectorized": lambda: wrapper_getitem(
        VectorizedIndexer((np.array([4, 1, 1]), np.array([0, 11, 3]))), make_array(rpc=3)
    ),
    "wrapper-array-scalar": lambda: wrapper_getitem(BasicIndexer((3, 7)), make_array(rpc=1)),
    "wrapper-raw": lambda: cxr.LazilyIndexedWrapper(
        RecordingArray(np.arange(6).reshape(2, 3)), RecordingLock()
    )._raw_indexing_method((slice(None), 1)),
    "wrapper-raw-failing": lambda: cxr.LazilyIndexedWrapper(
        FailingArray(), RecordingLock()
    )._raw_indexing_method((0, 0)),
    "wrapper-raw-no-lock": lambda: cxr.LazilyIndexedWrapper(
        RecordingArray(np.arange(6).reshape(2, 3)), None
    )._raw_indexing_method((0, 0)),
    "wrapper-get_duck_array": lambda: cxr.LazilyIndexedWrapper(
        make_array(rpc=4), RecordingLock()
    ).get_duck_array(),
    # extract_encoding
    **{
        f"encoding-{name}": lambda create=create: cxr.extract_encoding(create())
        for name, create in variables.items()
    },
    **{
        f"encoding-duck-{name}": lambda create=create: cxr.extract_encoding(create())
        for name, create in duck_vars.items()
    },
    "encoding-order-mixed": lambda: encoding_order("counting-mixed"),
    "encoding-order-minus-one": lambda: encoding_order("minus-one"),
    "encoding-types": lambda: [
        type(value).__name__
        for value in cxr.extract_encoding(variables["array-rpc-auto"]())[
            "preferred_chunksizes"
        ].values()
    ],
    "encoding-new-dict": lambda: cxr.extract_encoding(variables["numpy-1d"]())
    is not cxr.extract_encoding(variables["numpy-1d"]()),
    # to_variable
    **{
        f"to_variable-{name}": lambda create=create: cxr.to_variable(create())
        for name, create in variables.items()
    },
    "to_variable-duck": lambda: cxr.to_variable(
        SimpleNamespace(dims=["x"], data=np.array([1, 2]), attrs={"a": 1}, chunks={"x": 1})
    ),
    "to_variable-duck-no-dims": lambda: cxr.to_variable(SimpleNamespace(data=np.array([1, 2]))),
    "to_variable-duck-no-attrs": lambda: cxr.to_variable(
        SimpleNamespace(dims=["x"], data=np.array([1, 2]))
    ),
    "to_variable-duck-no-chunks": lambda: cxr.to_variable(
        SimpleNamespace(dims=["x"], data=np.array([1, 2]), attrs={})
    ),
    "to_variable-duck-no-data": lambda: cxr.to_variable(SimpleNamespace(dims=["x"])),
    "to_variable-none": lambda: cxr.to_variable(None),
    "to_variable-bare-array": lambda: cxr.to_variable(make_array()),
    "to_variable-xarray": lambda: cxr.to_variable(xr.Variable("x", [1, 2])),
    "to_variable-locks": locks,
    "to_variable-source-untouched": source_untouched,
    "to_variable-numpy-shared": numpy_shared,
    # loading lazily indexed data
    "load-all": lambda: load(variables["array-rpc2"]()),
    "load-all-rpc1": lambda: load(variables["array-rpc1"]()),
    "load-all-rpc-none": lambda: load(variables["array-rpc-none"]()),
    "load-row": lambda: load(variables["array-rpc2"](), {"rows": 3}),
    "load-rows": lambda: load(variables["array-rpc2"](), {"rows": slice(1, 4)}),
    "load-cols": lambda: load(variables["array-rpc2"](), {"cols": slice(None, None, 5)}),
    "load-element": lambda: load(variables["array-rpc1"](), {"rows": -1, "cols": -1}),
    "load-fancy": lambda: load(variables["array-rpc2"](), {"rows": [4, 0], "cols": [1, 1, 3]}),
    "load-reversed": lambda: load(variables["array-rpc2"](), {"rows": slice(None, None, -2)}),
    "load-empty": lambda: load(variables["array-rpc2"](), {"rows": slice(0, 0)}),
    "load-numpy": lambda: load(variables["numpy-2d"](), {"x": 1}),
    "load-dtype-mismatch": lambda: load(variables["array-complex-dtype"]()),
}

EXPECTED = {'wrapper-attributes': "(('ok', (True, True, (5, 12), dtype('uint16'), 'UInt16DType', 2, 60, 5, "
                       "['array', 'lock', 'shape', 'dtype'], ['LazilyIndexedWrapper', "
                       "'BackendArray', 'NdimSizeLenMixin', 'ExplicitlyIndexed', 'object'], "
                       "['_raw_indexing_method'])), [])",
 'wrapper-numpy-dtype': "(('ok', dtype('float32')), [])",
 'wrapper-bad-dtype': '((\'raise\', \'TypeError\', "data type \'nope\' not understood"), [])',
 'wrapper-no-shape': '((\'raise\', \'AttributeError\', "\'list\' object has no attribute '
                     '\'shape\'"), [])',
 'wrapper-no-dtype': '((\'raise\', \'AttributeError\', "\'types.SimpleNamespace\' object has no '
                     'attribute \'dtype\'"), [])',
 'wrapper-missing-lock': '((\'raise\', \'TypeError\', "LazilyIndexedWrapper.__init__() missing 1 '
                         'required positional argument: \'lock\'"), [])',
 'wrapper-keywords': "(('ok', {'array': array([1, 1], dtype=int8), 'lock': 1, 'shape': (2,), "
                     "'dtype': dtype('int8')}), [])",
 'wrapper-basic': "(('ok', ('scalar', 'int64', 1)), [('lock-enter',), ('getitem', '(0, 1)'), "
                  "('lock-exit', None)])",
 'wrapper-basic-slices': "(('ok', ('ndarray', 'int64', (2, 2), [[6, 7], [12, 13]])), "
                         "[('lock-enter',), ('getitem', '(slice(1, 3, None), slice(None, 2, "
                         "None))'), ('lock-exit', None)])",
 'wrapper-basic-negative-step': "(('ok', ('ndarray', 'int64', (4, 3), [[22, 20, 18], [16, 14, 12], "
                                "[10, 8, 6], [4, 2, 0]])), [('lock-enter',), ('getitem', "
                                "'(slice(0, 4, 1), slice(0, 5, 2))'), ('lock-exit', None)])",
 'wrapper-basic-empty': "(('ok', ('ndarray', 'int64', (0,), [])), [('lock-enter',), ('getitem', "
                        "'(slice(0, 0, None), 1)'), ('lock-exit', None)])",
 'wrapper-outer': "(('ok', ('ndarray', 'int64', (3, 3), [[18, 20, 22], [0, 2, 4], [0, 2, 4]])), "
                  "[('lock-enter',), ('getitem', '(slice(0, 4, None), slice(None, None, 2))'), "
                  "('lock-exit', None)])",
 'wrapper-outer-both': "(('ok', ('ndarray', 'int64', (2, 3), [[11, 6, 7], [17, 12, 13]])), "
                       "[('lock-enter',), ('getitem', '(slice(1, 3, None), slice(0, 6, None))'), "
                       "('lock-exit', None)])",
 'wrapper-outer-int': "(('ok', ('ndarray', 'int64', (2,), [17, 12])), [('lock-enter',), "
                      "('getitem', '(2, slice(0, 6, None))'), ('lock-exit', None)])",
 'wrapper-outer-empty': "(('raise', 'ValueError', 'zero-size array to reduction operation minimum "
                        "which has no identity'), [])",
 'wrapper-vectorized': "(('ok', ('ndarray', 'int64', (3,), [5, 18, 8])), [('lock-enter',), "
                       "('getitem', '(slice(0, 4, None), slice(0, 6, None))'), ('lock-exit', "
                       'None)])',
 'wrapper-vectorized-slices': "(('ok', ('ndarray', 'int64', (4, 6), [[0, 1, 2, 3, 4, 5], [6, 7, 8, "
                              '9, 10, 11], [12, 13, 14, 15, 16, 17], [18, 19, 20, 21, 22, 23]])), '
                              "[('lock-enter',), ('getitem', '(slice(None, None, None), "
                              "slice(None, None, None))'), ('lock-exit', None)])",
 'wrapper-vectorized-2d': "(('ok', ('ndarray', 'int64', (2, 2), [[5, 10], [15, 20]])), "
                          "[('lock-enter',), ('getitem', '(slice(0, 4, None), slice(2, 6, "
                          "None))'), ('lock-exit', None)])",
 'wrapper-out-of-bounds': "(('raise', 'IndexError', 'index 7 is out of bounds for axis 0 with size "
                          "4'), [('lock-enter',), ('getitem', '(7, 0)'), ('lock-exit', "
                          "'IndexError')])",
 'wrapper-plain-tuple': "(('raise', 'TypeError', 'unexpected key type: (0, 1)'), [])",
 'wrapper-plain-int': "(('raise', 'TypeError', 'unexpected key type: 0'), [])",
 'wrapper-failing-array': "(('raise', 'RuntimeError', 'cannot read'), [('lock-enter',), "
                          "('getitem', '(0, 1)'), ('lock-exit', 'RuntimeError')])",
 'wrapper-array': "(('ok', ('ndarray', 'uint16', (2, 3), [[251, 266, 281], [71, 86, 101]])), "
                  "[('lock-enter',), ('open', ('img',), (('mode', 'rb'),)), ('seek', 8, 0), "
                  "('read', 56), ('seek', 72, 0), ('read', 56), ('seek', 136, 0), ('read', 24), "
                  "('close',), ('lock-exit', None)])",
 'wrapper-array-vectorized': "(('ok', ('ndarray', 'uint16', (3,), [241, 116, 76])), "
                             "[('lock-enter',), ('open', ('img',), (('mode', 'rb'),)), ('seek', 8, "
                             "0), ('read', 88), ('seek', 104, 0), ('read', 56), ('close',), "
                             "('lock-exit', None)])",
 'wrapper-array-scalar': "(('ok', ('scalar', 'uint16', 216)), [('lock-enter',), ('open', ('img',), "
                         "(('mode', 'rb'),)), ('seek', 104, 0), ('read', 24), ('close',), "
                         "('lock-exit', None)])",
 'wrapper-raw': "(('ok', ('ndarray', 'int64', (2,), [1, 4])), [('lock-enter',), ('getitem', "
                "'(slice(None, None, None), 1)'), ('lock-exit', None)])",
 'wrapper-raw-failing': "(('raise', 'RuntimeError', 'cannot read'), [('lock-enter',), ('getitem', "
                        "'(0, 0)'), ('lock-exit', 'RuntimeError')])",
 'wrapper-raw-no-lock': '((\'raise\', \'TypeError\', "\'NoneType\' object does not support the '
                        'context manager protocol"), [])',
 'wrapper-get_duck_array': "(('ok', ('ndarray', 'uint16', (5, 12), [[1, 6, 11, 16, 21, 26, 31, 36, "
                           '41, 46, 51, 56], [61, 66, 71, 76, 81, 86, 91, 96, 101, 106, 111, 116], '
                           '[121, 126, 131, 136, 141, 146, 151, 156, 161, 166, 171, 176], [181, '
                           '186, 191, 196, 201, 206, 211, 216, 221, 226, 231, 236], [241, 246, '
                           '251, 256, 261, 266, 271, 276, 281, 286, 291, 296]])), '
                           "[('lock-enter',), ('open', ('img',), (('mode', 'rb'),)), ('seek', 8, "
                           "0), ('read', 120), ('seek', 136, 0), ('read', 24), ('close',), "
                           "('lock-exit', None)])",
 'encoding-numpy-1d': "(('ok', {}), [])",
 'encoding-numpy-2d': "(('ok', {}), [])",
 'encoding-numpy-0d': "(('ok', {}), [])",
 'encoding-numpy-datetime': "(('ok', {}), [])",
 'encoding-numpy-str': "(('ok', {}), [])",
 'encoding-numpy-object': "(('ok', {}), [])",
 'encoding-list-data': "(('ok', {}), [])",
 'encoding-scalar-data': "(('ok', {}), [])",
 'encoding-array-rpc1': "(('ok', {'preferred_chunksizes': {'rows': 1, 'cols': 12}}), [])",
 'encoding-array-rpc2': "(('ok', {'preferred_chunksizes': {'rows': 2, 'cols': 12}}), [])",
 'encoding-array-rpc-none': "(('ok', {'preferred_chunksizes': {'rows': 1024, 'cols': 12}}), [])",
 'encoding-array-rpc-all': "(('ok', {'preferred_chunksizes': {'rows': 5, 'cols': 12}}), [])",
 'encoding-array-rpc-auto': "(('ok', {'preferred_chunksizes': {'rows': np.int64(5), 'cols': 12}}), "
                            '[])',
 'encoding-array-rpc-50B': "(('ok', {'preferred_chunksizes': {'rows': np.int64(2), 'cols': 12}}), "
                           '[])',
 'encoding-array-1d': "(('ok', {'preferred_chunksizes': {'rows': 2}}), [])",
 'encoding-array-3d': "(('ok', {'preferred_chunksizes': {'rows': 2, 'a': 3, 'b': 4}}), [])",
 'encoding-array-complex-dtype': "(('ok', {'preferred_chunksizes': {'r': 2, 'c': 12}}), [])",
 'encoding-array-dtype-obj': "(('ok', {'preferred_chunksizes': {'r': 2, 'c': 12}}), [])",
 'encoding-array-bad-dtype': "(('ok', {'preferred_chunksizes': {'r': 2, 'c': 12}}), [])",
 'encoding-array-dims-mismatch': "(('ok', {'preferred_chunksizes': {'r': 2}}), [])",
 'encoding-array-too-many-dims': "(('ok', {'preferred_chunksizes': {'r': 2, 'c': 12}}), [])",
 'encoding-array-duplicate-dims': "(('ok', {'preferred_chunksizes': {'r': 12}}), [])",
 'encoding-numpy-dims-mismatch': "(('ok', {}), [])",
 'encoding-attrs-none': "(('ok', {}), [])",
 'encoding-duck-empty': "(('ok', {}), [])",
 'encoding-duck-all-none': "(('ok', {}), [])",
 'encoding-duck-first-none': "(('ok', {'preferred_chunksizes': {'x': 4, 'y': 2}}), [])",
 'encoding-duck-minus-one': "(('ok', {'preferred_chunksizes': {'x': 4, 'y': 2}}), [])",
 'encoding-duck-all-minus-one': "(('ok', {'preferred_chunksizes': {'x': 4, 'y': 3}}), [])",
 'encoding-duck-none-and-minus-one': "(('ok', {'preferred_chunksizes': {'x': 4, 'y': 3}}), [])",
 'encoding-duck-zero': "(('ok', {'preferred_chunksizes': {'x': 0, 'y': 3}}), [])",
 'encoding-duck-float-minus-one': "(('ok', {'preferred_chunksizes': {'x': 4}}), [])",
 'encoding-duck-false': "(('ok', {'preferred_chunksizes': {'x': False, 'y': True}}), [])",
 'encoding-duck-numpy-ints': "(('ok', {'preferred_chunksizes': {'x': 4, 'y': np.int64(2)}}), [])",
 'encoding-duck-strings': "(('ok', {'preferred_chunksizes': {'x': 'auto', 'y': 3}}), [])",
 'encoding-duck-tuples': "(('ok', {'preferred_chunksizes': {'x': (2, 2), 'y': 3}}), [])",
 'encoding-duck-ndarray': "(('raise', 'ValueError', 'The truth value of an array with more than "
                          "one element is ambiguous. Use a.any() or a.all()'), [])",
 'encoding-duck-missing-size': '((\'raise\', \'KeyError\', "\'y\'"), [])',
 'encoding-duck-missing-size-unused': "(('ok', {'preferred_chunksizes': {'x': 2, 'y': 1}}), [])",
 'encoding-duck-no-sizes-unused': "(('ok', {'preferred_chunksizes': {'x': 2}}), [])",
 'encoding-duck-no-sizes': '((\'raise\', \'AttributeError\', "\'types.SimpleNamespace\' object has '
                           'no attribute \'sizes\'"), [])',
 'encoding-duck-no-sizes-all-none': "(('ok', {}), [])",
 'encoding-duck-no-chunks': '((\'raise\', \'AttributeError\', "\'types.SimpleNamespace\' object '
                            'has no attribute \'chunks\'"), [])',
 'encoding-duck-chunks-list': '((\'raise\', \'AttributeError\', "\'list\' object has no attribute '
                              '\'values\'"), [])',
 'encoding-duck-chunks-none': '((\'raise\', \'AttributeError\', "\'NoneType\' object has no '
                              'attribute \'values\'"), [])',
 'encoding-duck-counting-none': "(('ok', {}), [('chunks',)])",
 'encoding-duck-counting-mixed': "(('ok', {'preferred_chunksizes': {'x': 4, 'y': 3, 'z': 5, 'w': "
                                 "1}}), [('chunks',), ('sizes',), ('sizes',), ('sizes',)])",
 'encoding-duck-counting-plain': "(('ok', {'preferred_chunksizes': {'x': 1, 'y': 2}}), "
                                 "[('chunks',)])",
 'encoding-order-mixed': "(('ok', [['preferred_chunksizes'], [['x', 'y', 'z', 'w']]]), "
                         "[('chunks',), ('sizes',), ('sizes',), ('sizes',)])",
 'encoding-order-minus-one': "(('ok', [['preferred_chunksizes'], [['x', 'y']]]), [])",
 'encoding-types': "(('ok', ['int64', 'int']), [])",
 'encoding-new-dict': "(('ok', True), [])",
 'to_variable-numpy-1d': "(('ok', ('Variable', ('x',), (2,), 'int8', {'a': 1}, {}, True, "
                         "('ndarray', ('ndarray', 'int8', (2,), [1, 2])))), [])",
 'to_variable-numpy-2d': "(('ok', ('Variable', ('x', 'y'), (2, 3), 'float64', {}, {}, True, "
                         "('ndarray', ('ndarray', 'float64', (2, 3), [[0.0, 1.0, 2.0], [3.0, 4.0, "
                         '5.0]])))), [])',
 'to_variable-numpy-0d': "(('ok', ('Variable', (), (), 'float64', {'units': 'm'}, {}, True, "
                         "('ndarray', ('ndarray', 'float64', (), 1.5)))), [])",
 'to_variable-numpy-datetime': "(('ok', ('Variable', ('t',), (2,), 'datetime64[ns]', {}, {}, True, "
                               "('ndarray', ('ndarray', 'datetime64[ns]', (2,), "
                               '[1577836800000000000, 1577923200000000000])))), [])',
 'to_variable-numpy-str': "(('ok', ('Variable', ('s',), (2,), '<U2', {'n': [1, 2]}, {}, True, "
                          "('ndarray', ('ndarray', '<U2', (2,), ['a', 'bc'])))), [])",
 'to_variable-numpy-object': "(('ok', ('Variable', ('o',), (2,), 'object', {}, {}, True, "
                             "('ndarray', ('ndarray', 'object', (2,), [1, 'a'])))), [])",
 'to_variable-list-data': "(('ok', ('Variable', ('x',), (3,), 'int64', {}, {}, True, ('ndarray', "
                          "('ndarray', 'int64', (3,), [1, 2, 3])))), [])",
 'to_variable-scalar-data': "(('ok', ('Variable', (), (), 'int64', {}, {}, True, ('ndarray', "
                            "('ndarray', 'int64', (), 1)))), [])",
 'to_variable-array-rpc1': "(('ok', ('Variable', ('rows', 'cols'), (5, 12), 'uint16', {'b': 3}, "
                           "{'preferred_chunksizes': {'rows': 1, 'cols': 12}}, False, ('lazy', "
                           "'LazilyIndexedWrapper', ['LazilyIndexedWrapper', 'BackendArray', "
                           "'NdimSizeLenMixin'], ['array', 'lock', 'shape', 'dtype'], 'Array', "
                           '\'SerializableLock\', (5, 12), "dtype(\'uint16\')", '
                           "'BasicIndexer((slice(None, None, None), slice(None, None, None)))'))), "
                           '[])',
 'to_variable-array-rpc2': "(('ok', ('Variable', ('rows', 'cols'), (5, 12), 'uint16', {}, "
                           "{'preferred_chunksizes': {'rows': 2, 'cols': 12}}, False, ('lazy', "
                           "'LazilyIndexedWrapper', ['LazilyIndexedWrapper', 'BackendArray', "
                           "'NdimSizeLenMixin'], ['array', 'lock', 'shape', 'dtype'], 'Array', "
                           '\'SerializableLock\', (5, 12), "dtype(\'uint16\')", '
                           "'BasicIndexer((slice(None, None, None), slice(None, None, None)))'))), "
                           '[])',
 'to_variable-array-rpc-none': "(('ok', ('Variable', ('rows', 'cols'), (5, 12), 'uint16', {}, "
                               "{'preferred_chunksizes': {'rows': 1024, 'cols': 12}}, False, "
                               "('lazy', 'LazilyIndexedWrapper', ['LazilyIndexedWrapper', "
                               "'BackendArray', 'NdimSizeLenMixin'], ['array', 'lock', 'shape', "
                               "'dtype'], 'Array', 'SerializableLock', (5, 12), "
                               '"dtype(\'uint16\')", \'BasicIndexer((slice(None, None, None), '
                               "slice(None, None, None)))'))), [])",
 'to_variable-array-rpc-all': "(('ok', ('Variable', ('rows', 'cols'), (5, 12), 'uint16', {}, "
                              "{'preferred_chunksizes': {'rows': 5, 'cols': 12}}, False, ('lazy', "
                              "'LazilyIndexedWrapper', ['LazilyIndexedWrapper', 'BackendArray', "
                              "'NdimSizeLenMixin'], ['array', 'lock', 'shape', 'dtype'], 'Array', "
                              '\'SerializableLock\', (5, 12), "dtype(\'uint16\')", '
                              "'BasicIndexer((slice(None, None, None), slice(None, None, "
                              "None)))'))), [])",
 'to_variable-array-rpc-auto': "(('ok', ('Variable', ('rows', 'cols'), (5, 12), 'uint16', {}, "
                               "{'preferred_chunksizes': {'rows': np.int64(5), 'cols': 12}}, "
                               "False, ('lazy', 'LazilyIndexedWrapper', ['LazilyIndexedWrapper', "
                               "'BackendArray', 'NdimSizeLenMixin'], ['array', 'lock', 'shape', "
                               "'dtype'], 'Array', 'SerializableLock', (5, 12), "
                               '"dtype(\'uint16\')", \'BasicIndexer((slice(None, None, None), '
                               "slice(None, None, None)))'))), [])",
 'to_variable-array-rpc-50B': "(('ok', ('Variable', ('rows', 'cols'), (5, 12), 'uint16', {}, "
                              "{'preferred_chunksizes': {'rows': np.int64(2), 'cols': 12}}, False, "
                              "('lazy', 'LazilyIndexedWrapper', ['LazilyIndexedWrapper', "
                              "'BackendArray', 'NdimSizeLenMixin'], ['array', 'lock', 'shape', "
                              "'dtype'], 'Array', 'SerializableLock', (5, 12), "
                              '"dtype(\'uint16\')", \'BasicIndexer((slice(None, None, None), '
                              "slice(None, None, None)))'))), [])",
 'to_variable-array-1d': "(('ok', ('Variable', ('rows',), (5,), 'uint16', {}, "
                         "{'preferred_chunksizes': {'rows': 2}}, False, ('lazy', "
                         "'LazilyIndexedWrapper', ['LazilyIndexedWrapper', 'BackendArray', "
                         "'NdimSizeLenMixin'], ['array', 'lock', 'shape', 'dtype'], 'Array', "
                         '\'SerializableLock\', (5,), "dtype(\'uint16\')", '
                         "'BasicIndexer((slice(None, None, None),))'))), [])",
 'to_variable-array-3d': "(('ok', ('Variable', ('rows', 'a', 'b'), (5, 3, 4), 'uint16', {}, "
                         "{'preferred_chunksizes': {'rows': 2, 'a': 3, 'b': 4}}, False, ('lazy', "
                         "'LazilyIndexedWrapper', ['LazilyIndexedWrapper', 'BackendArray', "
                         "'NdimSizeLenMixin'], ['array', 'lock', 'shape', 'dtype'], 'Array', "
                         '\'SerializableLock\', (5, 3, 4), "dtype(\'uint16\')", '
                         "'BasicIndexer((slice(None, None, None), slice(None, None, None), "
                         "slice(None, None, None)))'))), [])",
 'to_variable-array-complex-dtype': "(('ok', ('Variable', ('r', 'c'), (5, 12), 'complex64', {}, "
                                    "{'preferred_chunksizes': {'r': 2, 'c': 12}}, False, ('lazy', "
                                    "'LazilyIndexedWrapper', ['LazilyIndexedWrapper', "
                                    "'BackendArray', 'NdimSizeLenMixin'], ['array', 'lock', "
                                    "'shape', 'dtype'], 'Array', 'SerializableLock', (5, 12), "
                                    '"dtype(\'complex64\')", \'BasicIndexer((slice(None, None, '
                                    "None), slice(None, None, None)))'))), [])",
 'to_variable-array-dtype-obj': "(('ok', ('Variable', ('r', 'c'), (5, 12), '>u2', {}, "
                                "{'preferred_chunksizes': {'r': 2, 'c': 12}}, False, ('lazy', "
                                "'LazilyIndexedWrapper', ['LazilyIndexedWrapper', 'BackendArray', "
                                "'NdimSizeLenMixin'], ['array', 'lock', 'shape', 'dtype'], "
                                '\'Array\', \'SerializableLock\', (5, 12), "dtype(\'>u2\')", '
                                "'BasicIndexer((slice(None, None, None), slice(None, None, "
                                "None)))'))), [])",
 'to_variable-array-bad-dtype': '((\'raise\', \'TypeError\', "data type \'nope\' not understood"), '
                                '[])',
 'to_variable-array-dims-mismatch': '((\'raise\', \'ValueError\', "dimensions (\'r\',) must have '
                                    'the same length as the number of data dimensions, ndim=2"), '
                                    '[])',
 'to_variable-array-too-many-dims': '((\'raise\', \'ValueError\', "dimensions (\'r\', \'c\', '
                                    "'d') must have the same length as the number of data "
                                    'dimensions, ndim=2"), [])',
 'to_variable-array-duplicate-dims': "(('ok', ('Variable', ('r', 'r'), (5, 12), 'uint16', {}, "
                                     "{'preferred_chunksizes': {'r': 12}}, False, ('lazy', "
                                     "'LazilyIndexedWrapper', ['LazilyIndexedWrapper', "
                                     "'BackendArray', 'NdimSizeLenMixin'], ['array', 'lock', "
                                     "'shape', 'dtype'], 'Array', 'SerializableLock', (5, 12), "
                                     '"dtype(\'uint16\')", \'BasicIndexer((slice(None, None, '
                                     "None), slice(None, None, None)))'))), [])",
 'to_variable-numpy-dims-mismatch': '((\'raise\', \'ValueError\', "dimensions (\'x\', \'y\') must '
                                    'have the same length as the number of data dimensions, '
                                    'ndim=1"), [])',
 'to_variable-attrs-none': "(('ok', ('Variable', ('x',), (1,), 'int64', {}, {}, True, ('ndarray', "
                           "('ndarray', 'int64', (1,), [1])))), [])",
 'to_variable-duck': "(('ok', ('Variable', ('x',), (2,), 'int64', {'a': 1}, "
                     "{'preferred_chunksizes': {'x': 1}}, True, ('ndarray', ('ndarray', 'int64', "
                     '(2,), [1, 2])))), [])',
 'to_variable-duck-no-dims': '((\'raise\', \'AttributeError\', "\'types.SimpleNamespace\' object '
                             'has no attribute \'dims\'"), [])',
 'to_variable-duck-no-attrs': '((\'raise\', \'AttributeError\', "\'types.SimpleNamespace\' object '
                              'has no attribute \'attrs\'"), [])',
 'to_variable-duck-no-chunks': '((\'raise\', \'AttributeError\', "\'types.SimpleNamespace\' object '
                               'has no attribute \'chunks\'"), [])',
 'to_variable-duck-no-data': '((\'raise\', \'AttributeError\', "\'types.SimpleNamespace\' object '
                             'has no attribute \'data\'"), [])',
 'to_variable-none': '((\'raise\', \'AttributeError\', "\'NoneType\' object has no attribute '
                     '\'data\'"), [])',
 'to_variable-bare-array': '((\'raise\', \'AttributeError\', "\'Array\' object has no attribute '
                           '\'data\'"), [])',
 'to_variable-xarray': '((\'raise\', \'AttributeError\', "\'NoneType\' object has no attribute '
                       '\'values\'"), [])',
 'to_variable-locks': "(('ok', ('xarray.backends.locks', 'SerializableLock', False, False, True, "
                      'False)), [])',
 'to_variable-source-untouched': "(('ok', (True, True, {'a': 1}, ['a', 'b'], True)), [])",
 'to_variable-numpy-shared': "(('ok', (True, False)), [])",
 'load-all': "(('ok', (('ndarray', 'uint16', (5, 12), [[1, 6, 11, 16, 21, 26, 31, 36, 41, 46, 51, "
             '56], [61, 66, 71, 76, 81, 86, 91, 96, 101, 106, 111, 116], [121, 126, 131, 136, 141, '
             '146, 151, 156, 161, 166, 171, 176], [181, 186, 191, 196, 201, 206, 211, 216, 221, '
             '226, 231, 236], [241, 246, 251, 256, 261, 266, 271, 276, 281, 286, 291, 296]]), '
             "{'preferred_chunksizes': {'rows': 2, 'cols': 12}}, ('rows', 'cols'))), [('open', "
             "('img',), (('mode', 'rb'),)), ('seek', 8, 0), ('read', 56), ('seek', 72, 0), "
             "('read', 56), ('seek', 136, 0), ('read', 24), ('close',)])",
 'load-all-rpc1': "(('ok', (('ndarray', 'uint16', (5, 12), [[1, 6, 11, 16, 21, 26, 31, 36, 41, 46, "
                  '51, 56], [61, 66, 71, 76, 81, 86, 91, 96, 101, 106, 111, 116], [121, 126, 131, '
                  '136, 141, 146, 151, 156, 161, 166, 171, 176], [181, 186, 191, 196, 201, 206, '
                  '211, 216, 221, 226, 231, 236], [241, 246, 251, 256, 261, 266, 271, 276, 281, '
                  "286, 291, 296]]), {'preferred_chunksizes': {'rows': 1, 'cols': 12}}, ('rows', "
                  "'cols'))), [('open', ('img',), (('mode', 'rb'),)), ('seek', 8, 0), ('read', "
                  "24), ('seek', 40, 0), ('read', 24), ('seek', 72, 0), ('read', 24), ('seek', "
                  "104, 0), ('read', 24), ('seek', 136, 0), ('read', 24), ('close',)])",
 'load-all-rpc-none': "(('ok', (('ndarray', 'uint16', (5, 12), [[1, 6, 11, 16, 21, 26, 31, 36, 41, "
                      '46, 51, 56], [61, 66, 71, 76, 81, 86, 91, 96, 101, 106, 111, 116], [121, '
                      '126, 131, 136, 141, 146, 151, 156, 161, 166, 171, 176], [181, 186, 191, '
                      '196, 201, 206, 211, 216, 221, 226, 231, 236], [241, 246, 251, 256, 261, '
                      "266, 271, 276, 281, 286, 291, 296]]), {'preferred_chunksizes': {'rows': "
                      "1024, 'cols': 12}}, ('rows', 'cols'))), [('open', ('img',), (('mode', "
                      "'rb'),)), ('seek', 8, 0), ('read', 152), ('close',)])",
 'load-row': "(('ok', (('ndarray', 'uint16', (12,), [181, 186, 191, 196, 201, 206, 211, 216, 221, "
             "226, 231, 236]), {'preferred_chunksizes': {'rows': 2, 'cols': 12}}, ('cols',))), "
             "[('open', ('img',), (('mode', 'rb'),)), ('seek', 72, 0), ('read', 56), ('close',)])",
 'load-rows': "(('ok', (('ndarray', 'uint16', (3, 12), [[61, 66, 71, 76, 81, 86, 91, 96, 101, 106, "
              '111, 116], [121, 126, 131, 136, 141, 146, 151, 156, 161, 166, 171, 176], [181, 186, '
              "191, 196, 201, 206, 211, 216, 221, 226, 231, 236]]), {'preferred_chunksizes': "
              "{'rows': 2, 'cols': 12}}, ('rows', 'cols'))), [('open', ('img',), (('mode', "
              "'rb'),)), ('seek', 8, 0), ('read', 56), ('seek', 72, 0), ('read', 56), ('close',)])",
 'load-cols': "(('ok', (('ndarray', 'uint16', (5, 3), [[1, 26, 51], [61, 86, 111], [121, 146, "
              "171], [181, 206, 231], [241, 266, 291]]), {'preferred_chunksizes': {'rows': 2, "
              "'cols': 12}}, ('rows', 'cols'))), [('open', ('img',), (('mode', 'rb'),)), ('seek', "
              "8, 0), ('read', 56), ('seek', 72, 0), ('read', 56), ('seek', 136, 0), ('read', 24), "
              "('close',)])",
 'load-element': "(('ok', (('ndarray', 'uint16', (), 296), {'preferred_chunksizes': {'rows': 1, "
                 "'cols': 12}}, ())), [('open', ('img',), (('mode', 'rb'),)), ('seek', 136, 0), "
                 "('read', 24), ('close',)])",
 'load-fancy': "(('ok', (('ndarray', 'uint16', (2, 3), [[246, 246, 256], [6, 6, 16]]), "
               "{'preferred_chunksizes': {'rows': 2, 'cols': 12}}, ('rows', 'cols'))), [('open', "
               "('img',), (('mode', 'rb'),)), ('seek', 8, 0), ('read', 56), ('seek', 72, 0), "
               "('read', 56), ('seek', 136, 0), ('read', 24), ('close',)])",
 'load-reversed': "(('ok', (('ndarray', 'uint16', (3, 12), [[241, 246, 251, 256, 261, 266, 271, "
                  '276, 281, 286, 291, 296], [121, 126, 131, 136, 141, 146, 151, 156, 161, 166, '
                  '171, 176], [1, 6, 11, 16, 21, 26, 31, 36, 41, 46, 51, 56]]), '
                  "{'preferred_chunksizes': {'rows': 2, 'cols': 12}}, ('rows', 'cols'))), "
                  "[('open', ('img',), (('mode', 'rb'),)), ('seek', 8, 0), ('read', 56), ('seek', "
                  "72, 0), ('read', 56), ('seek', 136, 0), ('read', 24), ('close',)])",
 'load-empty': "(('ok', (('ndarray', 'uint16', (0, 12), []), {'preferred_chunksizes': {'rows': 2, "
               "'cols': 12}}, ('rows', 'cols'))), [('open', ('img',), (('mode', 'rb'),)), "
               "('close',)])",
 'load-numpy': "(('ok', (('ndarray', 'float64', (3,), [3.0, 4.0, 5.0]), {}, ('y',))), [])",
 'load-dtype-mismatch': "(('ok', (('ndarray', 'uint16', (5, 12), [[1, 6, 11, 16, 21, 26, 31, 36, "
                        '41, 46, 51, 56], [61, 66, 71, 76, 81, 86, 91, 96, 101, 106, 111, 116], '
                        '[121, 126, 131, 136, 141, 146, 151, 156, 161, 166, 171, 176], [181, 186, '
                        '191, 196, 201, 206, 211, 216, 221, 226, 231, 236], [241, 246, 251, 256, '
                        "261, 266, 271, 276, 281, 286, 291, 296]]), {'preferred_chunksizes': {'r': "
                        "2, 'c': 12}}, ('r', 'c'))), [('open', ('img',), (('mode', 'rb'),)), "
                        "('seek', 8, 0), ('read', 56), ('seek', 72, 0), ('read', 56), ('seek', "
                        "136, 0), ('read', 24), ('close',)])"}


def main(argv):
    results = {name: outcome(func) for name, func in CASES.items()}
    if "--record" in argv:
        pprint.pprint(results, width=100, sort_dicts=False, compact=True)
        return 0

    failures = []
    for name, actual in results.items():
        if name not in EXPECTED:
            failures.append(f"{name}: no expectation recorded")
        elif actual != EXPECTED[name]:
            failures.append(f"{name}:\n  expected {EXPECTED[name]!r}\n  actual   {actual!r}")

    # independent check of the values
    converted = cxr.to_variable(variables["array-rpc2"]())
    np.testing.assert_array_equal(converted.values, image)
    np.testing.assert_array_equal(converted[[4, 0], 2:7].values, image[[4, 0], 2:7])

    if failures:
        print("\n".join(failures))
        print(f"FAILED: {len(failures)} of {len(results)} cases differ")
        return 1

    print(f"OK: {len(results)} cases identical to the recorded behaviour")
    return 0


if __name__ == "__main__":
    sys.exit(main(sys.argv[1:]))
