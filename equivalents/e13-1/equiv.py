"""Equivalence check for refactoring 1 (``encoders.encode_array``).

Run as a script (``python equiv.py``) or through pytest.  Every case calls the
public entry points of ``ceos_alos2.sar_image.caching.encoders`` and compares a
canonical, type-preserving rendering of the result (or of the raised exception)
with the rendering recorded from the unchanged code (``python equiv.py
--record`` prints a fresh table).
"""

import json
import sys
import warnings

import fsspec
import numpy as np

from ceos_alos2.array import Array
from ceos_alos2.hierarchy import Group, Variable
from ceos_alos2.sar_image import caching
from ceos_alos2.sar_image.caching import encoders


def canon(obj):
    """Deterministic rendering which keeps the exact types and key order."""
    if isinstance(obj, dict):
        items = ", ".join(f"{canon(k)}: {canon(v)}" for k, v in obj.items())
        return f"{type(obj).__name__}{{{items}}}"
    if isinstance(obj, (list, tuple)):
        return f"{type(obj).__name__}[{', '.join(canon(v) for v in obj)}]"
    if isinstance(obj, np.ndarray):
        return f"ndarray<{obj.dtype}, {obj.shape}>({obj.tolist()!r})"
    if isinstance(obj, np.generic):
        return f"{type(obj).__name__}<{obj.dtype}>({obj!r})"
    return f"{type(obj).__name__}({obj!r})"


def outcome(func, *args, **kwargs):
    try:
        with warnings.catch_warnings():
            warnings.simplefilter("ignore", DeprecationWarning)
            return canon(func(*args, **kwargs))
    except Exception as e:  # noqa: BLE001
        return f"raised {type(e).__name__}: {e}"


def make_array(
    *, path="/path/to", url="file", shape=(4, 3), dtype="int16", rpc=2, type_code="IU2", ranges=None
):
    if ranges is None:
        ranges = [(x * 10 + 5, (x + 1) * 10) for x in range(shape[0])]
    fs = fsspec.filesystem("memory")
    dirfs = fsspec.filesystem("dir", path=path, fs=fs)
    return Array(
        fs=dirfs,
        url=url,
        byte_ranges=ranges,
        shape=shape,
        dtype=dtype,
        type_code=type_code,
        records_per_chunk=rpc,
    )


class ArraySubclass(Array):
    pass


class Duck:
    """has the attributes of an Array but is not one"""

    dtype = np.dtype("int8")
    shape = (1,)

    def tolist(self):  # pragma: no cover
        return ["never used"]

    def __repr__(self):
        return "<Duck>"


ARRAY_INPUTS = {
    # backend arrays
    "backend-int16": lambda: make_array(),
    "backend-complex": lambda: make_array(dtype="complex64", type_code="C*8", rpc=3),
    "backend-npdtype": lambda: make_array(dtype=np.dtype(">u2"), shape=(2, 5), rpc=None),
    "backend-empty": lambda: make_array(shape=(0, 3), ranges=[], rpc=1),
    "backend-other-root": lambda: make_array(path="/a/b/c", url="d/IMG-HH", rpc="auto"),
    "backend-subclass": lambda: ArraySubclass(
        fs=fsspec.filesystem("dir", path="/r", fs=fsspec.filesystem("memory")),
        url="u",
        byte_ranges=[(0, 4)],
        shape=(1, 2),
        dtype="uint16",
        type_code="IU2",
    ),
    # plain data
    "list-int": lambda: [1, 2, 3],
    "list-nested": lambda: [[1, 2], [3, 4]],
    "list-float": lambda: [1.5, float("inf"), -0.0],
    "list-empty": lambda: [],
    "list-mixed": lambda: [1, 2.5, True],
    "tuple-int": lambda: (1, 2),
    "range": lambda: range(4),
    "scalar-int": lambda: 5,
    "scalar-float": lambda: 2.25,
    "scalar-str": lambda: "abc",
    "scalar-none": lambda: None,
    "np-int8": lambda: np.array([1, 2], dtype="int8"),
    "np-uint16-2d": lambda: np.arange(6, dtype="uint16").reshape(2, 3),
    "np-bool": lambda: np.array([True, False]),
    "np-complex": lambda: np.array([1 + 2j, 3 - 1j], dtype="complex64"),
    "np-str": lambda: np.array(["HH", "HV"]),
    "np-bytes": lambda: np.array([b"a", b"bc"]),
    "np-object": lambda: np.array([{"a": 1}, None, (1, 2)], dtype=object),
    "np-struct": lambda: np.array([(1, 2.0)], dtype=[("a", "i2"), ("b", "f4")]),
    "np-0d": lambda: np.array(7, dtype="int32"),
    "np-generic": lambda: np.float32(1.5),
    "np-bigendian": lambda: np.array([1, 2], dtype=">i4"),
    "np-float16-nan": lambda: np.array([np.nan, 1], dtype="float16"),
    "duck": lambda: Duck(),
    # timedelta
    "td-s": lambda: np.array([-1, 0, 1, 2], dtype="timedelta64[s]"),
    "td-ms": lambda: np.array([0, 100, 200], dtype="timedelta64[ms]"),
    "td-ns-2d": lambda: np.arange(4, dtype="timedelta64[ns]").reshape(2, 2),
    "td-generic": lambda: np.array([1, 2], dtype="timedelta64"),
    "td-nat": lambda: np.array([1, "NaT"], dtype="timedelta64[us]"),
    "td-empty": lambda: np.array([], dtype="timedelta64[D]"),
    "td-0d": lambda: np.timedelta64(3, "h"),
    "td-multiple": lambda: np.array([1, 2], dtype="timedelta64[25s]"),
    "td-list": lambda: [np.timedelta64(1, "s"), np.timedelta64(1500, "ms")],
    # datetime
    "dt-s": lambda: np.array(
        ["2019-01-01 00:00:00", "2019-01-01 00:01:00"], dtype="datetime64[s]"
    ),
    "dt-ns": lambda: np.array(
        ["2020-01-01T00:00:00.5", "2019-12-31T23:59:59", "2020-01-01T00:00:00.5"],
        dtype="datetime64[ns]",
    ),
    "dt-ms-single": lambda: np.array(["1997-05-27T00:00:00.000"], dtype="datetime64[ms]"),
    "dt-D": lambda: np.array(["2000-01-01", "2000-03-01"], dtype="datetime64[D]"),
    "dt-nat-later": lambda: np.array(["2000-01-01", "NaT"], dtype="datetime64[s]"),
    "dt-nat-first": lambda: np.array(["NaT", "2000-01-01"], dtype="datetime64[s]"),
    "dt-2d": lambda: np.array(
        [["2000-01-01", "2000-01-02"], ["2000-01-03", "2000-01-05"]], dtype="datetime64[D]"
    ),
    "dt-empty": lambda: np.array([], dtype="datetime64[s]"),
    "dt-0d": lambda: np.datetime64("2000-01-01", "s"),
    "dt-generic": lambda: np.array(["NaT"], dtype="datetime64"),
    "dt-list": lambda: [np.datetime64("2001-01-01T00:00:00"), np.datetime64("2001-01-01T00:00:10")],
    "dt-strings-are-not-datetimes": lambda: ["2001-01-01", "2001-01-02"],
}


def case_patched_encoders():
    """the per-kind encoders are looked up in the module at call time"""
    saved = (encoders.encode_timedelta, encoders.encode_datetime)
    calls = []

    def fake_td(obj):
        calls.append(("m", type(obj).__name__, str(obj.dtype)))
        return "TD", {"fake": 1}

    def fake_dt(obj):
        calls.append(("M", type(obj).__name__, str(obj.dtype)))
        return "DT", {"fake": 2}

    encoders.encode_timedelta, encoders.encode_datetime = fake_td, fake_dt
    try:
        results = [
            encoders.encode_array(np.array([1], dtype="timedelta64[s]")),
            encoders.encode_array([np.datetime64("2000-01-01", "D")]),
            encoders.encode_array([1, 2]),
        ]
    finally:
        encoders.encode_timedelta, encoders.encode_datetime = saved
    return [results, calls]


def case_no_mutation():
    """the input is neither modified nor aliased by the output"""
    arr = np.array([3, 1, 2], dtype="int64")
    times = np.array(["2000-01-02", "2000-01-01"], dtype="datetime64[D]")
    out1 = encoders.encode_array(arr)
    out2 = encoders.encode_array(times)
    out1["data"].append(99)
    out2["data"].append(99)
    return [arr, times, out1, out2]


def case_through_hierarchy():
    """the callers of encode_array: variables, groups and the json round trip"""
    group = Group(
        path=None,
        url="s3://bucket/scene",
        data={
            "t": Variable("t", np.array(["2000-01-01", "2000-01-03"], dtype="datetime64[s]"), {}),
            "dt": Variable(["t"], np.array([0, 2], dtype="timedelta64[D]"), {"a": (1, 2)}),
            "sub": Group(
                path=None,
                url=None,
                data={"img": Variable(["rows", "cols"], make_array(), {"units": "dn"})},
                attrs={"n": 1},
            ),
            "x": Variable("x", [1.0, 2.0], {}),
        },
        attrs={"shape": (2, 3)},
    )
    encoded = encoders.encode_group(group)
    text = caching.encode(group)
    return [encoded, text, json.loads(text)]


def run_cases():
    results = {}
    for name, factory in ARRAY_INPUTS.items():
        results[f"encode_array/{name}"] = outcome(lambda: encoders.encode_array(factory()))
        results[f"encode_variable/{name}"] = outcome(
            lambda: encoders.encode_variable(Variable(["x"], factory(), {"k": name}))
        )
    results["patched-encoders"] = outcome(case_patched_encoders)
    results["no-mutation"] = outcome(case_no_mutation)
    results["through-hierarchy"] = outcome(case_through_hierarchy)
    results["missing-argument"] = outcome(encoders.encode_array)
    results["keyword-argument"] = outcome(encoders.encode_array, obj=[1])
    return results


EXPECTED = {}  # filled below by the recorded table


def check():
    actual = run_cases()
    assert list(actual) == list(EXPECTED), "case list changed"
    mismatches = [name for name in actual if actual[name] != EXPECTED[name]]
    for name in mismatches:
        print(f"MISMATCH {name}\n  expected: {EXPECTED[name]}\n  actual:   {actual[name]}")
    assert not mismatches, mismatches
    return len(actual)


def test_equivalence():
    check()


# --- recorded from the unchanged code (HEAD) -------------------------------------------
# RECORDED-TABLE
EXPECTED = {
    'encode_array/backend-int16': "dict{str('__type__'): str('backend_array'), str('root'): str('/path/to'), str('url'): str('file'), str('shape'): tuple[int(4), int(3)], str('dtype'): str('int16'), str('byte_ranges'): list[tuple[int(5), int(10)], tuple[int(15), int(20)], tuple[int(25), int(30)], tuple[int(35), int(40)]], str('type_code'): str('IU2')}",
    'encode_variable/backend-int16': "dict{str('__type__'): str('variable'), str('dims'): list[str('x')], str('data'): dict{str('__type__'): str('backend_array'), str('root'): str('/path/to'), str('url'): str('file'), str('shape'): tuple[int(4), int(3)], str('dtype'): str('int16'), str('byte_ranges'): list[tuple[int(5), int(10)], tuple[int(15), int(20)], tuple[int(25), int(30)], tuple[int(35), int(40)]], str('type_code'): str('IU2')}, str('attrs'): dict{str('k'): str('backend-int16')}}",
    'encode_array/backend-complex': "dict{str('__type__'): str('backend_array'), str('root'): str('/path/to'), str('url'): str('file'), str('shape'): tuple[int(4), int(3)], str('dtype'): str('complex64'), str('byte_ranges'): list[tuple[int(5), int(10)], tuple[int(15), int(20)], tuple[int(25), int(30)], tuple[int(35), int(40)]], str('type_code'): str('C*8')}",
    'encode_variable/backend-complex': "dict{str('__type__'): str('variable'), str('dims'): list[str('x')], str('data'): dict{str('__type__'): str('backend_array'), str('root'): str('/path/to'), str('url'): str('file'), str('shape'): tuple[int(4), int(3)], str('dtype'): str('complex64'), str('byte_ranges'): list[tuple[int(5), int(10)], tuple[int(15), int(20)], tuple[int(25), int(30)], tuple[int(35), int(40)]], str('type_code'): str('C*8')}, str('attrs'): dict{str('k'): str('backend-complex')}}",
    'encode_array/backend-npdtype': "dict{str('__type__'): str('backend_array'), str('root'): str('/path/to'), str('url'): str('file'), str('shape'): tuple[int(2), int(5)], str('dtype'): str('>u2'), str('byte_ranges'): list[tuple[int(5), int(10)], tuple[int(15), int(20)]], str('type_code'): str('IU2')}",
    'encode_variable/backend-npdtype': "dict{str('__type__'): str('variable'), str('dims'): list[str('x')], str('data'): dict{str('__type__'): str('backend_array'), str('root'): str('/path/to'), str('url'): str('file'), str('shape'): tuple[int(2), int(5)], str('dtype'): str('>u2'), str('byte_ranges'): list[tuple[int(5), int(10)], tuple[int(15), int(20)]], str('type_code'): str('IU2')}, str('attrs'): dict{str('k'): str('backend-npdtype')}}",
    'encode_array/backend-empty': "dict{str('__type__'): str('backend_array'), str('root'): str('/path/to'), str('url'): str('file'), str('shape'): tuple[int(0), int(3)], str('dtype'): str('int16'), str('byte_ranges'): list[], str('type_code'): str('IU2')}",
    'encode_variable/backend-empty': "dict{str('__type__'): str('variable'), str('dims'): list[str('x')], str('data'): dict{str('__type__'): str('backend_array'), str('root'): str('/path/to'), str('url'): str('file'), str('shape'): tuple[int(0), int(3)], str('dtype'): str('int16'), str('byte_ranges'): list[], str('type_code'): str('IU2')}, str('attrs'): dict{str('k'): str('backend-empty')}}",
    'encode_array/backend-other-root': "dict{str('__type__'): str('backend_array'), str('root'): str('/a/b/c'), str('url'): str('d/IMG-HH'), str('shape'): tuple[int(4), int(3)], str('dtype'): str('int16'), str('byte_ranges'): list[tuple[int(5), int(10)], tuple[int(15), int(20)], tuple[int(25), int(30)], tuple[int(35), int(40)]], str('type_code'): str('IU2')}",
    'encode_variable/backend-other-root': "dict{str('__type__'): str('variable'), str('dims'): list[str('x')], str('data'): dict{str('__type__'): str('backend_array'), str('root'): str('/a/b/c'), str('url'): str('d/IMG-HH'), str('shape'): tuple[int(4), int(3)], str('dtype'): str('int16'), str('byte_ranges'): list[tuple[int(5), int(10)], tuple[int(15), int(20)], tuple[int(25), int(30)], tuple[int(35), int(40)]], str('type_code'): str('IU2')}, str('attrs'): dict{str('k'): str('backend-other-root')}}",
    'encode_array/backend-subclass': "dict{str('__type__'): str('backend_array'), str('root'): str('/r'), str('url'): str('u'), str('shape'): tuple[int(1), int(2)], str('dtype'): str('uint16'), str('byte_ranges'): list[tuple[int(0), int(4)]], str('type_code'): str('IU2')}",
    'encode_variable/backend-subclass': "dict{str('__type__'): str('variable'), str('dims'): list[str('x')], str('data'): dict{str('__type__'): str('backend_array'), str('root'): str('/r'), str('url'): str('u'), str('shape'): tuple[int(1), int(2)], str('dtype'): str('uint16'), str('byte_ranges'): list[tuple[int(0), int(4)]], str('type_code'): str('IU2')}, str('attrs'): dict{str('k'): str('backend-subclass')}}",
    'encode_array/list-int': "dict{str('__type__'): str('array'), str('dtype'): str('int64'), str('data'): list[int(1), int(2), int(3)], str('encoding'): dict{}}",
    'encode_variable/list-int': "dict{str('__type__'): str('variable'), str('dims'): list[str('x')], str('data'): dict{str('__type__'): str('array'), str('dtype'): str('int64'), str('data'): list[int(1), int(2), int(3)], str('encoding'): dict{}}, str('attrs'): dict{str('k'): str('list-int')}}",
    'encode_array/list-nested': "dict{str('__type__'): str('array'), str('dtype'): str('int64'), str('data'): list[list[int(1), int(2)], list[int(3), int(4)]], str('encoding'): dict{}}",
    'encode_variable/list-nested': "dict{str('__type__'): str('variable'), str('dims'): list[str('x')], str('data'): dict{str('__type__'): str('array'), str('dtype'): str('int64'), str('data'): list[list[int(1), int(2)], list[int(3), int(4)]], str('encoding'): dict{}}, str('attrs'): dict{str('k'): str('list-nested')}}",
    'encode_array/list-float': "dict{str('__type__'): str('array'), str('dtype'): str('float64'), str('data'): list[float(1.5), float(inf), float(-0.0)], str('encoding'): dict{}}",
    'encode_variable/list-float': "dict{str('__type__'): str('variable'), str('dims'): list[str('x')], str('data'): dict{str('__type__'): str('array'), str('dtype'): str('float64'), str('data'): list[float(1.5), float(inf), float(-0.0)], str('encoding'): dict{}}, str('attrs'): dict{str('k'): str('list-float')}}",
    'encode_array/list-empty': "dict{str('__type__'): str('array'), str('dtype'): str('float64'), str('data'): list[], str('encoding'): dict{}}",
    'encode_variable/list-empty': "dict{str('__type__'): str('variable'), str('dims'): list[str('x')], str('data'): dict{str('__type__'): str('array'), str('dtype'): str('float64'), str('data'): list[], str('encoding'): dict{}}, str('attrs'): dict{str('k'): str('list-empty')}}",
    'encode_array/list-mixed': "dict{str('__type__'): str('array'), str('dtype'): str('float64'), str('data'): list[float(1.0), float(2.5), float(1.0)], str('encoding'): dict{}}",
    'encode_variable/list-mixed': "dict{str('__type__'): str('variable'), str('dims'): list[str('x')], str('data'): dict{str('__type__'): str('array'), str('dtype'): str('float64'), str('data'): list[float(1.0), float(2.5), float(1.0)], str('encoding'): dict{}}, str('attrs'): dict{str('k'): str('list-mixed')}}",
    'encode_array/tuple-int': "dict{str('__type__'): str('array'), str('dtype'): str('int64'), str('data'): list[int(1), int(2)], str('encoding'): dict{}}",
    'encode_variable/tuple-int': "dict{str('__type__'): str('variable'), str('dims'): list[str('x')], str('data'): dict{str('__type__'): str('array'), str('dtype'): str('int64'), str('data'): list[int(1), int(2)], str('encoding'): dict{}}, str('attrs'): dict{str('k'): str('tuple-int')}}",
    'encode_array/range': "dict{str('__type__'): str('array'), str('dtype'): str('int64'), str('data'): list[int(0), int(1), int(2), int(3)], str('encoding'): dict{}}",
    'encode_variable/range': "dict{str('__type__'): str('variable'), str('dims'): list[str('x')], str('data'): dict{str('__type__'): str('array'), str('dtype'): str('int64'), str('data'): list[int(0), int(1), int(2), int(3)], str('encoding'): dict{}}, str('attrs'): dict{str('k'): str('range')}}",
    'encode_array/scalar-int': "dict{str('__type__'): str('array'), str('dtype'): str('int64'), str('data'): int(5), str('encoding'): dict{}}",
    'encode_variable/scalar-int': "dict{str('__type__'): str('variable'), str('dims'): list[str('x')], str('data'): dict{str('__type__'): str('array'), str('dtype'): str('int64'), str('data'): int(5), str('encoding'): dict{}}, str('attrs'): dict{str('k'): str('scalar-int')}}",
    'encode_array/scalar-float': "dict{str('__type__'): str('array'), str('dtype'): str('float64'), str('data'): float(2.25), str('encoding'): dict{}}",
    'encode_variable/scalar-float': "dict{str('__type__'): str('variable'), str('dims'): list[str('x')], str('data'): dict{str('__type__'): str('array'), str('dtype'): str('float64'), str('data'): float(2.25), str('encoding'): dict{}}, str('attrs'): dict{str('k'): str('scalar-float')}}",
    'encode_array/scalar-str': "dict{str('__type__'): str('array'), str('dtype'): str('<U3'), str('data'): str('abc'), str('encoding'): dict{}}",
    'encode_variable/scalar-str': "dict{str('__type__'): str('variable'), str('dims'): list[str('x')], str('data'): dict{str('__type__'): str('array'), str('dtype'): str('<U3'), str('data'): str('abc'), str('encoding'): dict{}}, str('attrs'): dict{str('k'): str('scalar-str')}}",
    'encode_array/scalar-none': "dict{str('__type__'): str('array'), str('dtype'): str('object'), str('data'): NoneType(None), str('encoding'): dict{}}",
    'encode_variable/scalar-none': "dict{str('__type__'): str('variable'), str('dims'): list[str('x')], str('data'): dict{str('__type__'): str('array'), str('dtype'): str('object'), str('data'): NoneType(None), str('encoding'): dict{}}, str('attrs'): dict{str('k'): str('scalar-none')}}",
    'encode_array/np-int8': "dict{str('__type__'): str('array'), str('dtype'): str('int8'), str('data'): list[int(1), int(2)], str('encoding'): dict{}}",
    'encode_variable/np-int8': "dict{str('__type__'): str('variable'), str('dims'): list[str('x')], str('data'): dict{str('__type__'): str('array'), str('dtype'): str('int8'), str('data'): list[int(1), int(2)], str('encoding'): dict{}}, str('attrs'): dict{str('k'): str('np-int8')}}",
    'encode_array/np-uint16-2d': "dict{str('__type__'): str('array'), str('dtype'): str('uint16'), str('data'): list[list[int(0), int(1), int(2)], list[int(3), int(4), int(5)]], str('encoding'): dict{}}",
    'encode_variable/np-uint16-2d': "dict{str('__type__'): str('variable'), str('dims'): list[str('x')], str('data'): dict{str('__type__'): str('array'), str('dtype'): str('uint16'), str('data'): list[list[int(0), int(1), int(2)], list[int(3), int(4), int(5)]], str('encoding'): dict{}}, str('attrs'): dict{str('k'): str('np-uint16-2d')}}",
    'encode_array/np-bool': "dict{str('__type__'): str('array'), str('dtype'): str('bool'), str('data'): list[bool(True), bool(False)], str('encoding'): dict{}}",
    'encode_variable/np-bool': "dict{str('__type__'): str('variable'), str('dims'): list[str('x')], str('data'): dict{str('__type__'): str('array'), str('dtype'): str('bool'), str('data'): list[bool(True), bool(False)], str('encoding'): dict{}}, str('attrs'): dict{str('k'): str('np-bool')}}",
    'encode_array/np-complex': "dict{str('__type__'): str('array'), str('dtype'): str('complex64'), str('data'): list[complex((1+2j)), complex((3-1j))], str('encoding'): dict{}}",
    'encode_variable/np-complex': "dict{str('__type__'): str('variable'), str('dims'): list[str('x')], str('data'): dict{str('__type__'): str('array'), str('dtype'): str('complex64'), str('data'): list[complex((1+2j)), complex((3-1j))], str('encoding'): dict{}}, str('attrs'): dict{str('k'): str('np-complex')}}",
    'encode_array/np-str': "dict{str('__type__'): str('array'), str('dtype'): str('<U2'), str('data'): list[str('HH'), str('HV')], str('encoding'): dict{}}",
    'encode_variable/np-str': "dict{str('__type__'): str('variable'), str('dims'): list[str('x')], str('data'): dict{str('__type__'): str('array'), str('dtype'): str('<U2'), str('data'): list[str('HH'), str('HV')], str('encoding'): dict{}}, str('attrs'): dict{str('k'): str('np-str')}}",
    'encode_array/np-bytes': "dict{str('__type__'): str('array'), str('dtype'): str('|S2'), str('data'): list[bytes(b'a'), bytes(b'bc')], str('encoding'): dict{}}",
    'encode_variable/np-bytes': "dict{str('__type__'): str('variable'), str('dims'): list[str('x')], str('data'): dict{str('__type__'): str('array'), str('dtype'): str('|S2'), str('data'): list[bytes(b'a'), bytes(b'bc')], str('encoding'): dict{}}, str('attrs'): dict{str('k'): str('np-bytes')}}",
    'encode_array/np-object': "dict{str('__type__'): str('array'), str('dtype'): str('object'), str('data'): list[dict{str('a'): int(1)}, NoneType(None), tuple[int(1), int(2)]], str('encoding'): dict{}}",
    'encode_variable/np-object': "dict{str('__type__'): str('variable'), str('dims'): list[str('x')], str('data'): dict{str('__type__'): str('array'), str('dtype'): str('object'), str('data'): list[dict{str('a'): int(1)}, NoneType(None), tuple[int(1), int(2)]], str('encoding'): dict{}}, str('attrs'): dict{str('k'): str('np-object')}}",
    'encode_array/np-struct': 'dict{str(\'__type__\'): str(\'array\'), str(\'dtype\'): str("[(\'a\', \'<i2\'), (\'b\', \'<f4\')]"), str(\'data\'): list[tuple[int(1), float(2.0)]], str(\'encoding\'): dict{}}',
    'encode_variable/np-struct': 'dict{str(\'__type__\'): str(\'variable\'), str(\'dims\'): list[str(\'x\')], str(\'data\'): dict{str(\'__type__\'): str(\'array\'), str(\'dtype\'): str("[(\'a\', \'<i2\'), (\'b\', \'<f4\')]"), str(\'data\'): list[tuple[int(1), float(2.0)]], str(\'encoding\'): dict{}}, str(\'attrs\'): dict{str(\'k\'): str(\'np-struct\')}}',
    'encode_array/np-0d': "dict{str('__type__'): str('array'), str('dtype'): str('int32'), str('data'): int(7), str('encoding'): dict{}}",
    'encode_variable/np-0d': "dict{str('__type__'): str('variable'), str('dims'): list[str('x')], str('data'): dict{str('__type__'): str('array'), str('dtype'): str('int32'), str('data'): int(7), str('encoding'): dict{}}, str('attrs'): dict{str('k'): str('np-0d')}}",
    'encode_array/np-generic': "dict{str('__type__'): str('array'), str('dtype'): str('float32'), str('data'): float(1.5), str('encoding'): dict{}}",
    'encode_variable/np-generic': "dict{str('__type__'): str('variable'), str('dims'): list[str('x')], str('data'): dict{str('__type__'): str('array'), str('dtype'): str('float32'), str('data'): float(1.5), str('encoding'): dict{}}, str('attrs'): dict{str('k'): str('np-generic')}}",
    'encode_array/np-bigendian': "dict{str('__type__'): str('array'), str('dtype'): str('>i4'), str('data'): list[int(1), int(2)], str('encoding'): dict{}}",
    'encode_variable/np-bigendian': "dict{str('__type__'): str('variable'), str('dims'): list[str('x')], str('data'): dict{str('__type__'): str('array'), str('dtype'): str('>i4'), str('data'): list[int(1), int(2)], str('encoding'): dict{}}, str('attrs'): dict{str('k'): str('np-bigendian')}}",
    'encode_array/np-float16-nan': "dict{str('__type__'): str('array'), str('dtype'): str('float16'), str('data'): list[float(nan), float(1.0)], str('encoding'): dict{}}",
    'encode_variable/np-float16-nan': "dict{str('__type__'): str('variable'), str('dims'): list[str('x')], str('data'): dict{str('__type__'): str('array'), str('dtype'): str('float16'), str('data'): list[float(nan), float(1.0)], str('encoding'): dict{}}, str('attrs'): dict{str('k'): str('np-float16-nan')}}",
    'encode_array/duck': "dict{str('__type__'): str('array'), str('dtype'): str('object'), str('data'): Duck(<Duck>), str('encoding'): dict{}}",
    'encode_variable/duck': "dict{str('__type__'): str('variable'), str('dims'): list[str('x')], str('data'): dict{str('__type__'): str('array'), str('dtype'): str('object'), str('data'): Duck(<Duck>), str('encoding'): dict{}}, str('attrs'): dict{str('k'): str('duck')}}",
    'encode_array/td-s': "dict{str('__type__'): str('array'), str('dtype'): str('timedelta64[s]'), str('data'): list[int(-1), int(0), int(1), int(2)], str('encoding'): dict{str('units'): str('s')}}",
    'encode_variable/td-s': "dict{str('__type__'): str('variable'), str('dims'): list[str('x')], str('data'): dict{str('__type__'): str('array'), str('dtype'): str('timedelta64[s]'), str('data'): list[int(-1), int(0), int(1), int(2)], str('encoding'): dict{str('units'): str('s')}}, str('attrs'): dict{str('k'): str('td-s')}}",
    'encode_array/td-ms': "dict{str('__type__'): str('array'), str('dtype'): str('timedelta64[ms]'), str('data'): list[int(0), int(100), int(200)], str('encoding'): dict{str('units'): str('ms')}}",
    'encode_variable/td-ms': "dict{str('__type__'): str('variable'), str('dims'): list[str('x')], str('data'): dict{str('__type__'): str('array'), str('dtype'): str('timedelta64[ms]'), str('data'): list[int(0), int(100), int(200)], str('encoding'): dict{str('units'): str('ms')}}, str('attrs'): dict{str('k'): str('td-ms')}}",
    'encode_array/td-ns-2d': "dict{str('__type__'): str('array'), str('dtype'): str('timedelta64[ns]'), str('data'): list[list[int(0), int(1)], list[int(2), int(3)]], str('encoding'): dict{str('units'): str('ns')}}",
    'encode_variable/td-ns-2d': "dict{str('__type__'): str('variable'), str('dims'): list[str('x')], str('data'): dict{str('__type__'): str('array'), str('dtype'): str('timedelta64[ns]'), str('data'): list[list[int(0), int(1)], list[int(2), int(3)]], str('encoding'): dict{str('units'): str('ns')}}, str('attrs'): dict{str('k'): str('td-ns-2d')}}",
    'encode_array/td-generic': "dict{str('__type__'): str('array'), str('dtype'): str('timedelta64'), str('data'): list[int(1), int(2)], str('encoding'): dict{str('units'): str('generic')}}",
    'encode_variable/td-generic': "dict{str('__type__'): str('variable'), str('dims'): list[str('x')], str('data'): dict{str('__type__'): str('array'), str('dtype'): str('timedelta64'), str('data'): list[int(1), int(2)], str('encoding'): dict{str('units'): str('generic')}}, str('attrs'): dict{str('k'): str('td-generic')}}",
    'encode_array/td-nat': "dict{str('__type__'): str('array'), str('dtype'): str('timedelta64[us]'), str('data'): list[int(1), int(-9223372036854775808)], str('encoding'): dict{str('units'): str('us')}}",
    'encode_variable/td-nat': "dict{str('__type__'): str('variable'), str('dims'): list[str('x')], str('data'): dict{str('__type__'): str('array'), str('dtype'): str('timedelta64[us]'), str('data'): list[int(1), int(-9223372036854775808)], str('encoding'): dict{str('units'): str('us')}}, str('attrs'): dict{str('k'): str('td-nat')}}",
    'encode_array/td-empty': "dict{str('__type__'): str('array'), str('dtype'): str('timedelta64[D]'), str('data'): list[], str('encoding'): dict{str('units'): str('D')}}",
    'encode_variable/td-empty': "dict{str('__type__'): str('variable'), str('dims'): list[str('x')], str('data'): dict{str('__type__'): str('array'), str('dtype'): str('timedelta64[D]'), str('data'): list[], str('encoding'): dict{str('units'): str('D')}}, str('attrs'): dict{str('k'): str('td-empty')}}",
    'encode_array/td-0d': "dict{str('__type__'): str('array'), str('dtype'): str('timedelta64[h]'), str('data'): int(3), str('encoding'): dict{str('units'): str('h')}}",
    'encode_variable/td-0d': "dict{str('__type__'): str('variable'), str('dims'): list[str('x')], str('data'): dict{str('__type__'): str('array'), str('dtype'): str('timedelta64[h]'), str('data'): int(3), str('encoding'): dict{str('units'): str('h')}}, str('attrs'): dict{str('k'): str('td-0d')}}",
    'encode_array/td-multiple': "dict{str('__type__'): str('array'), str('dtype'): str('timedelta64[25s]'), str('data'): list[int(1), int(2)], str('encoding'): dict{str('units'): str('s')}}",
    'encode_variable/td-multiple': "dict{str('__type__'): str('variable'), str('dims'): list[str('x')], str('data'): dict{str('__type__'): str('array'), str('dtype'): str('timedelta64[25s]'), str('data'): list[int(1), int(2)], str('encoding'): dict{str('units'): str('s')}}, str('attrs'): dict{str('k'): str('td-multiple')}}",
    'encode_array/td-list': "dict{str('__type__'): str('array'), str('dtype'): str('timedelta64[ms]'), str('data'): list[int(1000), int(1500)], str('encoding'): dict{str('units'): str('ms')}}",
    'encode_variable/td-list': "dict{str('__type__'): str('variable'), str('dims'): list[str('x')], str('data'): dict{str('__type__'): str('array'), str('dtype'): str('timedelta64[ms]'), str('data'): list[int(1000), int(1500)], str('encoding'): dict{str('units'): str('ms')}}, str('attrs'): dict{str('k'): str('td-list')}}",
    'encode_array/dt-s': "dict{str('__type__'): str('array'), str('dtype'): str('datetime64[s]'), str('data'): list[int(0), int(60)], str('encoding'): dict{str('reference'): str('2019-01-01T00:00:00'), str('units'): str('s')}}",
    'encode_variable/dt-s': "dict{str('__type__'): str('variable'), str('dims'): list[str('x')], str('data'): dict{str('__type__'): str('array'), str('dtype'): str('datetime64[s]'), str('data'): list[int(0), int(60)], str('encoding'): dict{str('reference'): str('2019-01-01T00:00:00'), str('units'): str('s')}}, str('attrs'): dict{str('k'): str('dt-s')}}",
    'encode_array/dt-ns': "dict{str('__type__'): str('array'), str('dtype'): str('datetime64[ns]'), str('data'): list[int(0), int(-1500000000), int(0)], str('encoding'): dict{str('reference'): str('2020-01-01T00:00:00.500000000'), str('units'): str('ns')}}",
    'encode_variable/dt-ns': "dict{str('__type__'): str('variable'), str('dims'): list[str('x')], str('data'): dict{str('__type__'): str('array'), str('dtype'): str('datetime64[ns]'), str('data'): list[int(0), int(-1500000000), int(0)], str('encoding'): dict{str('reference'): str('2020-01-01T00:00:00.500000000'), str('units'): str('ns')}}, str('attrs'): dict{str('k'): str('dt-ns')}}",
    'encode_array/dt-ms-single': "dict{str('__type__'): str('array'), str('dtype'): str('datetime64[ms]'), str('data'): list[int(0)], str('encoding'): dict{str('reference'): str('1997-05-27T00:00:00.000'), str('units'): str('ms')}}",
    'encode_variable/dt-ms-single': "dict{str('__type__'): str('variable'), str('dims'): list[str('x')], str('data'): dict{str('__type__'): str('array'), str('dtype'): str('datetime64[ms]'), str('data'): list[int(0)], str('encoding'): dict{str('reference'): str('1997-05-27T00:00:00.000'), str('units'): str('ms')}}, str('attrs'): dict{str('k'): str('dt-ms-single')}}",
    'encode_array/dt-D': "dict{str('__type__'): str('array'), str('dtype'): str('datetime64[D]'), str('data'): list[int(0), int(60)], str('encoding'): dict{str('reference'): str('2000-01-01'), str('units'): str('D')}}",
    'encode_variable/dt-D': "dict{str('__type__'): str('variable'), str('dims'): list[str('x')], str('data'): dict{str('__type__'): str('array'), str('dtype'): str('datetime64[D]'), str('data'): list[int(0), int(60)], str('encoding'): dict{str('reference'): str('2000-01-01'), str('units'): str('D')}}, str('attrs'): dict{str('k'): str('dt-D')}}",
    'encode_array/dt-nat-later': "dict{str('__type__'): str('array'), str('dtype'): str('datetime64[s]'), str('data'): list[int(0), int(-9223372036854775808)], str('encoding'): dict{str('reference'): str('2000-01-01T00:00:00'), str('units'): str('s')}}",
    'encode_variable/dt-nat-later': "dict{str('__type__'): str('variable'), str('dims'): list[str('x')], str('data'): dict{str('__type__'): str('array'), str('dtype'): str('datetime64[s]'), str('data'): list[int(0), int(-9223372036854775808)], str('encoding'): dict{str('reference'): str('2000-01-01T00:00:00'), str('units'): str('s')}}, str('attrs'): dict{str('k'): str('dt-nat-later')}}",
    'encode_array/dt-nat-first': "dict{str('__type__'): str('array'), str('dtype'): str('datetime64[s]'), str('data'): list[int(-9223372036854775808), int(-9223372036854775808)], str('encoding'): dict{str('reference'): str('NaT'), str('units'): str('s')}}",
    'encode_variable/dt-nat-first': "dict{str('__type__'): str('variable'), str('dims'): list[str('x')], str('data'): dict{str('__type__'): str('array'), str('dtype'): str('datetime64[s]'), str('data'): list[int(-9223372036854775808), int(-9223372036854775808)], str('encoding'): dict{str('reference'): str('NaT'), str('units'): str('s')}}, str('attrs'): dict{str('k'): str('dt-nat-first')}}",
    'encode_array/dt-2d': 'dict{str(\'__type__\'): str(\'array\'), str(\'dtype\'): str(\'datetime64[D]\'), str(\'data\'): list[list[int(0), int(0)], list[int(2), int(3)]], str(\'encoding\'): dict{str(\'reference\'): str("[\'2000-01-01\' \'2000-01-02\']"), str(\'units\'): str(\'D\')}}',
    'encode_variable/dt-2d': 'dict{str(\'__type__\'): str(\'variable\'), str(\'dims\'): list[str(\'x\')], str(\'data\'): dict{str(\'__type__\'): str(\'array\'), str(\'dtype\'): str(\'datetime64[D]\'), str(\'data\'): list[list[int(0), int(0)], list[int(2), int(3)]], str(\'encoding\'): dict{str(\'reference\'): str("[\'2000-01-01\' \'2000-01-02\']"), str(\'units\'): str(\'D\')}}, str(\'attrs\'): dict{str(\'k\'): str(\'dt-2d\')}}',
    'encode_array/dt-empty': 'raised IndexError: index 0 is out of bounds for axis 0 with size 0',
    'encode_variable/dt-empty': 'raised IndexError: index 0 is out of bounds for axis 0 with size 0',
    'encode_array/dt-0d': 'raised IndexError: too many indices for array: array is 0-dimensional, but 1 were indexed',
    'encode_variable/dt-0d': 'raised IndexError: too many indices for array: array is 0-dimensional, but 1 were indexed',
    'encode_array/dt-generic': "dict{str('__type__'): str('array'), str('dtype'): str('datetime64'), str('data'): list[int(-9223372036854775808)], str('encoding'): dict{str('reference'): str('NaT'), str('units'): str('generic')}}",
    'encode_variable/dt-generic': "dict{str('__type__'): str('variable'), str('dims'): list[str('x')], str('data'): dict{str('__type__'): str('array'), str('dtype'): str('datetime64'), str('data'): list[int(-9223372036854775808)], str('encoding'): dict{str('reference'): str('NaT'), str('units'): str('generic')}}, str('attrs'): dict{str('k'): str('dt-generic')}}",
    'encode_array/dt-list': "dict{str('__type__'): str('array'), str('dtype'): str('datetime64[s]'), str('data'): list[int(0), int(10)], str('encoding'): dict{str('reference'): str('2001-01-01T00:00:00'), str('units'): str('s')}}",
    'encode_variable/dt-list': "dict{str('__type__'): str('variable'), str('dims'): list[str('x')], str('data'): dict{str('__type__'): str('array'), str('dtype'): str('datetime64[s]'), str('data'): list[int(0), int(10)], str('encoding'): dict{str('reference'): str('2001-01-01T00:00:00'), str('units'): str('s')}}, str('attrs'): dict{str('k'): str('dt-list')}}",
    'encode_array/dt-strings-are-not-datetimes': "dict{str('__type__'): str('array'), str('dtype'): str('<U10'), str('data'): list[str('2001-01-01'), str('2001-01-02')], str('encoding'): dict{}}",
    'encode_variable/dt-strings-are-not-datetimes': "dict{str('__type__'): str('variable'), str('dims'): list[str('x')], str('data'): dict{str('__type__'): str('array'), str('dtype'): str('<U10'), str('data'): list[str('2001-01-01'), str('2001-01-02')], str('encoding'): dict{}}, str('attrs'): dict{str('k'): str('dt-strings-are-not-datetimes')}}",
    'patched-encoders': "list[list[dict{str('__type__'): str('array'), str('dtype'): str('timedelta64[s]'), str('data'): str('TD'), str('encoding'): dict{str('fake'): int(1)}}, dict{str('__type__'): str('array'), str('dtype'): str('datetime64[D]'), str('data'): str('DT'), str('encoding'): dict{str('fake'): int(2)}}, dict{str('__type__'): str('array'), str('dtype'): str('int64'), str('data'): list[int(1), int(2)], str('encoding'): dict{}}], list[tuple[str('m'), str('ndarray'), str('timedelta64[s]')], tuple[str('M'), str('ndarray'), str('datetime64[D]')]]]",
    'no-mutation': "list[ndarray<int64, (3,)>([3, 1, 2]), ndarray<datetime64[D], (2,)>([datetime.date(2000, 1, 2), datetime.date(2000, 1, 1)]), dict{str('__type__'): str('array'), str('dtype'): str('int64'), str('data'): list[int(3), int(1), int(2), int(99)], str('encoding'): dict{}}, dict{str('__type__'): str('array'), str('dtype'): str('datetime64[D]'), str('data'): list[int(0), int(-1), int(99)], str('encoding'): dict{str('reference'): str('2000-01-02'), str('units'): str('D')}}]",
    'through-hierarchy': 'list[dict{str(\'__type__\'): str(\'group\'), str(\'url\'): str(\'s3://bucket/scene\'), str(\'data\'): dict{str(\'t\'): dict{str(\'__type__\'): str(\'variable\'), str(\'dims\'): list[str(\'t\')], str(\'data\'): dict{str(\'__type__\'): str(\'array\'), str(\'dtype\'): str(\'datetime64[s]\'), str(\'data\'): list[int(0), int(172800)], str(\'encoding\'): dict{str(\'reference\'): str(\'2000-01-01T00:00:00\'), str(\'units\'): str(\'s\')}}, str(\'attrs\'): dict{}}, str(\'dt\'): dict{str(\'__type__\'): str(\'variable\'), str(\'dims\'): list[str(\'t\')], str(\'data\'): dict{str(\'__type__\'): str(\'array\'), str(\'dtype\'): str(\'timedelta64[D]\'), str(\'data\'): list[int(0), int(2)], str(\'encoding\'): dict{str(\'units\'): str(\'D\')}}, str(\'attrs\'): dict{str(\'a\'): tuple[int(1), int(2)]}}, str(\'sub\'): dict{str(\'__type__\'): str(\'group\'), str(\'url\'): str(\'s3://bucket/scene\'), str(\'data\'): dict{str(\'img\'): dict{str(\'__type__\'): str(\'variable\'), str(\'dims\'): list[str(\'rows\'), str(\'cols\')], str(\'data\'): dict{str(\'__type__\'): str(\'backend_array\'), str(\'root\'): str(\'/path/to\'), str(\'url\'): str(\'file\'), str(\'shape\'): tuple[int(4), int(3)], str(\'dtype\'): str(\'int16\'), str(\'byte_ranges\'): list[tuple[int(5), int(10)], tuple[int(15), int(20)], tuple[int(25), int(30)], tuple[int(35), int(40)]], str(\'type_code\'): str(\'IU2\')}, str(\'attrs\'): dict{str(\'units\'): str(\'dn\')}}}, str(\'path\'): str(\'/sub\'), str(\'attrs\'): dict{str(\'n\'): int(1)}}, str(\'x\'): dict{str(\'__type__\'): str(\'variable\'), str(\'dims\'): list[str(\'x\')], str(\'data\'): dict{str(\'__type__\'): str(\'array\'), str(\'dtype\'): str(\'float64\'), str(\'data\'): list[float(1.0), float(2.0)], str(\'encoding\'): dict{}}, str(\'attrs\'): dict{}}}, str(\'path\'): str(\'/\'), str(\'attrs\'): dict{str(\'shape\'): tuple[int(2), int(3)]}}, str(\'{"__type__": "group", "url": "s3://bucket/scene", "data": {"t": {"__type__": "variable", "dims": ["t"], "data": {"__type__": "array", "dtype": "datetime64[s]", "data": [0, 172800], "encoding": {"reference": "2000-01-01T00:00:00", "units": "s"}}, "attrs": {}}, "dt": {"__type__": "variable", "dims": ["t"], "data": {"__type__": "array", "dtype": "timedelta64[D]", "data": [0, 2], "encoding": {"units": "D"}}, "attrs": {"a": {"__type__": "tuple", "data": [1, 2]}}}, "sub": {"__type__": "group", "url": "s3://bucket/scene", "data": {"img": {"__type__": "variable", "dims": ["rows", "cols"], "data": {"__type__": "backend_array", "root": "/path/to", "url": "file", "shape": {"__type__": "tuple", "data": [4, 3]}, "dtype": "int16", "byte_ranges": [{"__type__": "tuple", "data": [5, 10]}, {"__type__": "tuple", "data": [15, 20]}, {"__type__": "tuple", "data": [25, 30]}, {"__type__": "tuple", "data": [35, 40]}], "type_code": "IU2"}, "attrs": {"units": "dn"}}}, "path": "/sub", "attrs": {"n": 1}}, "x": {"__type__": "variable", "dims": ["x"], "data": {"__type__": "array", "dtype": "float64", "data": [1.0, 2.0], "encoding": {}}, "attrs": {}}}, "path": "/", "attrs": {"shape": {"__type__": "tuple", "data": [2, 3]}}}\'), dict{str(\'__type__\'): str(\'group\'), str(\'url\'): str(\'s3://bucket/scene\'), str(\'data\'): dict{str(\'t\'): dict{str(\'__type__\'): str(\'variable\'), str(\'dims\'): list[str(\'t\')], str(\'data\'): dict{str(\'__type__\'): str(\'array\'), str(\'dtype\'): str(\'datetime64[s]\'), str(\'data\'): list[int(0), int(172800)], str(\'encoding\'): dict{str(\'reference\'): str(\'2000-01-01T00:00:00\'), str(\'units\'): str(\'s\')}}, str(\'attrs\'): dict{}}, str(\'dt\'): dict{str(\'__type__\'): str(\'variable\'), str(\'dims\'): list[str(\'t\')], str(\'data\'): dict{str(\'__type__\'): str(\'array\'), str(\'dtype\'): str(\'timedelta64[D]\'), str(\'data\'): list[int(0), int(2)], str(\'encoding\'): dict{str(\'units\'): str(\'D\')}}, str(\'attrs\'): dict{str(\'a\'): dict{str(\'__type__\'): str(\'tuple\'), str(\'data\'): list[int(1), int(2)]}}}, str(\'sub\'): dict{str(\'__type__\'): str(\'group\'), str(\'url\'): str(\'s3://bucket/scene\'), str(\'data\'): dict{str(\'img\'): dict{str(\'__type__\'): str(\'variable\'), str(\'dims\'): list[str(\'rows\'), str(\'cols\')], str(\'data\'): dict{str(\'__type__\'): str(\'backend_array\'), str(\'root\'): str(\'/path/to\'), str(\'url\'): str(\'file\'), str(\'shape\'): dict{str(\'__type__\'): str(\'tuple\'), str(\'data\'): list[int(4), int(3)]}, str(\'dtype\'): str(\'int16\'), str(\'byte_ranges\'): list[dict{str(\'__type__\'): str(\'tuple\'), str(\'data\'): list[int(5), int(10)]}, dict{str(\'__type__\'): str(\'tuple\'), str(\'data\'): list[int(15), int(20)]}, dict{str(\'__type__\'): str(\'tuple\'), str(\'data\'): list[int(25), int(30)]}, dict{str(\'__type__\'): str(\'tuple\'), str(\'data\'): list[int(35), int(40)]}], str(\'type_code\'): str(\'IU2\')}, str(\'attrs\'): dict{str(\'units\'): str(\'dn\')}}}, str(\'path\'): str(\'/sub\'), str(\'attrs\'): dict{str(\'n\'): int(1)}}, str(\'x\'): dict{str(\'__type__\'): str(\'variable\'), str(\'dims\'): list[str(\'x\')], str(\'data\'): dict{str(\'__type__\'): str(\'array\'), str(\'dtype\'): str(\'float64\'), str(\'data\'): list[float(1.0), float(2.0)], str(\'encoding\'): dict{}}, str(\'attrs\'): dict{}}}, str(\'path\'): str(\'/\'), str(\'attrs\'): dict{str(\'shape\'): dict{str(\'__type__\'): str(\'tuple\'), str(\'data\'): list[int(2), int(3)]}}}]',
    'missing-argument': "raised TypeError: encode_array() missing 1 required positional argument: 'obj'",
    'keyword-argument': "dict{str('__type__'): str('array'), str('dtype'): str('int64'), str('data'): list[int(1)], str('encoding'): dict{}}",
}


if __name__ == "__main__":
    if "--record" in sys.argv:
        print("EXPECTED = {")
        for key, value in run_cases().items():
            print(f"    {key!r}: {value!r},")
        print("}")
    else:
        print(f"{check()} cases identical to the recorded behaviour")
